import LPVerif.Model.Core
import LPVerif.Lemmas.Core
import LPVerif.Model.Prof
import LPVerif.Driver.All
import LPVerif.Props.C01
import LPVerif.Props.C12
import LPVerif.Props.C05
