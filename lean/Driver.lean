import LPVerif.Driver.All
/-! `lake env lean --run Driver.lean` : first line `model <name>`, then one op per line. -/
open LPVerif

def words (line : String) : List String :=
  (line.trimAscii.toString.splitOn " ").filter (· ≠ "")

partial def loop {σ} (h : IO.FS.Stream) (out : IO.FS.Stream) (step : σ → List String → σ × List String) (s : σ) : IO Unit := do
  let line ← h.getLine
  if line.isEmpty then return ()
  let (s', outs) := step s (words line)
  for o in outs do out.putStrLn o
  loop h out step s'

def main : IO Unit := do
  let stdin ← IO.getStdin
  let stdout ← IO.getStdout
  let first ← stdin.getLine
  match words first with
  | ["model", "prof"] => loop stdin stdout Driver.Prof.step {}
  | _ => stdout.putStrLn "bad-model"
  stdout.flush
