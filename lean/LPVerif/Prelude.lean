/-!
# Prelude for emitted (transliterated) Python code

The translator `tools/extract.py` emits shallow Lean definitions over these few primitives.
-/
namespace LPVerif.Py

inductive PyErr | fuel | ValueError | AssertionError | fellOff | unsupported
deriving DecidableEq, Repr

/-- `l.index(x)` (`none` = ValueError) -/
def pyIndex : List String → String → Option Nat
  | [], _ => none
  | a :: r, x => if a = x then some 0 else (pyIndex r x).map (· + 1)

/-- `l[lo:hi]` for non-negative bounds -/
def pySlice (l : List String) (lo hi : Option Nat) : List String :=
  ((l.take (hi.getD l.length)).drop (lo.getD 0))

/-- `l[:-k]` -/
def pyDropLastN (l : List String) (k : Nat) : List String := l.take (l.length - k)

/-- `l[i]` for an index known to be in range (`none` = IndexError) -/
def pyGet (l : List String) (i : Nat) : Option String := l[i]?

abbrev pyFalsy (l : List String) : Prop := l = []

/-- `sep.join(l)` -/
def pyJoin (sep : String) (l : List String) : String := sep.intercalate l

/-- `s.split(sep)` for a one-character separator -/
def pySplit (s : String) (sep : Char) : List String := s.split (· == sep) |>.toList.map (·.toString)

end LPVerif.Py
