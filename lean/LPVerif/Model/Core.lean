/-!
# Model.Core — the trace-callback machine of `_line_profiler.pyx`

`python_trace_callback` (`_line_profiler.pyx:435-484`) transcribed at the *abstract* level A of
DESIGN §4: a line is identified by the pair (bytecode value, line number) instead of by
`hash(co_code) XOR lineno`.  A bytecode value is a `Blk`: the id of the unpadded bytes plus the
number of NOP instructions `add_function` appended.  Byte-identical functions therefore share a
`Blk` in this model too (the model still exhibits the aliasing finding F-C04a and the
re-entrancy finding F-C02a); only 64-bit hash collisions are abstracted away (hypothesis
`NoCollision`, checked on the concrete hashes of every correspondence run).

Everything here is executable; the driver runs exactly these definitions.
No Mathlib import.
-/
namespace LPVerif.Core

/-- a bytecode value: id of the original bytes + number of appended NOPs -/
structure Blk where
  base : Nat
  pad  : Nat
deriving DecidableEq, Repr, Inhabited, Hashable

/-- one trace event as the callback sees it (`what ∈ {LINE, RETURN}`; other kinds are ignored by the
    code and are never fed to the model).  `f` is the frame id — a ghost field the callback does not
    look at (used only to *state* per-invocation properties).  `r1`,`r2` are the values returned by
    the first / second `hpTimer()` call of this callback invocation (`r2` only read for LINE). -/
structure Ev where
  t : Nat
  f : Nat
  b : Blk
  l : Int
  isLine : Bool
  r1 : Int
  r2 : Int
deriving DecidableEq, Repr, Inhabited

/-- `_c_code_map` (two-level: bucket = current line's key, then old line) and `_c_last_time` -/
structure St where
  regs : List (Blk × Int)                  -- keys of `_c_code_map`
  hits : Blk → Int → Int → Nat             -- block, bucket (current line), old line ↦ nhits
  time : Blk → Int → Int → Int             -- … ↦ total_time
  last : Nat → Blk → Option (Int × Int)    -- thread, block ↦ (f_lineno, time)

def St.init (regs : List (Blk × Int)) : St :=
  { regs := regs, hits := fun _ _ _ => 0, time := fun _ _ _ => 0, last := fun _ _ => none }

/-- `nhits += 1; total_time += dt` on `_c_code_map[hash(b,cur)][old]` -/
def St.bump (s : St) (b : Blk) (cur old : Int) (dt : Int) : St :=
  { s with
    hits := fun b' c' o' => if b' = b ∧ c' = cur ∧ o' = old then s.hits b' c' o' + 1 else s.hits b' c' o'
    time := fun b' c' o' => if b' = b ∧ c' = cur ∧ o' = old then s.time b' c' o' + dt else s.time b' c' o' }

def St.setLast (s : St) (t : Nat) (b : Blk) (v : Option (Int × Int)) : St :=
  { s with last := fun t' b' => if t' = t ∧ b' = b then v else s.last t' b' }

/-- lines 466-473 -/
def St.closePending (s : St) (t : Nat) (b : Blk) (cur : Int) (r1 : Int) : St :=
  match s.last t b with
  | some (old, st) => s.bump b cur old (r1 - st)
  | none => s

/-- `python_trace_callback`, the LINE / RETURN branch (lines 456-482) -/
def cb (s : St) (e : Ev) : St :=
  if (e.b, e.l) ∈ s.regs then
    (s.closePending e.t e.b e.l e.r1).setLast e.t e.b (if e.isLine then some (e.l, e.r2) else none)
  else s

def run (s : St) (evs : List Ev) : St := evs.foldl cb s

/-- `disable()`: `self._c_last_time[ident].clear()` -/
def St.clearThread (s : St) (t : Nat) : St :=
  { s with last := fun t' b' => if t' = t then none else s.last t' b' }

/-- registering further keys of `_c_code_map` (`self._c_code_map[code_hash]`) -/
def St.addRegs (s : St) (rs : List (Blk × Int)) : St := { s with regs := s.regs ++ rs }

/-! ## What `get_stats` reads -/

/-- hits stored for old line `l` in the buckets of the lines `lines` of block `b` -/
def closed (s : St) (lines : List Int) (b : Blk) (l : Int) : Nat :=
  (lines.map (fun c => s.hits b c l)).sum

def closedT (s : St) (lines : List Int) (b : Blk) (l : Int) : Int :=
  (lines.map (fun c => s.time b c l)).sum

/-- threads whose pending slot for `b` is at line `l` -/
def pend (s : St) (threads : List Nat) (b : Blk) (l : Int) : Nat :=
  (threads.filter (fun t => (s.last t b).map Prod.fst = some l)).length

/-- LINE events of `(b,l)` that the callback does not ignore -/
def opened (regs : List (Blk × Int)) (evs : List Ev) (b : Blk) (l : Int) : Nat :=
  (evs.filter (fun e => e.isLine ∧ e.b = b ∧ e.l = l ∧ (e.b, e.l) ∈ regs)).length

def ind (regs : List (Blk × Int)) (e : Ev) (b : Blk) (l : Int) : Nat :=
  if e.isLine ∧ e.b = b ∧ e.l = l ∧ (e.b, e.l) ∈ regs then 1 else 0

end LPVerif.Core
