/-!
# Model.Callable — the algebra of callables `wrap_callable` / `_get_underlying_functions` act on

`C` = the objects a profiler can be asked to decorate: function objects, the function wrappers a profiler produces
(`functools.wraps` + marker `__line_profiler_id__ = id(profiler)`), and the descriptor / partial wrappers around them
(`classmethod`, `staticmethod`, bound method, `functools.partial[method]`, `property`, `functools.cached_property`),
nested to any depth.  `wrap p` is `ByCountProfilerMixin.wrap_callable` for the profiler `p`
(`profiler_mixin.py:48-194`), `underlying` is `_get_underlying_functions` (`line_profiler.py:41-66`), `registered p` is
what `add_callable` hands to `add_function` (`:99-116`).  `invoke` gives the observable effect of using an object:
which underlying functions run, with which arguments, in which order, and at which nesting depth of `p`'s
enable/disable bracket.
-/
namespace LPVerif.Callable

inductive Kind | plain | gen | coro | agen
deriving DecidableEq, Repr

mutual
inductive C
  | fn (id : Nat) (kind : Kind)                      -- a function object (not produced by a profiler)
  | obj (id : Nat) (callFn : Nat)                    -- any other callable object; `type(o).__call__` is function `callFn`
  | wrapper (p : Nat) (inner : C)                    -- function wrapper produced by profiler `p` around `inner`
  | classm (c : C)
  | staticm (c : C)
  | bound (c : C) (self : Nat)
  | partial_ (c : C) (args : List Nat)
  | partialm (c : C) (args : List Nat)
  | prop (fget fset fdel : OC) (doc : Nat) (name : Nat)
  | cached (c : C) (attrname : Option Nat)
inductive OC
  | none
  | some (c : C)
end

/-! ## `wrap_callable` -/
mutual
def wrap (p : Nat) : C → C
  | .fn id k => .wrapper p (.fn id k)
  | .obj id f => .wrapper p (.obj id f)
  | .wrapper q inner => if q = p then .wrapper q inner else .wrapper p (.wrapper q inner)   -- `_already_wrapped`
  | .classm c => .classm (wrap p c)
  | .staticm c => .staticm (wrap p c)
  | .bound c self => .bound (wrap p c) self
  | .partial_ c a => .partial_ (wrap p c) a
  | .partialm c a => .partialm (wrap p c) a
  | .prop g s d doc name => .prop (wrapO p g) (wrapO p s) (wrapO p d) doc name
  | .cached c a => .cached (wrap p c) a
def wrapO (p : Nat) : OC → OC
  | .none => .none
  | .some c => .some (wrap p c)
end

-- the object with every function wrapper of profiler `p` removed
mutual
def erase (p : Nat) : C → C
  | .fn id k => .fn id k
  | .obj id f => .obj id f
  | .wrapper q inner => if q = p then erase p inner else .wrapper q (erase p inner)
  | .classm c => .classm (erase p c)
  | .staticm c => .staticm (erase p c)
  | .bound c self => .bound (erase p c) self
  | .partial_ c a => .partial_ (erase p c) a
  | .partialm c a => .partialm (erase p c) a
  | .prop g s d doc name => .prop (eraseO p g) (eraseO p s) (eraseO p d) doc name
  | .cached c a => .cached (erase p c) a
def eraseO (p : Nat) : OC → OC
  | .none => .none
  | .some c => .some (erase p c)
end

/-- function kind as `inspect.is*function` sees it (`functools.wraps` + the wrapper being of the same kind) -/
def kindOf : C → Option Kind
  | .fn _ k => some k
  | .wrapper _ inner => kindOf inner
  | _ => none

/-! ## `_get_underlying_functions` and registration -/
mutual
def underlying : C → List C
  | .fn id k => [.fn id k]
  | .obj _ f => [.fn f .plain]
  | .wrapper q inner => [.wrapper q inner]        -- a wrapper is itself a function object
  | .classm c => underlying c
  | .staticm c => underlying c
  | .bound c _ => underlying c
  | .partial_ c _ => underlying c
  | .partialm c _ => underlying c
  | .prop g s d _ _ => underlyingO g ++ underlyingO s ++ underlyingO d
  | .cached c _ => underlying c
def underlyingO : OC → List C
  | .none => []
  | .some c => underlying c
end

def isWrapperOf (p : Nat) : C → Bool
  | .wrapper q _ => q = p
  | _ => false

/-- what `add_callable` passes to `add_function`: the underlying functions that are not already `p`'s wrappers -/
def registered (p : Nat) (c : C) : List C := (underlying c).filter (fun f => !isWrapperOf p f)

-- the plain function objects at the leaves
mutual
def leaves : C → List C
  | .fn id k => [.fn id k]
  | .obj _ f => [.fn f .plain]
  | .wrapper _ inner => leaves inner
  | .classm c => leaves c
  | .staticm c => leaves c
  | .bound c _ => leaves c
  | .partial_ c _ => leaves c
  | .partialm c _ => leaves c
  | .prop g s d _ _ => leavesO g ++ leavesO s ++ leavesO d
  | .cached c _ => leaves c
def leavesO : OC → List C
  | .none => []
  | .some c => leaves c
end

-- no function wrapper of profiler `p` anywhere inside
mutual
def raw (p : Nat) : C → Bool
  | .fn _ _ => true
  | .obj _ _ => true
  | .wrapper q inner => q ≠ p && raw p inner
  | .classm c => raw p c
  | .staticm c => raw p c
  | .bound c _ => raw p c
  | .partial_ c _ => raw p c
  | .partialm c _ => raw p c
  | .prop g s d _ _ => rawO p g && rawO p s && rawO p d
  | .cached c _ => raw p c
def rawO (p : Nat) : OC → Bool
  | .none => true
  | .some c => raw p c
end

-- no wrapper of *any* profiler inside (a tower over plain functions)
mutual
def plainTower : C → Bool
  | .fn _ _ => true
  | .obj _ _ => true
  | .wrapper _ _ => false
  | .classm c => plainTower c
  | .staticm c => plainTower c
  | .bound c _ => plainTower c
  | .partial_ c _ => plainTower c
  | .partialm c _ => plainTower c
  | .prop g s d _ _ => plainTowerO g && plainTowerO s && plainTowerO d
  | .cached c _ => plainTower c
def plainTowerO : OC → Bool
  | .none => true
  | .some c => plainTower c
end

/-! ## using an object -/

inductive Access
  | call (args : List Nat)
  | get (inst : Nat)
  | set (inst v : Nat)
  | del (inst : Nat)
deriving DecidableEq, Repr

/-- an underlying function runs with these arguments while `depth` brackets of profiler `p` are open;
    `err` = the access is not supported by the object (AttributeError / TypeError) -/
inductive Ev
  | run (f : Nat) (args : List Nat) (depth : Nat)
  | err
deriving DecidableEq, Repr

def clsTag : Nat := 0

mutual
/-- `invoke p c a d`: effect of access `a` on `c` when `d` brackets of `p` are already open -/
def invoke (p : Nat) : C → Access → Nat → List Ev
  | .fn id _, .call args, d => [.run id args d]
  | .obj id f, .call args, d => [.run f (id :: args) d]
  | .wrapper q inner, .call args, d => invoke p inner (.call args) (if q = p then d + 1 else d)
  | .classm c, .call args, d => invoke p c (.call (clsTag :: args)) d
  | .staticm c, .call args, d => invoke p c (.call args) d
  | .bound c self, .call args, d => invoke p c (.call (self :: args)) d
  | .partial_ c a, .call args, d => invoke p c (.call (a ++ args)) d
  | .partialm c a, .call (self :: args), d => invoke p c (.call (self :: (a ++ args))) d
  | .prop g _ _ _ _, .get inst, d => invokeO p g (.call [inst]) d
  | .prop _ s _ _ _, .set inst v, d => invokeO p s (.call [inst, v]) d
  | .prop _ _ dl _ _, .del inst, d => invokeO p dl (.call [inst]) d
  | .cached c _, .get inst, d => invoke p c (.call [inst]) d
  | _, _, _ => [.err]
def invokeO (p : Nat) : OC → Access → Nat → List Ev
  | .none, _, _ => [.err]
  | .some c, a, d => invoke p c a d
end

/-- forget the bracket depth: what the program itself can observe -/
def observable : List Ev → List (Option (Nat × List Nat))
  | [] => []
  | .run f a _ :: r => some (f, a) :: observable r
  | .err :: r => none :: observable r

end LPVerif.Callable
