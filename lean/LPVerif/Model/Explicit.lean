import LPVerif.Generated.ExplicitTables
/-!
# Model.Explicit — `GlobalProfiler` (`line_profiler/explicit_profiler.py`), the importable `@profile`

State record `GP` = the attributes of the object plus two ghost counters (how many `LineProfiler()` were
constructed, how many times `self.show` was handed to `atexit.register`).  The methods below are the hand
model; `Generated/Explicit.lean` holds the transliteration of the tree's methods emitted on every run and
`Bridge/Explicit.lean` proves them equal.  The literal tables (`_FALSY_STRINGS`, `environ_flags`,
`cli_flags`, the outputs of `show`) come from `Generated/ExplicitTables.lean`.
-/
namespace LPVerif.Explicit

/-- which profiler object `self._profile` refers to -/
inductive ProfRef
  | own (n : Nat)        -- the n-th `LineProfiler()` this object created
  | given (n : Nat)      -- a profiler handed in by kernprof (`_kernprof_overwrite`)
deriving DecidableEq, Repr

structure GP where
  enabled : Option Bool := none
  profile : Option ProfRef := none
  output_prefix : String := "profile_output"
  created : Nat := 0        -- ghost: `LineProfiler()` constructions
  atexit : Nat := 0         -- ghost: `atexit.register(self.show)` calls
deriving DecidableEq, Repr

/-- the process environment as far as `_implicit_setup` reads it -/
structure Env where
  environ : List (String × String)
  argv : List String
deriving Repr

/-- result of `profile(func)` -/
inductive Ret
  | same                       -- `func` itself
  | wrapped (p : ProfRef)      -- `self._profile(func)`
  | typeError                  -- `self._profile` is None but `enabled` is true: `None(func)`
deriving DecidableEq, Repr

/-! ## primitives used by the emitted code -/

def GP.atexit_register_show (s : GP) : GP := { s with atexit := s.atexit + 1 }
def GP.new_LineProfiler (s : GP) : GP := { s with profile := some (.own s.created), created := s.created + 1 }
def GP.call_profile (s : GP) : Ret := match s.profile with | some p => .wrapped p | none => .typeError

def environGet (env : Env) (k : String) : String :=
  match env.environ.find? (fun p => p.1 = k) with
  | some p => p.2
  | none => ""

/-- ASCII lower-casing.  Python's `str.lower` agrees with it on membership in `_FALSY_STRINGS`: no non-ASCII code point
    lower-cases into the alphabet of those strings (probed over all code points by K14 on every run). -/
def lower (s : String) : String := s.map Char.toLower

/-- `any(os.environ.get(f, '').lower() not in _FALSY_STRINGS for f in environ_flags)` -/
def envRequested (env : Env) (flags : List String) (falsy : List String) : Bool :=
  flags.any fun f => !(falsy.contains (lower (environGet env f)))

/-- `any(f in sys.argv for f in cli_flags)` -/
def cliRequested (env : Env) (flags : List String) : Bool := flags.any fun f => env.argv.contains f

/-! ## the methods (hand model) -/

def GP.kernprofOverwrite (s : GP) (p : Option ProfRef) : GP := { s with profile := p, enabled := some true }

def GP.enable (s : GP) (output_prefix : Option String) : GP :=
  let s := if s.profile = none then s.atexit_register_show.new_LineProfiler else s
  let s := { s with enabled := some true }
  match output_prefix with
  | some p => { s with output_prefix := p }
  | none => s

def GP.disable (s : GP) : GP := { s with enabled := some false }

def isProfiling (env : Env) : Bool :=
  envRequested env Generated.environFlags Generated.falsyStrings || cliRequested env Generated.cliFlags

def GP.implicitSetup (s : GP) (env : Env) : GP :=
  if isProfiling env then s.enable none else s.disable

def GP.call (s : GP) (env : Env) : GP × Ret :=
  let s := if s.enabled = none then s.implicitSetup env else s
  if s.enabled = some true then (s, s.call_profile) else (s, .same)

/-! ## `show` (what is written at exit) -/

structure WriteCfg where
  lprof : Bool := true
  text : Bool := true
  timestamped_text : Bool := true
  stdout : Bool := true
deriving DecidableEq, Repr

def WriteCfg.get (c : WriteCfg) : String → Bool
  | "lprof" => c.lprof
  | "text" => c.text
  | "timestamped_text" => c.timestamped_text
  | "stdout" => c.stdout
  | _ => false

/-- file name of an output (`[]` stands for the report printed on stdout) -/
def outName (pattern : List Generated.Seg) (pfx ts : String) : String :=
  String.join (pattern.map fun
    | .lit s => s
    | .pfx => pfx
    | .ts => ts
    | .other s => "{" ++ s ++ "}")

/-- outputs written by `show()`, in order: (write_config key, file name; "" = stdout) -/
def showOutputs (table : List (String × List Generated.Seg)) (c : WriteCfg) (pfx ts : String) : List (String × String) :=
  (table.filter fun row => c.get row.1).map fun row => (row.1, outName row.2 pfx ts)

/-! ## histories -/

inductive Op
  | decorate
  | enable (pfx : Option String)
  | disable
  | kernprof (p : Option Nat)
deriving Repr

def GP.step (env : Env) (s : GP) : Op → GP
  | .decorate => (s.call env).1
  | .enable p => s.enable p
  | .disable => s.disable
  | .kernprof p => s.kernprofOverwrite (p.map .given)

def GP.run (env : Env) (s : GP) (ops : List Op) : GP := ops.foldl (GP.step env) s

/-- operations a user program performs (everything except kernprof's private hook) -/
def Op.isUser : Op → Bool
  | .kernprof _ => false
  | _ => true

end LPVerif.Explicit
