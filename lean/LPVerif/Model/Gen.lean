/-!
# Model.Gen — the generator-object protocol and the profiler's generator / coroutine wrappers

`Body σ` is a generator *function body* given as a resumption function; `GS σ` is the state of a generator
*object* (`created | suspended | finished`); `send`, `throw_`, `close` follow PEP 342 / PEP 479 (non-`None` sent to
a fresh generator → `TypeError`; `StopIteration` escaping a body → `RuntimeError`; `close()` on a generator that
yields again → `RuntimeError`).  Coroutines and async generators obey the same protocol at the level the wrappers
act on (`send/throw/close`, resp. `asend/athrow/aclose` as atomic steps).

`wrapGen` is `ByCountProfilerMixin.wrap_generator` / `wrap_async_generator` (`profiler_mixin.py`) as a body over the
wrapped generator object: `method, input_ = g.send, None; loop: enable; item = method(input_) [StopIteration → return
e.value] finally disable; try: input_ = yield item; method = g.send except BaseException as e: method, input_ = g.throw, e`.
`delegate` is `wrap_coroutine`: `enable; try: result = await func(...) finally: disable; return result` (PEP 380).
-/
namespace LPVerif.Gen

inductive Exn | genExit | stopIter | typeErr | runtimeErr | user (n : Nat)
deriving DecidableEq, Repr

/-- how a suspended (or fresh) body is resumed -/
inductive Resume | start | value (v : Option Nat) | throw (e : Exn)
deriving DecidableEq, Repr

inductive Step (σ : Type) | yield (v : Nat) (s : σ) | ret (v : Option Nat) | raise (e : Exn)

structure Body (σ : Type) where
  init : σ
  resume : σ → Resume → Step σ

inductive GS (σ : Type) | fresh | susp (s : σ) | done

/-- what a caller of send/throw/close observes -/
inductive Res | yielded (v : Nat) | stop (v : Option Nat) | raised (e : Exn) | closedOk
deriving DecidableEq, Repr

def settle {σ} : Step σ → Res × GS σ
  | .yield v s => (.yielded v, .susp s)
  | .ret v => (.stop v, .done)
  | .raise .stopIter => (.raised .runtimeErr, .done)      -- PEP 479
  | .raise e => (.raised e, .done)

/-- generator objects and coroutine objects differ once finished: a finished generator answers `send` with
    `StopIteration` and `throw(e)` with `e`; a finished coroutine answers both with
    `RuntimeError: cannot reuse already awaited coroutine`; a finished async generator answers `asend` with
    `StopAsyncIteration` and `athrow(e)` with … nothing (the awaitable completes with `None`; CPython 3.12) -/
inductive Flavor | gen | coro | agen
deriving DecidableEq, Repr

def send {σ} (fl : Flavor) (b : Body σ) : GS σ → Option Nat → Res × GS σ
  | .fresh, none => settle (b.resume b.init .start)
  | .fresh, some _ => (.raised .typeErr, .fresh)
  | .susp s, x => settle (b.resume s (.value x))
  | .done, _ => (match fl with | .gen => .stop none | .coro => .raised .runtimeErr | .agen => .stop none, .done)

def throw_ {σ} (fl : Flavor) (b : Body σ) : GS σ → Exn → Res × GS σ
  | .fresh, e => (.raised e, .done)
  | .susp s, e => settle (b.resume s (.throw e))
  | .done, e => (match fl with | .gen => .raised e | .coro => .raised .runtimeErr | .agen => .closedOk, .done)

def close {σ} (b : Body σ) : GS σ → Res × GS σ
  | .fresh => (.closedOk, .done)
  | .done => (.closedOk, .done)
  | .susp s =>
    match settle (b.resume s (.throw .genExit)) with
    | (.yielded _, g) => (.raised .runtimeErr, g)            -- generator ignored GeneratorExit
    | (.stop _, g) => (.closedOk, g)
    | (.raised .genExit, g) => (.closedOk, g)
    | (.raised e, g) => (.raised e, g)
    | (.closedOk, g) => (.closedOk, g)

inductive Op | send (x : Option Nat) | throw (e : Exn) | close
deriving DecidableEq, Repr

def apply {σ} (fl : Flavor) (b : Body σ) (g : GS σ) : Op → Res × GS σ
  | .send x => send fl b g x
  | .throw e => throw_ fl b g e
  | .close => close b g

def runOps {σ} (fl : Flavor) (b : Body σ) : GS σ → List Op → List Res
  | _, [] => []
  | g, op :: r => let (res, g') := apply fl b g op; res :: runOps fl b g' r

/-! ## the wrappers, as bodies over the inner generator object -/

/-- wrapper state: not started, or suspended at the wrapper's own `yield` holding the inner object -/
inductive W (σ : Type) | w0 | wY (g : GS σ)

/-- profiler events a wrapper step performs -/
inductive PEv | en | dis
deriving DecidableEq, Repr

def relay {σ} : Res × GS σ → Step (W σ)
  | (.yielded v, g) => .yield v (.wY g)
  | (.stop v, _) => .ret v                  -- `except StopIteration as e: return e.value`
  | (.raised e, _) => .raise e
  | (.closedOk, _) => .ret none             -- unreachable for send/throw

/-- one resumption of the generator wrapper: the step and the profiler events it performs
    (`enable_by_count()` … `finally: disable_by_count()` around the single call into the wrapped generator) -/
def wrapGenStep {σ} (b : Body σ) : W σ → Resume → Step (W σ) × List PEv
  | .w0, _ => (relay (send .gen b .fresh none), [.en, .dis])
  | .wY g, .value x => (relay (send .gen b g x), [.en, .dis])
  | .wY g, .throw e => (relay (throw_ .gen b g e), [.en, .dis])
  | .wY g, .start => (relay (send .gen b g none), [.en, .dis])

/-- `wrap_generator` / `wrap_async_generator` -/
def wrapGen {σ} (b : Body σ) : Body (W σ) where
  init := .w0
  resume := fun w r => (wrapGenStep b w r).1

/-- the wrapper as it was in the pinned tree (before the fix of F-C03a/b): exceptions thrown in die at the wrapper's
    own yield, and the return value is dropped -/
def wrapGenPinned {σ} (b : Body σ) : Body (W σ) where
  init := .w0
  resume
    | .w0, _ => (match send .gen b .fresh none with
        | (.yielded v, g) => .yield v (.wY g) | (.stop _, _) => .ret none | (.raised e, _) => .raise e | _ => .ret none)
    | .wY g, .value x => (match send .gen b g x with
        | (.yielded v, g) => .yield v (.wY g) | (.stop _, _) => .ret none | (.raised e, _) => .raise e | _ => .ret none)
    | .wY _, .throw e => .raise e
    | .wY _, .start => .ret none

/-- `wrap_coroutine`: `result = await func(...)` — delegation to the inner object with PEP 380's treatment of
    `GeneratorExit` (close the inner object, then re-raise) -/
def delegate {σ} (b : Body σ) : Body (W σ) where
  init := .w0
  resume
    | .w0, _ => relay (send .coro b .fresh none)
    | .wY g, .value x => relay (send .coro b g x)
    | .wY g, .start => relay (send .coro b g none)
    | .wY g, .throw .genExit =>
      (match close b g with
       | (.raised e, _) => .raise e
       | _ => .raise .genExit)
    | .wY g, .throw e => relay (throw_ .coro b g e)

/-! ## scripted bodies (what the correspondence harness runs on both sides) -/

inductive Act
  | yieldC (v next : Nat)      -- yield the constant v
  | yieldEcho (next : Nat)     -- yield 100 + the value sent in (200 + k for a thrown user exception k)
  | ret (v : Option Nat)
  | retEcho                    -- return the value sent in
  | raise (e : Exn)
  | reraise                    -- re-raise what was thrown in
deriving DecidableEq, Repr

structure Row where
  onValue : Act
  onThrow : Act
  onExit : Act      -- reaction to GeneratorExit
deriving DecidableEq, Repr

def echoOf : Resume → Nat
  | .start => 0
  | .value none => 0
  | .value (some x) => x
  | .throw (.user k) => 100 + k
  | .throw _ => 99

def perform (a : Act) (r : Resume) : Step Nat :=
  match a with
  | .yieldC v n => .yield v n
  | .yieldEcho n => .yield (100 + echoOf r) n
  | .ret v => .ret v
  | .retEcho => .ret (some (echoOf r))
  | .raise e => .raise e
  | .reraise => match r with | .throw e => .raise e | _ => .raise (.user 0)

def scriptBody (sc : List Row) : Body Nat where
  init := 0
  resume := fun s r =>
    match sc[s]? with
    | none => .ret none
    | some row =>
      match r with
      | .throw .genExit => perform row.onExit r
      | .throw _ => perform row.onThrow r
      | _ => perform row.onValue r

end LPVerif.Gen
