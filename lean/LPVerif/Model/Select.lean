import LPVerif.Model.FS
/-!
# Model.Select — which imports a selection (`-p`, `--prof-mod`) matches, and what a registration call registers

* `modnamesToProfile` — `ProfmodExtractor._get_modnames_to_profile_from_prof_mod`: every selected name, plus the names of
  all module *files* under a selected package (`package_modpaths`, the walk of C18) — sub-*package* names are not added;
* `matchImports` — `_find_modnames_in_tree_imports`: a top-level import is matched when its real dotted name, or the
  name without its last component, is **equal** (component-wise) to one of those names; the first occurrence of a
  name wins; the registration call goes after the import statement and mentions the alias;
* `registerItem` — `add_imported_function_or_module` / `LineProfiler.add_module` at run time: a function is added; of a
  class the plain functions in its `__dict__`; of a module the plain functions in its namespace and the plain functions
  of the classes in its namespace — wherever those were defined.
Dotted names are component lists.
-/
namespace LPVerif.Select

abbrev Name := List String

/-- one name bound by a top-level import statement: real dotted name, alias (or the name itself), statement index -/
structure Imp where
  name : Name
  alias : String
  idx : Nat
deriving DecidableEq, Repr

def parent (n : Name) : Name := n.dropLast

/-- `modname not in M and modname.rsplit('.', 1)[0] not in M` negated -/
def selects (M : List Name) (n : Name) : Bool := M.contains n || M.contains (parent n)

/-- `_find_modnames_in_tree_imports`: (statement index, alias) for every matched name, in source order; a name already
    added is skipped; one statement may contribute several names (`from foo import a, b`; repair of F-C09d) -/
def matchGo (M : List Name) : List Imp → List Name → List (Nat × String) → List (Nat × String)
  | [], _, acc => acc
  | i :: r, added, acc =>
    if added.contains i.name then matchGo M r added acc
    else if selects M i.name then matchGo M r (added ++ [i.name]) (acc ++ [(i.idx, i.alias)])
    else matchGo M r added acc

def matchImports (M : List Name) (imps : List Imp) : List (Nat × String) := matchGo M imps [] []

/-- `a` is a dotted prefix of `b` -/
def isPrefix : Name → Name → Bool
  | [], _ => true
  | _ :: _, [] => false
  | x :: xs, y :: ys => x == y && isPrefix xs ys

/-- names added for one selected package or module found on disk: its own name and the module files below it -/
def namesUnder (selName : Name) (walked : List (List String)) : List Name :=
  selName :: walked.map fun p =>
    selName ++ (p.dropLast ++ [match p.getLast? with | some f => String.mk (f.toList.take (f.length - 3)) | none => ""])

/-- … and the names of the regular sub-packages below it (`package_modpaths(..., with_pkg=True)`, repair of F-C09b) -/
def namesToProfile (selName : Name) (walkedFiles walkedPkgs : List (List String)) : List Name :=
  namesUnder selName walkedFiles ++ walkedPkgs.map fun p => selName ++ p

/-! ## run-time registration -/

inductive Member | func (id : Nat) | staticm (id : Nat) | classm (id : Nat) | prop (id : Nat) | other
deriving DecidableEq, Repr

inductive Obj
  | func (id : Nat) (definedIn : Nat)                       -- a plain function object and the module that defines it
  | cls (definedIn : Nat) (members : List Member)
  | modRef (m : Nat)                                        -- an imported module object
  | other
deriving Repr

/-- plain functions in a class `__dict__` -/
def classFuncs (members : List Member) : List Nat := members.filterMap fun | .func id => some id | _ => none

/-- `add_module(mod)`: over the values of the module's namespace -/
def addModule (ns : List Obj) : List Nat :=
  ns.flatMap fun
    | .func id _ => [id]
    | .cls _ members => classFuncs members
    | _ => []

/-- `add_imported_function_or_module(item)`; `nsOf m` is the namespace of module `m` -/
def registerItem (nsOf : Nat → List Obj) : Obj → List Nat
  | .func id _ => [id]
  | .cls _ members => classFuncs members
  | .modRef m => addModule (nsOf m)
  | .other => []

/-- functions *defined in* module `m` that are reachable as plain functions of its namespace or of its own classes -/
def ownFuncs (m : Nat) (ns : List Obj) : List Nat :=
  ns.flatMap fun
    | .func id d => if d = m then [id] else []
    | .cls d members => if d = m then classFuncs members else []
    | _ => []

/-- the namespace of `m` holds nothing that was defined elsewhere (no `from other import f`, no imported classes) -/
def NoForeign (m : Nat) (ns : List Obj) : Prop :=
  ∀ o ∈ ns, match o with
    | .func _ d => d = m
    | .cls d _ => d = m
    | _ => True

end LPVerif.Select
