/-!
# Model.PyAst — what auto-profiling does to a program's syntax tree

A mini module AST (`Stmt / Block / Blocks`, mutually inductive, any nesting depth) with exactly the node kinds the
rewriting looks at: (async) function definitions with their decorator lists, class definitions, `import` and
`from … import …` statements, compound statements with several bodies, and everything else (`simple`).
`reg n` is the statement `profile.add_imported_function_or_module(<n>)` that only the rewriting inserts.

`rewrite` follows `AstTreeProfiler._profile_ast_tree` (`ast_tree_profiler.py:95-140`):
1. for every matched top-level import (tree index ↦ name, from `ProfmodExtractor`) insert `reg name` directly after the
   statement with that index;
2. when the whole script is selected, run `AstProfileTransformer` (`ast_profile_transformer.py`): append the decorator
   `profile` to every (async) function definition that has no *Name* decorator `profile` yet, and — with
   `--prof-imports` — insert after every import statement (at any depth) one `reg` per bound name that is not yet in the
   running list `profiled_imports` (threaded through the traversal in source order);
   star imports and `from __future__ import …` are left alone (repair of F-C08b/c).
`absolutise` is the module-mode pre-pass (`run_module.ImportFromTransformer`): relative `from` imports become absolute
through the resolver of C17 (a parameter here).
-/
namespace LPVerif.PyAst

/-- a decorator: a bare name (`@profile`, `@staticmethod`) or anything else (call, attribute …) identified by a number -/
inductive Deco | name (n : String) | other (k : Nat)
deriving DecidableEq, Repr

abbrev Alias := String × Option String       -- (name, asname)

mutual
inductive Stmt
  | funcDef (async : Bool) (name : String) (decos : List Deco) (body : Block) (line : Nat)
  | classDef (name : String) (decos : List Deco) (body : Block) (line : Nat)
  | import_ (names : List Alias) (line : Nat)
  | importFrom (module : Option String) (names : List Alias) (level : Nat) (line : Nat)
  | compound (kind : Nat) (bodies : Blocks) (line : Nat)       -- if / for / while / try / with …
  | simple (id : Nat) (line : Nat)
  | reg (name : String)                                        -- inserted registration call
inductive Block | nil | cons (s : Stmt) (r : Block)
inductive Blocks | nil | cons (b : Block) (r : Blocks)
end

def profileDeco : Deco := .name "profile"

/-- names an import statement binds that get a registration call: `asname or name`, except `*` -/
def boundNames (names : List Alias) : List String :=
  (names.map fun (n, a) => a.getD n).filter (· ≠ "*")

def isFuture (module : Option String) : Bool := module = some "__future__"

/-- `reg` statements for the names not yet in `seen`, and the extended list -/
def regsFor : List String → List String → List Stmt × List String
  | [], seen => ([], seen)
  | n :: r, seen =>
    if n ∈ seen then regsFor r seen
    else
      let (ss, seen') := regsFor r (seen ++ [n])
      (.reg n :: ss, seen')

def prepend : List Stmt → Block → Block
  | [], k => k
  | s :: r, k => .cons s (prepend r k)

mutual
/-- `AstProfileTransformer.visit` on one statement: (rewritten statement, registration calls to put after it, state) -/
def rwStmt (pi : Bool) : Stmt → List String → Stmt × List Stmt × List String
  | .funcDef a n d b l, seen =>
    let (b', seen') := rwBlock pi b seen
    (.funcDef a n (if profileDeco ∈ d then d else d ++ [profileDeco]) b' l, [], seen')
  | .classDef n d b l, seen =>
    let (b', seen') := rwBlock pi b seen
    (.classDef n d b' l, [], seen')
  | .compound k bs l, seen =>
    let (bs', seen') := rwBlocks pi bs seen
    (.compound k bs' l, [], seen')
  | .import_ names l, seen =>
    if pi then
      let (ss, seen') := regsFor (boundNames names) seen
      (.import_ names l, ss, seen')
    else (.import_ names l, [], seen)
  | .importFrom m names lv l, seen =>
    if pi && !isFuture m then
      let (ss, seen') := regsFor (boundNames names) seen
      (.importFrom m names lv l, ss, seen')
    else (.importFrom m names lv l, [], seen)
  | s, seen => (s, [], seen)
def rwBlock (pi : Bool) : Block → List String → Block × List String
  | .nil, seen => (.nil, seen)
  | .cons s r, seen =>
    let (s', after, seen1) := rwStmt pi s seen
    let (r', seen2) := rwBlock pi r seen1
    (.cons s' (prepend after r'), seen2)
def rwBlocks (pi : Bool) : Blocks → List String → Blocks × List String
  | .nil, seen => (.nil, seen)
  | .cons b r, seen =>
    let (b', seen1) := rwBlock pi b seen
    let (r', seen2) := rwBlocks pi r seen1
    (.cons b' r', seen2)
end

/-- registration calls for the names matched on statement number `i`, in order -/
def regsAt (matched : List (Nat × String)) (i : Nat) : List Stmt := (matched.filter (fun p => p.1 = i)).map fun p => .reg p.2

/-- step 1: the registration calls of every matched top-level import directly after that statement -/
def insertMatched (matched : List (Nat × String)) : Nat → Block → Block
  | _, .nil => .nil
  | i, .cons s r => .cons s (prepend (regsAt matched i) (insertMatched matched (i + 1) r))

structure Cfg where
  fullScript : Bool
  profImports : Bool
  matched : List (Nat × String)

/-- `profiled_imports` after step 1: the matched names, highest tree index first -/
def initialSeen (matched : List (Nat × String)) (n : Nat) : List String :=
  ((List.range n).reverse.flatMap fun i => (matched.filter (fun p => p.1 = i)).map (·.2))

def Block.length : Block → Nat
  | .nil => 0
  | .cons _ r => r.length + 1

def rewrite (c : Cfg) (m : Block) : Block :=
  let m1 := insertMatched c.matched 0 m
  if c.fullScript then (rwBlock c.profImports m1 (initialSeen c.matched m.length)).1 else m1

/-! ## module mode: relative imports made absolute -/
mutual
def absStmt (resolve : Nat → Option String → String) : Stmt → Stmt
  | .funcDef a n d b l => .funcDef a n d (absBlock resolve b) l
  | .classDef n d b l => .classDef n d (absBlock resolve b) l
  | .compound k bs l => .compound k (absBlocks resolve bs) l
  | .importFrom m names lv l => if lv = 0 then .importFrom m names lv l else .importFrom (some (resolve lv m)) names 0 l
  | s => s
def absBlock (resolve : Nat → Option String → String) : Block → Block
  | .nil => .nil
  | .cons s r => .cons (absStmt resolve s) (absBlock resolve r)
def absBlocks (resolve : Nat → Option String → String) : Blocks → Blocks
  | .nil => .nil
  | .cons b r => .cons (absBlock resolve b) (absBlocks resolve r)
end

/-! ## erasing what a rewrite may add -/
mutual
def erStmt : Stmt → Stmt
  | .funcDef a n d b l => .funcDef a n d (erBlock b) l
  | .classDef n d b l => .classDef n d (erBlock b) l
  | .compound k bs l => .compound k (erBlocks bs) l
  | s => s
/-- drop every registration call -/
def erBlock : Block → Block
  | .nil => .nil
  | .cons (.reg _) r => erBlock r
  | .cons s r => .cons (erStmt s) (erBlock r)
def erBlocks : Blocks → Blocks
  | .nil => .nil
  | .cons b r => .cons (erBlock b) (erBlocks r)
end

mutual
/-- the program with the appended `profile` decorators removed again: `orig` tells which definitions had none -/
def undecStmt (orig : Stmt) : Stmt → Stmt
  | .funcDef a n d b l =>
    match orig with
    | .funcDef _ _ d0 b0 _ => .funcDef a n (if d = d0 ++ [profileDeco] then d0 else d) (undecBlock b0 b) l
    | _ => .funcDef a n d b l
  | .classDef n d b l =>
    match orig with
    | .classDef _ _ b0 _ => .classDef n d (undecBlock b0 b) l
    | _ => .classDef n d b l
  | .compound k bs l =>
    match orig with
    | .compound _ bs0 _ => .compound k (undecBlocks bs0 bs) l
    | _ => .compound k bs l
  | s => s
def undecBlock (orig : Block) : Block → Block
  | .nil => .nil
  | .cons s r =>
    match orig with
    | .cons s0 r0 => .cons (undecStmt s0 s) (undecBlock r0 r)
    | .nil => .cons s r
def undecBlocks (orig : Blocks) : Blocks → Blocks
  | .nil => .nil
  | .cons b r =>
    match orig with
    | .cons b0 r0 => .cons (undecBlock b0 b) (undecBlocks r0 r)
    | .nil => .cons b r
end

mutual
/-- original programs contain no inserted nodes -/
def cleanStmt : Stmt → Prop
  | .funcDef _ _ _ b _ => cleanBlock b
  | .classDef _ _ b _ => cleanBlock b
  | .compound _ bs _ => cleanBlocks bs
  | .reg _ => False
  | _ => True
def cleanBlock : Block → Prop
  | .nil => True
  | .cons s r => cleanStmt s ∧ cleanBlock r
def cleanBlocks : Blocks → Prop
  | .nil => True
  | .cons b r => cleanBlock b ∧ cleanBlocks r
end

mutual
/-- every (async) function definition, at any depth, carries the decorator `profile` as a bare name -/
def allDecorated : Stmt → Prop
  | .funcDef _ _ d b _ => profileDeco ∈ d ∧ allDecoratedB b
  | .classDef _ _ b _ => allDecoratedB b
  | .compound _ bs _ => allDecoratedBs bs
  | _ => True
def allDecoratedB : Block → Prop
  | .nil => True
  | .cons s r => allDecorated s ∧ allDecoratedB r
def allDecoratedBs : Blocks → Prop
  | .nil => True
  | .cons b r => allDecoratedB b ∧ allDecoratedBs r
end

end LPVerif.PyAst
