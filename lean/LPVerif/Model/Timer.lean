/-!
# Model.Timer — `kernprof.RepeatedTimer` (option `-i`, `--output-interval`) under every thread schedule

The class re-arms a `threading.Timer` from the timer thread itself (`_run`) while the main thread may call `stop()` at any
moment (kernprof's `finally`).  The model is a small shared-memory machine:

* the object's fields `is_running`, `_stopped`, and the state of the `Timer` object currently stored in `_timer`;
  armed `Timer` objects that are no longer referenced (`leaked`) keep firing — they are what keeps kernprof alive;
* every method is a list of *instructions*; one instruction is one indivisible step: a single statement outside the lock, the
  evaluation of an unlocked `if`, or a whole `with self._lock:` block (`atomic`, a sequence of guarded groups);
* a schedule is a list of `Choice`s: let the main thread execute its next instruction (`__init__`, later `stop`), let the
  i-th timer thread in flight execute its next instruction, or let an armed timer fire (which starts a new timer thread
  running `_run`).

The instruction lists are produced from the source by the translator (`Generated/TimerProg.lean`); statement-level atomicity
(the GIL switches between, not inside, these simple statements) is the modelling assumption, and the correspondence check K07t
drives the real class through the same schedules.
-/
namespace LPVerif.Timer

inductive Cond | notRunning | notStopped
deriving DecidableEq, Repr

inductive Act
  | setRunning (b : Bool) | setStopped (b : Bool)
  | newTimer        -- self._timer = threading.Timer(...)
  | startTimer      -- self._timer.start()
  | cancel          -- self._timer.cancel()
  | dump            -- self.dump_func(self.outfile)
  | nop             -- bookkeeping that touches nothing shared (next_call)
  | unknown         -- a statement the translator does not understand
deriving DecidableEq, Repr

inductive Instr
  | act (a : Act)
  | test (conds : List Cond) (skip : Nat)                 -- unlocked `if`: on failure skip the next `skip` instructions
  | atomic (groups : List (List Cond × List Act))         -- `with self._lock:` — guarded groups, one indivisible step
deriving DecidableEq, Repr

structure Prog where
  ctor : List Instr     -- `__init__` after the field initialisations (calls inlined)
  run  : List Instr     -- `_run`
  stop : List Instr
deriving DecidableEq, Repr

/-- state of the `Timer` object in `self._timer` -/
inductive TS | dead | fresh | armed | cancelledFresh
deriving DecidableEq, Repr

/-- the shared fields the control flow depends on -/
structure Core where
  running : Bool
  stopped : Bool
  cur     : TS
deriving DecidableEq, Repr

/-- … and the two counters -/
structure Sh where
  core    : Core
  leaked  : Nat          -- armed / startable timer objects no longer reachable through `self._timer`
  dumps   : Nat
deriving DecidableEq, Repr

def TS.live : TS → Bool
  | .fresh => true | .armed => true | _ => false

def TS.liveN (t : TS) : Nat := if t.live then 1 else 0

def Cond.holds (c : Core) : Cond → Bool
  | .notRunning => !c.running
  | .notStopped => !c.stopped

/-- effect of one statement on the fields, with the number of timer objects it leaks and of dumps it writes -/
def applyAct (c : Core) : Act → Core × Nat × Nat
  | .setRunning b => ({ c with running := b }, 0, 0)
  | .setStopped b => ({ c with stopped := b }, 0, 0)
  | .newTimer => ({ c with cur := .fresh }, c.cur.liveN, 0)
  | .startTimer => ({ c with cur := match c.cur with | .fresh => .armed | .cancelledFresh => .dead | x => x }, 0, 0)
  | .cancel => ({ c with cur := match c.cur with | .fresh => .cancelledFresh | .armed => .dead | x => x }, 0, 0)
  | .dump => (c, 0, 1)
  | .nop => (c, 0, 0)
  | .unknown => (c, 0, 0)

def applyActs : Core → List Act → Core × Nat × Nat
  | c, [] => (c, 0, 0)
  | c, a :: r =>
    let x := applyAct c a
    let y := applyActs x.1 r
    (y.1, x.2.1 + y.2.1, x.2.2 + y.2.2)

def applyGroup (c : Core) (g : List Cond × List Act) : Core × Nat × Nat :=
  if g.1.all (Cond.holds c) then applyActs c g.2 else (c, 0, 0)

def applyGroups : Core → List (List Cond × List Act) → Core × Nat × Nat
  | c, [] => (c, 0, 0)
  | c, g :: r =>
    let x := applyGroup c g
    let y := applyGroups x.1 r
    (y.1, x.2.1 + y.2.1, x.2.2 + y.2.2)

/-- one instruction on the fields: new fields, leaks, dumps, and how many following instructions to skip -/
def execCore (c : Core) : Instr → Core × Nat × Nat × Nat
  | .act a => ((applyAct c a).1, (applyAct c a).2.1, (applyAct c a).2.2, 0)
  | .test conds k => (c, 0, 0, if conds.all (Cond.holds c) then 0 else k)
  | .atomic gs => ((applyGroups c gs).1, (applyGroups c gs).2.1, (applyGroups c gs).2.2, 0)

/-- one instruction: new shared state and the instructions that remain for this thread -/
def execInstr (s : Sh) (i : Instr) (rest : List Instr) : Sh × List Instr :=
  let x := execCore s.core i
  ({ core := x.1, leaked := s.leaked + x.2.1, dumps := s.dumps + x.2.2.1 }, rest.drop x.2.2.2)

structure St where
  sh    : Sh
  mainC : List Instr            -- what is left of `__init__`
  mainS : List Instr            -- what is left of `stop()` (runs after `__init__`, whenever the program is over)
  runs  : List (List Instr)     -- what is left of every `_run` in flight
deriving DecidableEq, Repr

def init (P : Prog) : St :=
  { sh := { core := { running := false, stopped := false, cur := .dead }, leaked := 0, dumps := 0 },
    mainC := P.ctor, mainS := P.stop, runs := [] }

inductive Choice | main | run (i : Nat) | fireCur | fireLeaked
deriving DecidableEq, Repr

def setNth {α} : List α → Nat → α → List α
  | [], _, _ => []
  | _ :: r, 0, x => x :: r
  | a :: r, n + 1, x => a :: setNth r n x

def step (P : Prog) (s : St) : Choice → St
  | .main =>
    match s.mainC with
    | i :: rest => { s with sh := (execInstr s.sh i rest).1, mainC := (execInstr s.sh i rest).2 }
    | [] =>
      match s.mainS with
      | i :: rest => { s with sh := (execInstr s.sh i rest).1, mainS := (execInstr s.sh i rest).2 }
      | [] => s
  | .run k =>
    match s.runs[k]? with
    | some (i :: rest) => { s with sh := (execInstr s.sh i rest).1, runs := setNth s.runs k (execInstr s.sh i rest).2 }
    | _ => s
  | .fireCur =>
    if s.sh.core.cur = .armed then { s with sh := { s.sh with core := { s.sh.core with cur := .dead } }, runs := s.runs ++ [P.run] } else s
  | .fireLeaked =>
    if s.sh.leaked > 0 then { s with sh := { s.sh with leaked := s.sh.leaked - 1 }, runs := s.runs ++ [P.run] } else s

def exec (P : Prog) (s : St) (sched : List Choice) : St := sched.foldl (step P) s

/-- the main thread has returned from `stop()` -/
def St.mainDone (s : St) : Bool := s.mainC.isEmpty && s.mainS.isEmpty

/-- no timer object can fire any more -/
def St.quiet (s : St) : Bool := !s.sh.core.cur.live && s.sh.leaked == 0

/-! ## the decidable well-formedness check of a program -/

def Act.news : Act → Nat
  | .newTimer => 1 | _ => 0

def Instr.news : Instr → Nat
  | .act a => a.news
  | .test _ _ => 0
  | .atomic gs => (gs.map fun g => (g.2.map Act.news).sum).sum

def news (l : List Instr) : Nat := (l.map Instr.news).sum

def Instr.isTest : Instr → Bool
  | .test _ _ => true | _ => false

def Instr.hasUnknown : Instr → Bool
  | .act a => a = .unknown
  | .test _ _ => false
  | .atomic gs => gs.any fun g => g.2.contains .unknown

/-- the 16 values of the fields -/
def allCore : List Core :=
  [true, false].flatMap fun r => [true, false].flatMap fun st => [TS.dead, .fresh, .armed, .cancelledFresh].map fun c => ⟨r, st, c⟩

/-- per-instruction safety, checked on every value of the fields:
    `_stopped` is never reset, an instruction started with "stopped ⇒ no live timer" ends the same way, and once `_stopped`
    holds the instruction writes no dump (a dump written after `stop()` returned would overwrite kernprof's final statistics) -/
def Instr.safe (i : Instr) : Bool :=
  allCore.all fun c =>
    let c' := (execCore c i).1
    (!c.stopped || c'.stopped) && (!(!c.stopped || !c.cur.live) || (!c'.stopped || !c'.cur.live)) &&
    (!c.stopped || (execCore c i).2.2.1 == 0)

/-- the sealing instruction of `stop()`: whatever the state, afterwards `_stopped` holds -/
def Instr.seals (i : Instr) : Bool :=
  !i.isTest && allCore.all fun c => (execCore c i).1.stopped

def Prog.wf (P : Prog) : Bool :=
  (P.ctor ++ P.run ++ P.stop).all (fun i => i.safe && !i.hasUnknown) &&
  decide (news P.run ≤ 1) && decide (news P.ctor + news P.stop ≤ 1) &&
  P.stop.all (fun i => !i.isTest) && P.stop.any Instr.seals

end LPVerif.Timer
