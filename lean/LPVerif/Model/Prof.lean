import LPVerif.Model.CoreExec
/-!
# Model.Prof — the `LineProfiler` object around the callback machine

Registration (`add_function`, `_line_profiler.pyx:257-301`), the by-count API (`:303-338`),
`enable`/`disable` (`:333-338`, `:388-394`), delivery of trace events to the callback (only while
`PyEval_SetTrace` is installed in that thread) and `get_stats` (`:396-431`).

Function objects and code objects are numbered by the harness.  A code object is
`(co_code value, label, set of line numbers of its instructions)`; NOP padding maps to line `-1`
(`PyCode_Addr2Line` past the line table — measured, and re-measured by the harness on every run).
-/
namespace LPVerif.Prof
open LPVerif.Core

structure Code where
  blk   : Blk
  label : Nat            -- interned (co_filename, co_firstlineno, co_name)
  lines : List Int       -- distinct `PyCode_Addr2Line` values over the *unpadded* instructions
deriving DecidableEq, Repr, Inhabited

/-- lines of all instructions, padding included -/
def Code.allLines (c : Code) : List Int :=
  if c.blk.pad = 0 ∨ (-1 : Int) ∈ c.lines then c.lines else c.lines ++ [-1]

def Code.keys (c : Code) : List (Blk × Int) := c.allLines.map (fun l => (c.blk, l))

structure St where
  core    : Core.ESt                           -- the callback machine (hash-map form; `core.abs` is the proof-facing state)
  funcs   : List (Nat × Code)                  -- function object ↦ its current `__code__`
  dupes   : List (Blk × Nat)                   -- `dupes_map`: co_code ↦ len(list)
  chm     : List (Code × List (Blk × Int))     -- `code_hash_map`, insertion order
  nfuncs  : Nat                                -- len(self.functions)
  count   : Nat → Nat                          -- thread ↦ `enable_count` (thread-local)
  tracing : Nat → Bool                         -- thread ↦ `PyEval_SetTrace(callback)` installed
  tool    : Bool                               -- `sys.monitoring` PROFILER_ID held by line_profiler

def St.init : St :=
  { core := Core.ESt.init [], funcs := [], dupes := [], chm := [], nfuncs := 0,
    count := fun _ => 0, tracing := fun _ => false, tool := false }

/-! ## association-list helpers -/
def alookup {α β} [DecidableEq α] (k : α) : List (α × β) → Option β
  | [] => none
  | (k', v) :: r => if k' = k then some v else alookup k r

def aset {α β} [DecidableEq α] (k : α) (v : β) : List (α × β) → List (α × β)
  | [] => [(k, v)]
  | (k', v') :: r => if k' = k then (k, v) :: r else (k', v') :: aset k v r

/-- append `h` to the list stored under `k`, creating the entry at the end if absent
    (`try: d[k].append(h) except KeyError: d[k] = [h]`) -/
def aappend {α β} [DecidableEq α] (k : α) (h : β) : List (α × List β) → List (α × List β)
  | [] => [(k, [h])]
  | (k', v') :: r => if k' = k then (k, v' ++ [h]) :: r else (k', v') :: aappend k h r

/-! ## `add_function` -/

/-- largest padding among the registered bytecodes -/
def maxPad : List Blk → Nat
  | [] => 0
  | b :: r => max b.pad (maxPad r)

/-- `while co_code in registered: co_code += NOP_BYTES` (repair of F-C04b); `fuel` bounds the loop structurally -/
def findFree (taken : List Blk) (base : Nat) : Nat → Nat → Nat
  | p, 0 => p
  | p, fuel + 1 => if (⟨base, p⟩ : Blk) ∈ taken then findFree taken base (p + 1) fuel else p

/-- another registered code object already has the bytecode of `code` (`c is not code and c.co_code == code.co_code`) -/
def clashes (codes : List Code) (code : Code) : Bool :=
  codes.any fun c => decide (c ≠ code) && decide (c.blk = code.blk)

/-- the duplicate test and the padding of `add_function`; `codes` are the code objects in `code_hash_map`.  A bytecode counts as
    a duplicate when `dupes_map` knows it **or** when it is already traced for another code object (repair of F-C04c: a function
    that an earlier profiler had padded arrives with exactly the bytes this profiler gave to a duplicate of its own); the padded
    bytecode is lengthened until no registered code object has it (repair of F-C04b).  Returns the code object that ends up
    registered and the new `dupes_map` (value = length of the list stored under the key) -/
def padStep (dupes : List (Blk × Nat)) (codes : List Code) (code : Code) : Code × List (Blk × Nat) :=
  match alookup code.blk dupes with
  | some n => ({ code with blk := { code.blk with pad := findFree (codes.map (·.blk)) code.blk.base (code.blk.pad + (n + 2)) (maxPad (codes.map (·.blk)) + 1) } },
               aset code.blk (n + 1) dupes)
  | none   =>
    if clashes codes code then
      ({ code with blk := { code.blk with pad := findFree (codes.map (·.blk)) code.blk.base (code.blk.pad + 2) (maxPad (codes.map (·.blk)) + 1) } },
       dupes ++ [(code.blk, 1)])
    else (code, dupes ++ [(code.blk, 1)])

/-- lines 292-299: one iteration per *distinct* line (further offsets of a line find the hash present) -/
def regLine (code : Code) (acc : Core.ESt × List (Code × List (Blk × Int))) (l : Int) :
    Core.ESt × List (Code × List (Blk × Int)) :=
  if (code.blk, l) ∈ acc.1.regs then acc
  else (acc.1.addRegs [(code.blk, l)], aappend code (code.blk, l) acc.2)

def St.addCode (s : St) (f : Nat) (code : Code) : St :=
  let (code', dupes') := padStep s.dupes (s.chm.map (·.1)) code
  let (core', chm') := code'.allLines.foldl (regLine code') (s.core, s.chm)
  { s with core := core', chm := chm', dupes := dupes', funcs := aset f code' s.funcs,
           nfuncs := s.nfuncs + 1 }

def St.addFunction (s : St) (f : Nat) : St :=
  match alookup f s.funcs with
  | some code => s.addCode f code
  | none => s

/-! ## enable / disable, by-count -/

/-- thread 0 is the main thread.  The `sys.monitoring` id is claimed only when free (after the fix of F-C03c
    `enable` never raises; the `Except` type is kept for the by-count callers). -/
def St.enable (s : St) (t : Nat) : Except String St :=
  .ok { s with tool := s.tool || (t == 0), tracing := fun t' => if t' = t then true else s.tracing t' }

def St.disable (s : St) (t : Nat) : St :=
  { s with core := s.core.clearThread t,
           tracing := fun t' => if t' = t then false else s.tracing t',
           tool := if t = 0 then false else s.tool }

def St.setCount (s : St) (t n : Nat) : St :=
  { s with count := fun t' => if t' = t then n else s.count t' }

/-- `enable_by_count` (`:311-316`) -/
def St.enableByCount (s : St) (t : Nat) : Except String St :=
  if s.count t = 0 then
    match s.enable t with
    | .ok s' => .ok (s'.setCount t (s'.count t + 1))
    | .error e => .error e
  else .ok (s.setCount t (s.count t + 1))

/-- `disable_by_count` (`:318-325`) -/
def St.disableByCount (s : St) (t : Nat) : St :=
  if s.count t > 0 then
    let s1 := s.setCount t (s.count t - 1)
    if s1.count t = 0 then s1.disable t else s1
  else s

/-- a LINE/RETURN event of thread `e.t` reaches the callback only while tracing is installed there -/
def St.event (s : St) (e : Ev) : St :=
  if s.tracing e.t then { s with core := Core.ecb s.core e } else s

/-! ## `get_stats` -/

/-- the old-line keys that can occur in buckets of block `b`: lines of registered keys of `b` -/
def candLines (regs : List (Blk × Int)) (b : Blk) : List Int :=
  ((regs.filter (fun p => p.1 = b)).map Prod.snd).eraseDups

def insertSorted (x : Int × Nat × Int) : List (Int × Nat × Int) → List (Int × Nat × Int)
  | [] => [x]
  | y :: r => if x.1 ≤ y.1 then x :: y :: r else y :: insertSorted x r

def sortEntries (l : List (Int × Nat × Int)) : List (Int × Nat × Int) := l.foldr insertSorted []

/-- distinct labels in `code_hash_map` order -/
def labelsOf (chm : List (Code × List (Blk × Int))) : List Nat := (chm.map (fun p => p.1.label)).eraseDups

/-- hits reported for old line `l` by the code objects `cs` (each sums the buckets it owns) -/
def sumHits (core : Core.St) (cs : List (Code × List (Blk × Int))) (l : Int) : Nat :=
  (cs.map fun p => Core.closed core (p.2.map Prod.snd) p.1.blk l).sum

def sumTime (core : Core.St) (cs : List (Code × List (Blk × Int))) (l : Int) : Int :=
  (cs.map fun p => Core.closedT core (p.2.map Prod.snd) p.1.blk l).sum

/-- entries reported under one label: all code objects with that label are gathered and merged per
    line number (`get_stats` after the fix of F-C12a); a key exists in a bucket iff it was bumped at
    least once, i.e. iff its `nhits > 0` -/
def labelEntries (core : Core.St) (chm : List (Code × List (Blk × Int))) (lab : Nat) : List (Int × Nat × Int) :=
  let cs := chm.filter (fun p => p.1.label = lab)
  let cand := (cs.flatMap fun p => candLines core.regs p.1.blk).eraseDups
  sortEntries <| cand.filterMap fun l =>
    let n := sumHits core cs l
    if n > 0 then some (l, n, sumTime core cs l) else none

def St.getStats (s : St) : List (Nat × List (Int × Nat × Int)) :=
  (labelsOf s.chm).map fun lab => (lab, labelEntries s.core.abs s.chm lab)

inductive Op
  | decl (f : Nat) (code : Code)      -- a function object comes into existence
  | add (f : Nat)
  | enableBC (t : Nat) | disableBC (t : Nat) | enable (t : Nat) | disable (t : Nat)
  | ev (e : Ev)
deriving Repr

def St.step (s : St) : Op → St
  | .decl f code => { s with funcs := aset f code s.funcs }
  | .add f => s.addFunction f
  | .enableBC t => match s.enableByCount t with | .ok s' => s' | .error _ => s
  | .disableBC t => s.disableByCount t
  | .enable t => match s.enable t with | .ok s' => s' | .error _ => s
  | .disable t => s.disable t
  | .ev e => s.event e

def St.run (s : St) (ops : List Op) : St := ops.foldl St.step s

/-! ## accounting of what reaches the callback (the quantities of `C01.reported_hits_exact`; the driver prints them) -/

/-- is thread `t`'s slot for `b` pending at line `l`? -/
def pendOf (s : St) (t : Nat) (b : Blk) (l : Int) : Nat :=
  if (s.core.abs.last t b).map Prod.fst = some l then 1 else 0

/-- LINE events of `(b, l)` that reach the callback (tracing installed in their thread) and find the line registered -/
def delivered : St → List Op → Blk → Int → Nat
  | _, [], _, _ => 0
  | s, op :: r, b, l =>
    (match op with
     | .ev e => if s.tracing e.t then ind s.core.abs.regs e b l else 0
     | _ => 0) + delivered (s.step op) r b l

/-- pending hits thrown away because `disable()` ran while the line was still executing -/
def dropped : St → List Op → Blk → Int → Nat
  | _, [], _, _ => 0
  | s, op :: r, b, l =>
    (match op with
     | .disable t => pendOf s t b l
     | .disableBC t => if s.count t = 1 then pendOf s t b l else 0
     | _ => 0) + dropped (s.step op) r b l

def Op.thread : Op → Option Nat
  | .enableBC t | .disableBC t | .enable t | .disable t => some t
  | .ev e => some e.t
  | _ => none

def delivStep (s : St) (op : Op) (b : Blk) (l : Int) : Nat :=
  match op with
  | .ev e => if s.tracing e.t then ind s.core.abs.regs e b l else 0
  | _ => 0

def dropStep (s : St) (op : Op) (b : Blk) (l : Int) : Nat :=
  match op with
  | .disable t => pendOf s t b l
  | .disableBC t => if s.count t = 1 then pendOf s t b l else 0
  | _ => 0


end LPVerif.Prof
