/-!
# Model.FS — directory trees and the path / name helpers of `autoprofile/util_static.py`

`Entries` is the content of a directory (names ↦ file | sub-directory).  Modelled on component lists
(`"a.b.c"` ↔ `["a","b","c"]`):

* `implRoot`   — `check_dpath` of `_syspath_modname_to_modpath` for one search root: join the whole path first
                 (package directory with `__init__.py`, else `<name>.py`), then `_isvalid`: climb back checking that every
                 directory in between has an `__init__.py`;
* `lookup`     — the loop over the search path: first root where `implRoot` succeeds;
* `specRoot` / `pathFinder` — what the import system does for regular packages: resolve the first component along the
                 search path (first match wins), then every further component *inside the package found so far*;
* `nameOfPath` — `modpath_to_modname` / `split_modpath`: climb from the file while the directory has `__init__.py`;
* `walk`       — `package_modpaths`: `os.walk` that yields the module files of a package and descends only into
                 directories that have `__init__.py`.
-/
namespace LPVerif.FS

mutual
inductive Node | file | dir (es : Entries)
inductive Entries | nil | cons (name : String) (n : Node) (r : Entries)
end

def Entries.find : Entries → String → Option Node
  | .nil, _ => none
  | .cons n x r, k => if n = k then some x else r.find k

def Entries.hasFile (es : Entries) (k : String) : Bool :=
  match es.find k with | some .file => true | _ => false
def Entries.subdir (es : Entries) (k : String) : Option Entries :=
  match es.find k with | some (.dir d) => some d | _ => none

def initPy : String := "__init__.py"
def Entries.isPkg (es : Entries) : Bool := es.hasFile initPy

/-- descend through directories (`os.path.join` + `exists`, no package check) -/
def descend : Entries → List String → Option Entries
  | es, [] => some es
  | es, c :: r => match es.subdir c with | some d => descend d r | none => none

inductive Found | pkg | mod
deriving DecidableEq, Repr

/-- `_isvalid(modpath, base)`: every directory strictly between base and the target has `__init__.py`;
    `cs` are the components of `dirname(target)` relative to base -/
def isValid (root : Entries) (cs : List String) : Bool :=
  (List.range cs.length).all fun i =>
    match descend root (cs.take (i + 1)) with
    | some d => d.isPkg
    | none => false

/-- `check_dpath` for one search root: package directory first, then `<name>.py` -/
def implRoot (root : Entries) (cs : List String) : Option Found :=
  match cs.getLast? with
  | none => none
  | some last =>
    let parent := cs.dropLast
    let asPkg := match descend root cs with
      | some d => d.isPkg && isValid root parent
      | none => false
    if asPkg then some .pkg
    else match descend root parent with
      | some d => if d.hasFile (last ++ ".py") && isValid root parent then some .mod else none
      | none => none

/-- the loop over `sys.path`: index of the first root where the name is found, and what was found -/
def lookupFrom : Nat → List Entries → List String → Option (Nat × Found)
  | _, [], _ => none
  | i, r :: rest, cs => match implRoot r cs with
    | some f => some (i, f)
    | none => lookupFrom (i + 1) rest cs

def lookup (roots : List Entries) (cs : List String) : Option (Nat × Found) := lookupFrom 0 roots cs

/-- `FileFinder` on one directory for one name, regular packages only: a package directory wins over `<name>.py` -/
def find1 (es : Entries) (c : String) : Option Found :=
  match es.subdir c with
  | some d => if d.isPkg then some .pkg else if es.hasFile (c ++ ".py") then some .mod else none
  | none => if es.hasFile (c ++ ".py") then some .mod else none

/-- the import system's walk below one directory: every non-final component must be a regular package -/
def specRoot : Entries → List String → Option Found
  | _, [] => none
  | es, [c] => find1 es c
  | es, c :: r =>
    match es.subdir c with
    | some d => if d.isPkg then specRoot d r else none
    | none => none

/-- `importlib.machinery.PathFinder` component-wise over several roots: the *first* root that provides the first
    component decides; the remaining components are looked up inside what was found there (no fall-through to later roots) -/
def pathFinderFrom : Nat → List Entries → List String → Option (Nat × Found)
  | _, [], _ => none
  | _, _, [] => none
  | i, r :: rest, c :: cs =>
    match find1 r c with
    | some _ => (specRoot r (c :: cs)).map fun f => (i, f)
    | none => pathFinderFrom (i + 1) rest (c :: cs)

def pathFinder (roots : List Entries) (cs : List String) : Option (Nat × Found) := pathFinderFrom 0 roots cs

/-! ## path → name -/

/-- `split_modpath`: components of the module name of the file / package at `cs` below `root`: climb from the target's
    directory while the directory has `__init__.py` (the directory `root` itself is never climbed past here) -/
def nameOfPath (root : Entries) (cs : List String) : List String :=
  -- walk down remembering the last position whose directory is *not* a package
  let rec go (es : Entries) (todo : List String) (acc : List String) : List String :=
    match todo with
    | [] => acc
    | [c] => acc ++ [c]
    | c :: r =>
      match es.subdir c with
      | some d => if d.isPkg then go d r (acc ++ [c]) else go d r []
      | none => acc ++ (c :: r)
  go root cs []

/-! ## `package_modpaths` -/

def isModuleFile (n : String) : Bool := n.endsWith ".py" && n != initPy

/-- module files (paths relative to the directory) found by the walk in a directory that passed the package check -/
def walkEntries : Entries → List (List String)
  | .nil => []
  | .cons n .file r => (if isModuleFile n then [[n]] else []) ++ walkEntries r
  | .cons n (.dir d) r => (if d.isPkg then (walkEntries d).map (fun p => n :: p) else []) ++ walkEntries r

/-- `package_modpaths(pkgpath)` with `check=True`: nothing unless the directory itself is a package -/
def walk (pkg : Entries) : List (List String) := if pkg.isPkg then walkEntries pkg else []

/-- regular sub-packages (directory paths relative to the directory) the walk passes through: with `with_pkg=True` the walk also
    yields their `__init__.py` (repair of F-C09b: a selected package expands to the names of its sub-packages too) -/
def walkPkgEntries : Entries → List (List String)
  | .nil => []
  | .cons _ .file r => walkPkgEntries r
  | .cons n (.dir d) r => (if d.isPkg then [n] :: (walkPkgEntries d).map (fun p => n :: p) else []) ++ walkPkgEntries r

def walkPkgs (pkg : Entries) : List (List String) := if pkg.isPkg then walkPkgEntries pkg else []

def Entries.toList : Entries → List (String × Node)
  | .nil => []
  | .cons n x r => (n, x) :: r.toList

/-- specification: `p` is a module file inside the package or one of its regular sub-packages -/
inductive InPkg : Entries → List String → Prop
  | modHere (es : Entries) (n : String) : (n, Node.file) ∈ es.toList → isModuleFile n = true → InPkg es [n]
  | inSub (es d : Entries) (n : String) (p : List String) : (n, Node.dir d) ∈ es.toList → d.isPkg = true → InPkg d p → InPkg es (n :: p)

/-- specification: `p` is the path of a regular package nested in regular packages below the directory -/
inductive SubPkg : Entries → List String → Prop
  | direct (es d : Entries) (n : String) : (n, Node.dir d) ∈ es.toList → d.isPkg = true → SubPkg es [n]
  | nested (es d : Entries) (n : String) (p : List String) : (n, Node.dir d) ∈ es.toList → d.isPkg = true → SubPkg d p → SubPkg es (n :: p)

end LPVerif.FS
