import LPVerif.Model.Report
import LPVerif.Generated.ChannelTables
import LPVerif.Generated.ExplicitTables
/-!
# Model.Channels — every output channel is the one renderer under some configuration

`print_stats` (live), `kernprof --view`, `python -m line_profiler <file>` and the explicit profiler's stdout / text files
all end in `show_text(timings, unit, output_unit=…, stripzeros=…, details=…, summarize=…, sort=…)`.  A channel is
therefore a configuration `Cfg`; which configuration each channel uses is read off the call sites (tables regenerated
from the tree).  Saving and loading (`pickle`) is a parameter `Codec` with the round-trip law as its hypothesis
(exercised on real pickles by the correspondence harness).
-/
namespace LPVerif.Channels
open LPVerif.Report

/-- output unit: `none` = the unit stored with the statistics, `some u` = the unit chosen on the command line -/
structure Cfg (υ : Type) where
  opts : Opts
  outputUnit : Option υ

/-- the renderer: statistics `σ` are turned into the functions-with-candidates of `Model.Report` for a given output unit -/
structure Renderer (σ υ : Type) where
  unitTxt : σ → Option υ → Txt
  funcs : σ → Option υ → List Func

def render {σ υ} (r : Renderer σ υ) (c : Cfg υ) (s : σ) : Txt := showText c.opts (r.unitTxt s c.outputUnit) (r.funcs s c.outputUnit)

/-- `LineProfiler.print_stats()` with its signature defaults -/
def live {υ} : Cfg υ := ⟨⟨false, true, false, false⟩, none⟩
/-- `kernprof -v [-u u] [-z]` -/
def kernprofView {υ} (u : υ) (z : Bool) : Cfg υ := ⟨⟨z, true, false, false⟩, some u⟩
/-- `python -m line_profiler [-u u] [-z] [-t] [-m] file` -/
def viewer {υ} (u : υ) (z t m : Bool) : Cfg υ := ⟨⟨z, true, m, t⟩, some u⟩
/-- explicit profiler, stdout: `show_config` (sort, stripzeros, summarize on; details off) -/
def explicitStdout {υ} : Cfg υ := ⟨⟨true, false, true, true⟩, none⟩
/-- explicit profiler, text files: the same with details forced on -/
def explicitText {υ} : Cfg υ := ⟨⟨true, true, true, true⟩, none⟩

structure Codec (σ β : Type) where
  dump : σ → β
  load : β → Option σ
  roundtrip : ∀ s, load (dump s) = some s

end LPVerif.Channels
