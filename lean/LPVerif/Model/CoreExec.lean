import LPVerif.Model.Core
import Std.Data.HashMap
/-!
# Model.CoreExec — the callback machine over hash maps (what the driver executes)

Same machine as `Model.Core`, with `_c_code_map` / `_c_last_time` held in `Std.HashMap`s (like the
C++ `unordered_map`s of the implementation) instead of total functions, so that a trace of 10⁵
events runs in a fraction of a second.  `abs` maps an executable state to the proof-facing state;
`Lemmas/CoreExec.lean` proves that every transformer commutes with `abs` (a refinement), so every
theorem about `Model.Core` is a theorem about what the driver runs.
-/
namespace LPVerif.Core
open Std

structure ESt where
  regs : List (Blk × Int)
  hits : HashMap (Blk × Int × Int) Nat
  time : HashMap (Blk × Int × Int) Int
  last : HashMap Nat (HashMap Blk (Int × Int))      -- thread ↦ block ↦ (f_lineno, time)

def ESt.init (regs : List (Blk × Int)) : ESt := { regs := regs, hits := ∅, time := ∅, last := ∅ }

def ESt.lastOf (s : ESt) (t : Nat) (b : Blk) : Option (Int × Int) := (s.last.getD t ∅)[b]?

def ESt.abs (s : ESt) : St :=
  { regs := s.regs
    hits := fun b c o => s.hits.getD (b, c, o) 0
    time := fun b c o => s.time.getD (b, c, o) 0
    last := fun t b => s.lastOf t b }

def ESt.bump (s : ESt) (b : Blk) (cur old : Int) (dt : Int) : ESt :=
  { s with hits := s.hits.insert (b, cur, old) (s.hits.getD (b, cur, old) 0 + 1)
           time := s.time.insert (b, cur, old) (s.time.getD (b, cur, old) 0 + dt) }

def ESt.setLast (s : ESt) (t : Nat) (b : Blk) (v : Option (Int × Int)) : ESt :=
  match v with
  | some x => { s with last := s.last.insert t ((s.last.getD t ∅).insert b x) }
  | none   => { s with last := s.last.insert t ((s.last.getD t ∅).erase b) }

def ESt.closePending (s : ESt) (t : Nat) (b : Blk) (cur : Int) (r1 : Int) : ESt :=
  match s.lastOf t b with
  | some (old, st) => s.bump b cur old (r1 - st)
  | none => s

def ecb (s : ESt) (e : Ev) : ESt :=
  if (e.b, e.l) ∈ s.regs then
    (s.closePending e.t e.b e.l e.r1).setLast e.t e.b (if e.isLine then some (e.l, e.r2) else none)
  else s

def ESt.clearThread (s : ESt) (t : Nat) : ESt := { s with last := s.last.insert t ∅ }

def ESt.addRegs (s : ESt) (rs : List (Blk × Int)) : ESt := { s with regs := s.regs ++ rs }

end LPVerif.Core
