import LPVerif.Model.Argv
/-!
# Model.ArgFlow — the statements of `kernprof.main` / `kernprof._main` through which the command line flows

`Model.Argv.parseCmdWith` is a hand-written summary of `kernprof._main` up to `sys.argv = [options.script] + options.args`.
This file gives the *statements* themselves a meaning: the translator (`tools/extract.py`, `gen_arg_flow`) walks `main` and
`_main` and emits, in source order, one `Stmt` for every statement that writes one of the tracked names (`args`, `module`,
`post_args`, `options`, `options.args`, `options.script`, `options.outfile`, `sys.argv`); a statement that writes a tracked
name and is not one of the known forms is emitted as `.unknown`, which has no meaning (`run` returns `none`).
`Props/C15.lean` proves `run (emitted statements) = parseCmdWith …` for every argument list, so the theorems about
`parseCmd` are theorems about the statement sequence that is in the tree now.  No Mathlib import.
-/
namespace LPVerif.ArgFlow
open LPVerif.Argv

inductive Stmt
  | callMain          -- `_main(args)` (in `main`)
  | defaultArgs       -- `if args is None: args = sys.argv[1:]`
  | preParse          -- `args, module, post_args = pre_parse_single_arg_directive(args, '-m')`
  | parseArgs         -- `options = real_parser.parse_args(args)`; the parser has the `script` positional iff `module is None`, then `args` (`nargs='...'`)
  | appendPost        -- `options.args += post_args`
  | scriptFromModule  -- `if module is not None: options.script = module`
  | defaultOutfile    -- `if not options.outfile: … options.outfile = '%s.%s' % (os.path.basename(options.script), extension)`
  | setArgv           -- `sys.argv = [options.script] + options.args`
  | unknown           -- writes a tracked name in a way the translator does not know
deriving DecidableEq, Repr

structure St where
  args    : List String
  module  : Option String := none
  post    : List String := []
  opts    : Option Opts := none
  script  : Option String := none
  optArgs : List String := []
  outfile : Option String := none
  sysArgv : Option (List String) := none
deriving Repr

/-- one statement; `none` = no meaning (unknown statement, or a name read before it was bound); `some (.error e)` = the run
    aborts there (argparse error, `ValueError` of the pre-parser) -/
def exec1 (abbr : Bool) (table : List OptSpec) (s : St) : Stmt → Option (Except Err St)
  | .callMain => some (.ok s)
  | .defaultArgs => some (.ok s)               -- `args` is given (the harness and the theorems pass the list explicitly)
  | .preParse =>
    match pp s.args with
    | .error e => some (.error e)
    | .ok (pre, m, post) => some (.ok { s with args := pre, module := m, post := post })
  | .parseArgs =>
    match decodeOpts table {} s.args with
    | .error e => some (.error e)
    | .ok (o, rest) =>
      match s.module with
      | some _ => some (.ok { s with opts := some o, script := none, optArgs := rest, outfile := o.outfile })
      | none =>
        match rest with
        | [] => some (.error .noScript)
        | sc :: rest' =>
          match (if abbr then firstAmbiguous table rest' else none) with
          | some tok => some (.error (.ambiguous tok))
          | none => some (.ok { s with opts := some o, script := some sc, optArgs := stripSep rest', outfile := o.outfile })
  | .appendPost => if s.opts.isSome then some (.ok { s with optArgs := s.optArgs ++ s.post }) else none
  | .scriptFromModule =>
    if s.opts.isSome then
      some (.ok (match s.module with | some m => { s with script := some m } | none => s))
    else none
  | .defaultOutfile =>
    match s.opts, s.script with
    | some o, some sc =>
      let dflt := basename sc ++ (if o.lineByLine then ".lprof" else ".prof")
      some (.ok { s with outfile := some (match s.outfile with | some f => if f = "" then dflt else f | none => dflt) })
    | _, _ => none
  | .setArgv =>
    match s.opts, s.script with
    | some _, some sc => some (.ok { s with sysArgv := some (sc :: s.optArgs) })
    | _, _ => none
  | .unknown => none

def runFrom (abbr : Bool) (table : List OptSpec) : List Stmt → St → Option (Except Err St)
  | [], s => some (.ok s)
  | st :: rest, s =>
    match exec1 abbr table s st with
    | none => none
    | some (.error e) => some (.error e)
    | some (.ok s') => runFrom abbr table rest s'

/-- what the program and kernprof see after the statements: `sys.argv`, the decoded options, the output file -/
structure Result where
  cmd     : Cmd
  outfile : String
deriving DecidableEq, Repr

def finish (s : St) : Option Result :=
  match s.opts, s.script, s.sysArgv, s.outfile with
  | some o, some sc, some (a0 :: rest), some f =>
    if a0 = sc then some { cmd := { opts := o, isModule := s.module.isSome, target := sc, argv := rest }, outfile := f } else none
  | _, _, _, _ => none

def run (abbr : Bool) (table : List OptSpec) (prog : List Stmt) (args : List String) : Option (Except Err Result) :=
  match runFrom abbr table prog { args := args } with
  | none => none
  | some (.error e) => some (.error e)
  | some (.ok s) => (finish s).map .ok

/-- the sequence the theorems of C15 were written against -/
def reference : List Stmt :=
  [.callMain, .defaultArgs, .preParse, .parseArgs, .appendPost, .scriptFromModule, .defaultOutfile, .setArgv]

end LPVerif.ArgFlow
