/-!
# Model.Skel — control skeletons of the tree's `try / except / finally / with / if` code

The translator (`tools/extract.py`) dumps the control structure of `kernprof.main`, `_restore_list`, `%lprun`,
`runctx`, `runcall`, the function / coroutine wrappers … as *data* of type `Skel`; leaf names are the unparsed source
text of the statement.  A leaf is `risky` when it runs user code (or is a `yield`, where the outcome of the `with`
body / of the consumer is injected): such a leaf may end normally or raise `SystemExit`, `KeyboardInterrupt` or any
other exception — the environment decides, so quantifying over environments quantifies over every crash point and
every way the program can end.  All other leaves are assumed not to raise (trusted base).

`exec` is the big-step semantics (outcome, log of attempted leaves).  `paths` is an abstract interpreter that
enumerates every (outcome, log) pair that can arise under a valuation of the conditions; `paths_sound` proves that
`exec` never leaves that set, `paths_congr` that only the conditions occurring in the skeleton matter.  A claim
"on every path …" about an extracted skeleton is then a kernel evaluation (`decide`) lifted to **all** environments by
`forall_env`.
-/
namespace LPVerif.Skel

/-- `special` = the ordinary exception a handler names specifically (StopIteration, AttributeError, …) -/
inductive Exc | sysExit | kbInt | special | other
deriving DecidableEq, Repr

inductive Out | normal | raised (e : Exc) | returned
deriving DecidableEq, Repr

/-- `ν` = type of leaf / condition names: `String` for hand-written skeletons, `Nat` (an index into the name table
    the translator emits) for the dumped ones, so that the kernel compares numbers, not strings -/
inductive Skel (ν : Type)
  | skip
  | eff (name : ν) (risky : Bool)
  | seq (a b : Skel ν)
  | ite (c : ν) (t e : Skel ν)
  | tryExcept (body : Skel ν) (catches : List Exc) (handler : Skel ν) (orelse : Skel ν)   -- `else:` runs after a body that did not raise
  | tryFinally (body fin : Skel ν)
  | ret
  | raise_ (e : Exc)
deriving Repr

/-- environment: truth of each named condition, and what the k-th risky leaf does -/
structure Env (ν : Type) where
  cond : ν → Bool
  risk : Nat → Option Exc

variable {ν : Type} [DecidableEq ν]

/-- result: outcome, log of attempted leaves, number of risky leaves consumed so far -/
def exec (env : Env ν) : Skel ν → Nat → Out × List ν × Nat
  | .skip, k => (.normal, [], k)
  | .eff n risky, k =>
      if risky then
        match env.risk k with
        | some e => (.raised e, [n], k + 1)
        | none => (.normal, [n], k + 1)
      else (.normal, [n], k)
  | .seq a b, k =>
      match exec env a k with
      | (.normal, l1, k1) =>
          let (o2, l2, k2) := exec env b k1
          (o2, l1 ++ l2, k2)
      | r => r
  | .ite c t e, k => if env.cond c then exec env t k else exec env e k
  | .tryExcept body catches h el, k =>
      match exec env body k with
      | (.raised e, l1, k1) =>
          if e ∈ catches then
            let (o2, l2, k2) := exec env h k1
            (o2, l1 ++ l2, k2)
          else (.raised e, l1, k1)
      | (.normal, l1, k1) =>
          let (o2, l2, k2) := exec env el k1
          (o2, l1 ++ l2, k2)
      | r => r
  | .tryFinally body fin, k =>
      let (o1, l1, k1) := exec env body k
      let (o2, l2, k2) := exec env fin k1
      ((if o2 = .normal then o1 else o2), l1 ++ l2, k2)
  | .ret, k => (.returned, [], k)
  | .raise_ e, k => (.raised e, [], k)

def allExc : List Exc := [.sysExit, .kbInt, .special, .other]

/-- abstract interpreter: every (outcome, log) that can arise under the valuation `cond` -/
def paths (cond : ν → Bool) : Skel ν → List (Out × List ν)
  | .skip => [(.normal, [])]
  | .eff n risky =>
      if risky then (.normal, [n]) :: allExc.map (fun e => (.raised e, [n])) else [(.normal, [n])]
  | .seq a b =>
      (paths cond a).flatMap fun (o1, l1) =>
        if o1 = .normal then (paths cond b).map fun (o2, l2) => (o2, l1 ++ l2) else [(o1, l1)]
  | .ite c t e => if cond c then paths cond t else paths cond e
  | .tryExcept body catches h el =>
      (paths cond body).flatMap fun (o1, l1) =>
        match o1 with
        | .raised e => if e ∈ catches then (paths cond h).map fun (o2, l2) => (o2, l1 ++ l2) else [(o1, l1)]
        | .normal => (paths cond el).map fun (o2, l2) => (o2, l1 ++ l2)
        | _ => [(o1, l1)]
  | .tryFinally body fin =>
      (paths cond body).flatMap fun (o1, l1) =>
        (paths cond fin).map fun (o2, l2) => ((if o2 = .normal then o1 else o2), l1 ++ l2)
  | .ret => [(.returned, [])]
  | .raise_ e => [(.raised e, [])]

/-- names of the conditions a skeleton consults -/
def condNames : Skel ν → List ν
  | .skip => []
  | .eff _ _ => []
  | .seq a b => condNames a ++ condNames b
  | .ite c t e => c :: (condNames t ++ condNames e)
  | .tryExcept body _ h el => condNames body ++ condNames h ++ condNames el
  | .tryFinally body fin => condNames body ++ condNames fin
  | .ret => []
  | .raise_ _ => []

/-- every subset of the given names: the set of conditions that are true (all others false) -/
def subsets : List ν → List (List ν)
  | [] => [[]]
  | n :: r => (subsets r).flatMap fun t => [n :: t, t]

/-- the valuation in which exactly the names in `ts` are true -/
def valOf (ts : List ν) : ν → Bool := fun c => decide (c ∈ ts)

/-! ## log predicates used by the per-skeleton obligations (over interned names) -/

/-- indices of the names in the translator's table that start with `pfx` -/
def idsOf (table : List String) (pfx : String) : List Nat :=
  (List.range table.length).filter fun i => match table[i]? with | some n => pfx.isPrefixOf n | none => false

/-- number of attempted leaves among `ids` -/
def countIn (ids : List Nat) (log : List Nat) : Nat := (log.filter (fun n => ids.contains n)).length

/-- at every leaf in `at_`, the leaves in `a` and in `b` so far are equally many -/
def balancedAt (a b at_ : List Nat) : List Nat → Nat → Nat → Bool
  | [], _, _ => true
  | n :: r, ca, cb =>
    (if at_.contains n then ca == cb else true) &&
      balancedAt a b at_ r (if a.contains n then ca + 1 else ca) (if b.contains n then cb + 1 else cb)

/-- the first leaf in `a` comes before the first leaf in `b` (or no leaf of `b` occurs) -/
def before (a b : List Nat) : List Nat → Bool
  | [] => true
  | n :: r => if a.contains n then true else if b.contains n then false else before a b r

end LPVerif.Skel
