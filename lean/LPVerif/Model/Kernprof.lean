/-!
# Model.Kernprof — what `kernprof.main` does to the interpreter's process-global lists

`sys.argv` and `sys.path` are *bindings* to list objects; a program (and kernprof's own `_main`, which executes
`sys.argv = [...]`) may rebind them to new objects as well as mutate the objects in place.  `Heap` keeps the two
bindings and the contents of every list object.  `mainWrapper` is `kernprof.main` after the repair of F-C19a/c
(`argv, path = sys.argv, sys.path; with _restore_list(argv), _restore_list(path): try: _main(args) finally:
sys.argv, sys.path = argv, path`), parametrised by an arbitrary effect of `_main` on the heap.
-/
namespace LPVerif.Kernprof

structure Heap where
  argvRef : Nat
  pathRef : Nat
  lists : Nat → List String

def Heap.setList (h : Heap) (r : Nat) (v : List String) : Heap :=
  { h with lists := fun r' => if r' = r then v else h.lists r' }

/-- `main`: look the objects up, copy their contents, run `_main` (any effect, however it ends), put the contents and
    the bindings back -/
def mainWrapper (body : Heap → Heap) (h : Heap) : Heap :=
  let a := h.argvRef
  let p := h.pathRef
  let oldA := h.lists a
  let oldP := h.lists p
  let h1 := body h
  let h2 := { h1 with argvRef := a, pathRef := p }       -- finally: sys.argv, sys.path = argv, path
  let h3 := h2.setList p oldP                            -- exit of _restore_list(path)
  h3.setList a oldA                                      -- exit of _restore_list(argv)

/-- the pinned tree: the restorers hold the objects that were `sys.argv` / `sys.path` when kernprof was *imported*
    (`a0`, `p0`) and the bindings are never put back -/
def mainWrapperPinned (a0 p0 : Nat) (body : Heap → Heap) (h : Heap) : Heap :=
  let oldA := h.lists a0
  let oldP := h.lists p0
  let h1 := body h
  (h1.setList p0 oldP).setList a0 oldA

/-- what a program can see of `sys.argv` / `sys.path` -/
def Heap.argv (h : Heap) : List String := h.lists h.argvRef
def Heap.path (h : Heap) : List String := h.lists h.pathRef

/-! ## the environment handed to the program (straight-line set-up code of `_main`) -/

structure Opts where
  isModule : Bool
  script : String          -- script path as given / module name
  scriptFile : String      -- what find_script / find_module_script returned
  args : List String
  setupDir : Option String -- directory of the setup file, if any

structure ProgEnv where
  argv : List String
  name : String
  file : String
  path0 : String
deriving DecidableEq, Repr

/-- what `_main` provides: `sys.argv = [options.script] + options.args`; `sys.path.insert(0, cwd)` for `-m`,
    `sys.path.insert(0, dirname(script_file))` otherwise (after the setup directory); `__file__`, `__name__` -/
def kernprofEnv (o : Opts) (cwd : String) (dirname : String → String) : ProgEnv :=
  { argv := o.script :: o.args, name := "__main__", file := o.scriptFile,
    path0 := if o.isModule then cwd else dirname o.scriptFile }

/-- what `python script args…` / `python -m module args…` provide -/
def pythonEnv (o : Opts) (cwd : String) (dirname : String → String) : ProgEnv :=
  { argv := (if o.isModule then o.scriptFile else o.script) :: o.args, name := "__main__", file := o.scriptFile,
    path0 := if o.isModule then cwd else dirname o.scriptFile }

/-- `find_script`: the name itself when it is a file, else the first non-empty PATH directory that holds it -/
def findScript (isFile : String → Bool) (join : String → String → String) (name : String) : List String → Option String
  | [] => if isFile name then some name else none
  | d :: r =>
    if isFile name then some name
    else if d = "" then findScript isFile join name r
    else if isFile (join d name) then some (join d name)
    else findScript isFile join name r

end LPVerif.Kernprof
