import LPVerif.Generated.ReportTables
/-!
# Model.Report — layout of the text report (`show_func` / `show_text`, `line_profiler.py:168-418`)

Numbers are rendered by CPython's `%` operator; the model does not re-implement float formatting: for every recorded
line the candidate strings (`'%d' % nhits`, `'%g' % nhits`, `'%5.1f'`/`'%5.3g'` of time and per-hit, the percentage) are
*inputs* (supplied by the correspondence harness from the real interpreter).  What is modelled — and proved about — is
everything else: which candidate is used (column-width thresholds), column sizing, right-justification, which row a
recorded line lands on, the order of functions, what `stripzeros` / `sort` / `summarize` / `details` select.
Texts are `List Char` (plain lists, so that lengths are easy to reason about); the driver converts to `String`.
-/
namespace LPVerif.Report

abbrev Txt := List Char

/-- one recorded line with its candidate renderings -/
structure Cand where
  line : Nat
  hits : Nat
  time : Nat
  hitsD : Txt       -- '%d' % nhits
  hitsG : Txt       -- '%g' % nhits
  timeF : Txt       -- '%5.1f' % (time * scalar)
  timeG : Txt       -- '%5.3g' % (time * scalar)
  perhitF : Txt
  perhitG : Txt
  percent : Txt     -- '%5.1f' % (100 * time / total_time), '' when total_time == 0

structure Widths where
  line : Nat
  hits : Nat
  time : Nat
  perhit : Nat
  percent : Nat

def lookupSize (k : String) : Nat :=
  match Generated.reportColumnSizes.find? (fun p => p.1 = k) with
  | some p => p.2
  | none => 0

/-- `default_column_sizes` -/
def defaults : Widths :=
  { line := lookupSize "line", hits := lookupSize "hits", time := lookupSize "time", perhit := lookupSize "perhit",
    percent := lookupSize "percent" }

structure Cells where
  hits : Txt
  time : Txt
  perhit : Txt
  percent : Txt

def Cells.empty : Cells := ⟨[], [], [], []⟩

/-- which candidate is displayed: fall back to the short form when the long one exceeds the *default* width -/
def cellsOf (c : Cand) : Cells :=
  { hits := if c.hitsD.length > defaults.hits then c.hitsG else c.hitsD
    time := if c.timeF.length > defaults.time then c.timeG else c.timeF
    perhit := if c.perhitF.length > defaults.perhit then c.perhitG else c.perhitF
    percent := c.percent }

def maxLen (ls : List Txt) : Nat := ls.foldl (fun m t => max m t.length) 0

/-- column sizes: the defaults, widened to the longest displayed cell -/
def widthsOf (cands : List Cand) : Widths :=
  let cs := cands.map cellsOf
  { defaults with
    hits := max defaults.hits (maxLen (cs.map (·.hits)))
    time := max defaults.time (maxLen (cs.map (·.time)))
    perhit := max defaults.perhit (maxLen (cs.map (·.perhit))) }

/-- `'%Ns' % s`: right-justify, never truncate -/
def rjust (w : Nat) (s : Txt) : Txt := List.replicate (w - s.length) ' ' ++ s

/-- left part of a row -/
def lhs (w : Widths) (lineno : Txt) (c : Cells) : Txt :=
  rjust w.line lineno ++ [' '] ++ rjust w.hits c.hits ++ [' '] ++ rjust w.time c.time ++ [' '] ++ rjust w.perhit c.perhit
    ++ [' '] ++ rjust w.percent c.percent

def rowText (w : Widths) (lineno : Txt) (c : Cells) (src : Txt) : Txt := lhs w lineno c ++ [' ', ' '] ++ src

def natTxt (n : Nat) : Txt := (toString n).toList

/-- `display.get(lineno, empty)`: the *last* recorded entry with that line number wins (dict assignment) -/
def displayGet (cands : List Cand) (lineno : Nat) : Cells :=
  match (cands.reverse.find? (fun c => c.line = lineno)) with
  | some c => cellsOf c
  | none => Cells.empty

/-- rows: `zip(range(start, start + len(sublines)), sublines)` -/
def rowsFrom (cands : List Cand) (w : Widths) : Nat → List Txt → List Txt
  | _, [] => []
  | lineno, src :: rest => rowText w (natTxt lineno) (displayGet cands lineno) src :: rowsFrom cands w (lineno + 1) rest

def headerCells : List Txt := Generated.reportHeader.map String.toList

def headerText (w : Widths) : Txt :=
  match headerCells with
  | [a, b, c, d, e, f] => rowText w a ⟨b, c, d, e⟩ f
  | _ => []

structure Func where
  fn : String
  start : Nat
  name : String
  cands : List Cand
  totalTimeTxt : Txt        -- '%g' % (total_time * unit)
  summaryTxt : Txt          -- '%6.2f seconds - %s:%s - %s' of this function
  fileExists : Bool
  block : List Txt          -- inspect.getblock(...) of the file, each line without its line ending

def Func.totalHits (f : Func) : Nat := (f.cands.map (·.hits)).sum
def Func.totalTime (f : Func) : Nat := (f.cands.map (·.time)).sum

def nl : Txt := ['\n']
def str (s : String) : Txt := s.toList

/-- number of placeholder rows when the file cannot be found -/
def missingRows (f : Func) : Nat :=
  match f.cands.map (·.line) with
  | [] => 1
  | l :: ls =>
    let mx := ls.foldl max l
    let mn := min (ls.foldl min l) f.start
    mx - mn + 1

/-- `show_func` (non-rich) -/
def showFunc (stripzeros : Bool) (f : Func) : Txt :=
  if stripzeros && f.totalHits == 0 then [] else
  let w := widthsOf f.cands
  let head :=
    if f.fileExists then
      str "Total time: " ++ f.totalTimeTxt ++ str " s\n" ++ str "File: " ++ str f.fn ++ nl ++
      str "Function: " ++ str f.name ++ str " at line " ++ natTxt f.start ++ nl
    else
      str "Total time: " ++ f.totalTimeTxt ++ str " s\n" ++ nl ++ str "Could not find file " ++ str f.fn ++ nl ++
      str "Are you sure you are running this program from the same directory\n" ++
      str "that you ran the profiler from?\n" ++ str "Continuing without the function's contents.\n"
  let block := if f.fileExists then f.block else List.replicate (missingRows f) []
  let hdr := headerText w
  head ++ nl ++ hdr ++ nl ++ List.replicate hdr.length '=' ++ nl ++
    (rowsFrom f.cands w f.start block).flatMap (fun r => r ++ nl) ++ nl

/-! ## `show_text`: ordering and options -/

structure Opts where
  stripzeros : Bool
  details : Bool
  summarize : Bool
  sort : Bool

def keyLe (a b : Func) : Bool :=
  a.fn < b.fn || (a.fn == b.fn && (a.start < b.start || (a.start == b.start && a.name ≤ b.name)))

def insertBy (le : Func → Func → Bool) (x : Func) : List Func → List Func
  | [] => [x]
  | y :: r => if le y x then y :: insertBy le x r else x :: y :: r

/-- stable insertion sort (Python's `sorted` is stable) -/
def sortBy (le : Func → Func → Bool) (l : List Func) : List Func := l.foldl (fun acc x => insertBy le x acc) []

def order (o : Opts) (fs : List Func) : List Func :=
  if o.sort then sortBy (fun a b => a.totalTime ≤ b.totalTime) fs else sortBy keyLe fs

/-- is the function listed in the summary?  (`summaryByHits` = after the repair of F-C10a) -/
def inSummary (o : Opts) (f : Func) : Bool := !o.stripzeros || f.totalHits != 0
def inSummaryPinned (o : Opts) (f : Func) : Bool := !o.stripzeros || f.totalTime != 0
def inDetails (o : Opts) (f : Func) : Bool := !(o.stripzeros && f.totalHits == 0)

def showText (o : Opts) (unitTxt : Txt) (fs : List Func) : Txt :=
  let ord := order o fs
  str "Timer unit: " ++ unitTxt ++ str " s\n\n" ++
  (if o.details then ord.flatMap (showFunc o.stripzeros) else []) ++
  (if o.summarize then (ord.filter (inSummary o)).flatMap (fun f => f.summaryTxt ++ nl) else [])

end LPVerif.Report
