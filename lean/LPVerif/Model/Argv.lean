/-!
# Model.Argv — kernprof's command line: `pre_parse_single_arg_directive` + option grammar

`pp` is the hand model of `kernprof.pre_parse_single_arg_directive(args, '-m')` (`kernprof.py:256-313`);
`Bridge/Argv.lean` proves the code *emitted from the source* equal to it.  `decodeOpts` models argparse
on kernprof's option grammar only (exact option names, `--long=value`, separate value tokens, `-i [N]`);
the option table is a parameter (the generated table is `Generated.Tables.kernprofOptions`).
`parseCmd` is the part of `kernprof.main` up to `sys.argv = [options.script] + options.args`.
No Mathlib import.
-/
namespace LPVerif.Argv

/-- split at the first occurrence of `x` (Python: `i = l.index(x); l[:i], l[i+1:]`) -/
def splitAt (x : String) : List String → Option (List String × List String)
  | [] => none
  | a :: r => if a = x then some ([], r) else (splitAt x r).map fun (p, q) => (a :: p, q)

inductive Err | argExpected | badOption (tok : String) | missingValue (tok : String) | noScript | ambiguous (tok : String)
deriving DecidableEq, Repr

abbrev Parsed := List String × Option String × List String

/-- the part of pre_parse after the separator handling (`flag` branch) -/
def ppFlag (args : List String) : Except Err Parsed :=
  match splitAt "-m" args with
  | none => .ok (args, none, [])
  | some (_, []) => .error .argExpected
  | some (pre, m :: post) => .ok (pre, some m, post)

/-- pre_parse_single_arg_directive(args, '-m', sep='--'); the recursive call on the part before
    the separator cannot meet a separator again, so it is `ppFlag` -/
def pp (args : List String) : Except Err Parsed :=
  match splitAt "--" args with
  | none => ppFlag args
  | some (pre, post) =>
    match ppFlag pre with
    | .error e => .error e
    | .ok (p, none, _) => .ok (p ++ ["--"], none, post)
    | .ok (p, some a, pp') => .ok (p, some a, pp' ++ "--" :: post)

/-! ## option grammar -/

inductive OptKind | flag | value | optInt | version | help
deriving DecidableEq, Repr

structure OptSpec where
  short : String
  long  : String
  kind  : OptKind
deriving DecidableEq, Repr

/-- decoded options: flags set, and `(long name, value)` pairs in command-line order -/
structure Opts where
  flags  : List String := []
  values : List (String × String) := []
deriving DecidableEq, Repr

def findOpt (table : List OptSpec) (tok : String) : Option OptSpec :=
  table.find? fun o => (o.short ≠ "" ∧ o.short = tok) ∨ o.long = tok

def isOptionLike (tok : String) : Bool := tok.startsWith "-" && tok ≠ "-"

def allDigits (tok : String) : Bool := tok ≠ "" && tok.all Char.isDigit

/-- `--long=value` -/
def splitEq (tok : String) : Option (String × String) :=
  if tok.startsWith "--" then
    match tok.splitOn "=" with
    | name :: v :: vs => some (name, "=".intercalate (v :: vs))
    | _ => none
  else none

/-- consume the leading options; stop at the first positional token and return the rest untouched -/
def decodeOpts (table : List OptSpec) (acc : Opts) : List String → Except Err (Opts × List String)
  | [] => .ok (acc, [])
  | tok :: rest =>
    if !isOptionLike tok then .ok (acc, tok :: rest)
    else match findOpt table tok with
      | some o =>
        match o.kind with
        | .flag => decodeOpts table { acc with flags := acc.flags ++ [o.long] } rest
        | .value =>
          match rest with
          | v :: rest' =>
            if isOptionLike v then .error (.missingValue tok)
            else decodeOpts table { acc with values := acc.values ++ [(o.long, v)] } rest'
          | [] => .error (.missingValue tok)
        | .optInt =>
          match rest with
          | v :: rest' =>
            if allDigits v then decodeOpts table { acc with values := acc.values ++ [(o.long, v)] } rest'
            else if isOptionLike v then decodeOpts table { acc with values := acc.values ++ [(o.long, "0")] } (v :: rest')
            else .error (.badOption tok)
          | [] => .ok ({ acc with values := acc.values ++ [(o.long, "0")] }, [])
        | .version => .error (.badOption tok)      -- prints the version and exits: not a run
        | .help => .error (.badOption tok)
      | none =>
        match splitEq tok with
        | some (name, v) =>
          match findOpt table name with
          | some o =>
            if o.kind = .value ∨ o.kind = .optInt then
              decodeOpts table { acc with values := acc.values ++ [(o.long, v)] } rest
            else .error (.badOption tok)
          | none => .error (.badOption tok)
        | none => .error (.badOption tok)

structure Cmd where
  opts     : Opts
  isModule : Bool
  target   : String           -- `options.script`
  argv     : List String      -- `sys.argv[1:]` as the program sees it
deriving DecidableEq, Repr

/-- argparse classifies *every* option-like string of the list it is given — up to the first `--` — before it assigns
    positionals, abbreviations included: a `--xyz` that is a proper prefix of two or more long options aborts the run with
    `ambiguous option` (finding F-C15a), wherever it stands -/
def ambiguousPrefix (table : List OptSpec) (tok : String) : Bool :=
  tok.startsWith "--" && tok ≠ "--" && (findOpt table tok).isNone &&
  decide (2 ≤ (table.filter fun o => o.long.startsWith tok).length)

def firstAmbiguous (table : List OptSpec) (args : List String) : Option String :=
  (args.takeWhile (· ≠ "--")).find? (ambiguousPrefix table)

/-- argparse drops a `--` that directly follows the script; any later one stays -/
def stripSep : List String → List String
  | "--" :: r => r
  | l => l

/-- `kernprof.main` up to `sys.argv = [options.script] + options.args`; `abbr` is argparse's `allow_abbrev` (its default is
    `True`; kernprof passes `False` since the repair of F-C15a) -/
def parseCmdWith (abbr : Bool) (table : List OptSpec) (args : List String) : Except Err Cmd :=
  match pp args with
  | .error e => .error e
  | .ok (pre, some m, post) =>
    match decodeOpts table {} pre with
    | .error e => .error e
    | .ok (o, rest) => .ok { opts := o, isModule := true, target := m, argv := rest ++ post }
  | .ok (pre, none, post) =>
    match decodeOpts table {} pre with
    | .error e => .error e
    | .ok (_, []) => .error .noScript
    | .ok (o, s :: rest) =>
      match (if abbr then firstAmbiguous table rest else none) with
      | some tok => .error (.ambiguous tok)
      | none => .ok { opts := o, isModule := false, target := s, argv := stripSep rest ++ post }

/-- the parser as kernprof builds it: no abbreviations -/
def parseCmd (table : List OptSpec) (args : List String) : Except Err Cmd := parseCmdWith false table args

/-- what kernprof decides from its own options -/
def Opts.lineByLine (o : Opts) : Bool := o.flags.contains "--line-by-line"
def Opts.view (o : Opts) : Bool := o.flags.contains "--view"
def Opts.outfile (o : Opts) : Option String := (o.values.reverse.find? (·.1 = "--outfile")).map (·.2)

def basename (s : String) : String := (s.splitOn "/").getLast!

/-- `options.outfile` after defaulting -/
def Cmd.outfile (c : Cmd) : String :=
  match c.opts.outfile with
  | some f => if f = "" then basename c.target ++ (if c.opts.lineByLine then ".lprof" else ".prof") else f
  | none => basename c.target ++ (if c.opts.lineByLine then ".lprof" else ".prof")

/-! ## relative imports (`run_module.get_module_from_importfrom`) on component lists -/

/-- `module.split('.')[:-level] (+ [node.module])` -/
def resolveRel (modname : List String) (level : Nat) (target : List String) : List String :=
  modname.take (modname.length - level) ++ target

/-- `importlib._bootstrap._resolve_name`: `bits = package.rsplit('.', level - 1); base = bits[0]`,
    result `base.target` -/
def pyResolve (package : List String) (level : Nat) (target : List String) : List String :=
  package.take (package.length - (level - 1)) ++ target

/-- `__package__` of a module / `__init__` / `__main__` file named with its full dotted name (suffix kept,
    as `AstTreeModuleProfiler` does): the name without its last component -/
def package (modname : List String) : List String := modname.dropLast

end LPVerif.Argv
