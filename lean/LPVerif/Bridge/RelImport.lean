import LPVerif.Generated.RelImport
import LPVerif.Model.Argv
/-! Bridge: the code emitted from `run_module.get_module_from_importfrom` (component level) equals `resolveRel`. -/
namespace LPVerif.Bridge
open LPVerif.Argv LPVerif.Py LPVerif.Generated

theorem rel_gen_eq_model (level : Nat) (nodeModule : Option String) (chunks : List String) (hl : level ≠ 0) :
    get_module_gen level nodeModule chunks
      = .ok (resolveRel chunks level (match nodeModule with | some m => [m] | none => [])) := by
  cases nodeModule <;> simp [get_module_gen, hl, resolveRel, pyDropLastN]

/-- level 0 (an absolute import) is returned untouched -/
theorem rel_gen_level0 (nodeModule : Option String) (chunks : List String) :
    get_module_gen 0 nodeModule chunks = .ok nodeModule.toList := by
  simp [get_module_gen]

end LPVerif.Bridge
