import LPVerif.Generated.PreParse
import LPVerif.Lemmas.Argv
/-! Bridge: the code emitted from `kernprof.pre_parse_single_arg_directive` equals the hand model `Argv.pp`
    for every argument list.  This is the only place where the *shape* of the source matters. -/
namespace LPVerif.Bridge
open LPVerif.Argv LPVerif.Py LPVerif.Generated

theorem pyIndex_none (l : List String) (x : String) : pyIndex l x = none ↔ splitAt x l = none := by
  induction l with
  | nil => simp [pyIndex, splitAt]
  | cons a r ih =>
    by_cases h : a = x
    · simp [pyIndex, splitAt, h]
    · simp [pyIndex, splitAt, h, ih]

theorem pyIndex_some (l : List String) (x : String) (i : Nat) (h : pyIndex l x = some i) :
    splitAt x l = some (pySlice l none (some i), pySlice l (some (i + 1)) none) ∧ i < l.length := by
  induction l generalizing i with
  | nil => simp [pyIndex] at h
  | cons a r ih =>
    by_cases ha : a = x
    · simp [pyIndex, ha] at h; subst h; simp [splitAt, ha, pySlice]
    · simp only [pyIndex, ha, if_false, Option.map_eq_some_iff] at h
      obtain ⟨j, hj, rfl⟩ := h
      obtain ⟨h1, h2⟩ := ih j hj
      simp only [splitAt, ha, if_false, h1, Option.map_some]
      simp [pySlice] at *
      omega

def conv : Except Err Parsed → Except PyErr Parsed
  | .ok p => .ok p
  | .error _ => .error .ValueError

/-- the flag branch of the generated code is `ppFlag` -/
theorem gen_noSep (k : Nat) (args : List String) (h : splitAt "--" args = none) :
    pre_parse_gen (k + 1) args "-m" "--" = conv (ppFlag args) := by
  have h' := (pyIndex_none args "--").2 h
  simp only [pre_parse_gen, h']
  cases hi : pyIndex args "-m" with
  | none =>
    have := (pyIndex_none args "-m").1 hi
    simp [ppFlag, this, conv]
  | some i =>
    obtain ⟨hs, hlt⟩ := pyIndex_some args "-m" i hi
    simp only [ppFlag, hs]
    by_cases hlast : i = args.length - 1
    · have : pySlice args (some (i + 1)) none = [] := by simp [pySlice]; omega
      simp [hlast, this, conv]
      subst hlast; simp [this]
    · have hlt2 : i + 1 < args.length := by omega
      have hd : pySlice args (some (i + 1)) none = args[i + 1] :: pySlice args (some (i + 2)) none := by
        simp only [pySlice, Option.getD_none, Option.getD_some, List.take_length]
        rw [List.drop_eq_getElem_cons hlt2]
      simp [hlast, hd, conv, pyGet, hlt2]

theorem splitAt_fst_noSep (x : String) (l p q : List String) (h : splitAt x l = some (p, q)) :
    splitAt x p = none := by
  induction l generalizing p with
  | nil => simp [splitAt] at h
  | cons a r ih =>
    by_cases ha : a = x
    · simp [splitAt, ha] at h; obtain ⟨rfl, _⟩ := h; rfl
    · simp only [splitAt, ha, if_false, Option.map_eq_some_iff] at h
      obtain ⟨⟨p', q'⟩, hpq, he⟩ := h
      simp only [Prod.mk.injEq] at he
      obtain ⟨rfl, rfl⟩ := he
      simp [splitAt, ha, ih p' hpq]

/-- **bridge**: the code generated from kernprof.py equals the hand model, for every argument list -/
theorem gen_eq_model (k : Nat) (args : List String) :
    pre_parse_gen (k + 2) args "-m" "--" = conv (pp args) := by
  cases hs : pyIndex args "--" with
  | none =>
    have h := (pyIndex_none args "--").1 hs
    rw [gen_noSep (k + 1) args h]; simp [pp, h]
  | some i =>
    obtain ⟨h1, _⟩ := pyIndex_some args "--" i hs
    have hpre := splitAt_fst_noSep _ _ _ _ h1
    rw [pre_parse_gen]
    simp only [hs, gen_noSep k _ hpre, pp, h1]
    cases hf : ppFlag (pySlice args none (some i)) with
    | error e => simp [conv]
    | ok r =>
      obtain ⟨p, a, q⟩ := r
      cases a with
      | some a => simp [conv]
      | none =>
        have hq : q = [] := by
          simp only [ppFlag] at hf
          split at hf <;> simp_all
        simp [conv, hq]

end LPVerif.Bridge
