import LPVerif.Generated.Explicit
/-! Bridge: the methods emitted from `explicit_profiler.GlobalProfiler` equal the hand model, for all states and environments. -/
namespace LPVerif.Bridge
open LPVerif.Explicit LPVerif.Generated

theorem gen_kernprof_overwrite_eq (s : GP) (p : Option ProfRef) : gen_kernprof_overwrite s p = s.kernprofOverwrite p := rfl

theorem gen_disable_eq (s : GP) : gen_disable s = s.disable := rfl

theorem gen_enable_eq (s : GP) (p : Option String) : gen_enable s p = s.enable p := by
  unfold gen_enable GP.enable
  cases p <;> by_cases h : s.profile = none <;> simp [h]

theorem gen_implicit_setup_eq (env : Env) (s : GP) : gen_implicit_setup env s = s.implicitSetup env := by
  unfold gen_implicit_setup GP.implicitSetup isProfiling
  simp only [gen_enable_eq, gen_disable_eq]

theorem gen_call_eq (env : Env) (s : GP) : gen_call env s = s.call env := by
  unfold gen_call GP.call
  simp only [gen_implicit_setup_eq]
  by_cases h : s.enabled = none
  · simp only [h, if_true]
    by_cases h2 : (s.implicitSetup env).enabled = some true <;> simp [h2]
  · simp only [h, if_false]
    by_cases h2 : s.enabled = some true <;> simp [h2]

end LPVerif.Bridge
