/-! Where kernprof and the package compile code they were handed (scripts, rewritten trees, statements), and the `__future__` features of
    the compiling file — copied from the tree by tools/extract.py, regenerated on every run. -/
namespace LPVerif.Generated

/-- (file, line, callee, `from __future__ import …` names of that file, `dont_inherit=True` passed) -/
def compileSites : List (String × Nat × String × List String × Bool) := [
  ("kernprof.py", 111, "compile", [], false),
  ("line_profiler/autoprofile/autoprofile.py", 101, "compile", [], false),
  ("line_profiler/autoprofile/autoprofile.py", 107, "exec", [], false),
  ("line_profiler/ipython_extension.py", 91, "eval", [], false),
  ("line_profiler/profiler_mixin.py", 317, "exec", [], false)
]

end LPVerif.Generated
