/-! Tables copied from profiler_mixin.py / line_profiler.py by tools/extract.py — regenerated on every run. -/
namespace LPVerif.Generated

/-- `wrap_callable`: the if/elif chain (predicate, method), in order -/
def wrapDispatch : List (String × String) := [("is_classmethod", "wrap_classmethod"), ("is_staticmethod", "wrap_staticmethod"), ("is_boundmethod", "wrap_boundmethod"), ("is_partialmethod", "wrap_partialmethod"), ("is_partial", "wrap_partial"), ("is_property", "wrap_property"), ("is_cached_property", "wrap_cached_property"), ("is_async_generator", "wrap_async_generator"), ("is_coroutine", "wrap_coroutine"), ("is_generator", "wrap_generator"), ("else", "wrap_function")]
/-- every `_wrap_callable_wrapper` user: (method, impl_attrs, args, kwargs, name_attr) -/
def wrapImplTable : List (String × String × String × String × String) := [("wrap_boundmethod", "('__func__',)", "('__self__',)", "None", "None"), ("wrap_cached_property", "('func',)", "None", "None", "'attrname'"), ("wrap_classmethod", "('__func__',)", "None", "None", "None"), ("wrap_partial", "('func',)", "'args'", "'keywords'", "None"), ("wrap_partialmethod", "('func',)", "'args'", "'keywords'", "None"), ("wrap_property", "('fget', 'fset', 'fdel')", "None", "{'doc': '__doc__'}", "'__name__'"), ("wrap_staticmethod", "('__func__',)", "None", "None", "None")]
/-- `_get_underlying_functions`: (checks, what is recursed into), in order -/
def underlyingGroups : List (String × String) := [("is_boundmethod,is_classmethod,is_staticmethod", "func.__func__"), ("is_partial,is_partialmethod,is_cached_property", "func.func"), ("is_property", "(func.fget, func.fset, func.fdel)"), ("not callable(func)", "raise TypeError(f'func = {func!r}: cannot get functions from"), ("is_function(func)", "return [func]")]

end LPVerif.Generated
