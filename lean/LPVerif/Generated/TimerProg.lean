import LPVerif.Model.Timer
/-! `kernprof.RepeatedTimer` as a `Timer.Prog`, emitted by tools/extract.py from the tree — regenerated on every run. -/
namespace LPVerif.Generated
open LPVerif.Timer

def repeatedTimer : Prog :=
  { ctor := [.atomic [([.notRunning, .notStopped], [.nop, .newTimer, .startTimer, .setRunning true])]],
    run := [.act (.setRunning false),
      .atomic [([.notRunning, .notStopped], [.nop, .newTimer, .startTimer, .setRunning true])],
      .atomic [([.notStopped], [.dump])]],
    stop := [.atomic [([], [.setStopped true, .cancel, .setRunning false])]] }

/-- source lines of the instructions (for the reader; the correspondence harness gates the real threads there) -/
def repeatedTimerLines : List (List Nat) := [[193], [181, 193, 186], [201]]

end LPVerif.Generated
