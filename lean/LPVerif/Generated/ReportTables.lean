/-! Tables copied from line_profiler/line_profiler.py (show_func / show_text) by tools/extract.py — regenerated on every run. -/
namespace LPVerif.Generated

def reportColumnSizes : List (String × Nat) := [("line", 6), ("hits", 9), ("time", 12), ("perhit", 8), ("percent", 8)]
def reportColOrder : List String := ["line", "hits", "time", "perhit", "percent"]
def reportHeader : List String := ["Line #", "Hits", "Time", "Per Hit", "% Time", "Line Contents"]
/-- `%` format strings of show_func, in source order -/
def showFuncFormats : List String := ["Total time: %g s\n", "%5.1f", "%5.1f", "%5.3g", "%5.1f", "%5.3g", "%d", "%g"]
/-- `%` format strings of show_text, in source order -/
def showTextFormats : List String := ["Timer unit: %g s\n\n", "Timer unit: %g s\n\n", "%6.2f seconds - %s:%s - %s\n"]
/-- conditions under which a function is left out with stripzeros: (function, condition) -/
def stripConditions : List (String × String) := [("show_func", "stripzeros and total_hits == 0"), ("show_text", "not stripzeros or total_hits")]
def sortKey : String := "lambda kv: sum((t[2] for t in kv[1]))"
/-- how the rows of a function are numbered -/
def rowNumbering : List String := ["linenos = [t[0] for t in timings]", "linenos = range(start_lineno, start_lineno + len(sublines))"]

end LPVerif.Generated
