import LPVerif.Prelude
/-! Transliteration emitted by tools/extract.py from the tree — regenerated on every run. -/
namespace LPVerif.Generated
open LPVerif.Py

-- generated from kernprof.py:283 `pre_parse_single_arg_directive` -- do not edit
def pre_parse_gen : Nat → List String → String → String → Except PyErr (List String × Option String × List String)
  | 0, _, _, _ => Except.error PyErr.fuel
  | fuel + 1, args, flag, sep =>
    let args := args
    let pre : List String := []
    let post : List String := []
    match pyIndex args sep with
    | none =>
      match pyIndex args flag with
      | none =>
        Except.ok (args, none, [])
      | some i_flag =>
        if (i_flag = ((List.length args) - 1)) then
          Except.error PyErr.ValueError
        else
          Except.ok ((pySlice args none (some i_flag)), (pyGet args (i_flag + 1)), (pySlice args (some (i_flag + 2)) none))
    | some i_sep =>
      let pre : List String := (pySlice args none (some i_sep))
      let post : List String := (pySlice args (some (i_sep + 1)) none)
      match pre_parse_gen fuel pre flag sep with
      | Except.error e => Except.error e
      | Except.ok (pre_pre, arg, pre_post) =>
        if (arg = none) then
          if (pyFalsy pre_post) then
            Except.ok ((pre_pre ++ [sep]), arg, post)
          else Except.error PyErr.AssertionError
        else
          Except.ok (pre_pre, arg, (pre_post ++ [sep] ++ post))

end LPVerif.Generated
