import LPVerif.Model.Argv
/-! Literal table copied from the tree by tools/extract.py — regenerated on every run. -/
namespace LPVerif.Generated
open LPVerif.Argv

/-- kernprof.py: every `parser.add_argument(...)` option -/
def kernprofOptions : List OptSpec := [

]

end LPVerif.Generated
