import LPVerif.Model.Argv
/-! Literal table copied from the tree by tools/extract.py — regenerated on every run. -/
namespace LPVerif.Generated
open LPVerif.Argv

/-- kernprof.py: every `parser.add_argument(...)` option -/
def kernprofOptions : List OptSpec := [
  ⟨"-h", "--help", .help⟩,
  ⟨"-V", "--version", .version⟩,
  ⟨"-l", "--line-by-line", .flag⟩,
  ⟨"-b", "--builtin", .flag⟩,
  ⟨"-o", "--outfile", .value⟩,
  ⟨"-s", "--setup", .value⟩,
  ⟨"-v", "--view", .flag⟩,
  ⟨"-r", "--rich", .flag⟩,
  ⟨"-u", "--unit", .value⟩,
  ⟨"-z", "--skip-zero", .flag⟩,
  ⟨"-i", "--output-interval", .optInt⟩,
  ⟨"-p", "--prof-mod", .value⟩,
  ⟨"", "--prof-imports", .flag⟩
]

/-- argparse's `allow_abbrev` of every parser kernprof creates (`True` is argparse's default) -/
def kernprofAllowAbbrev : Bool := false

/-- some parser kernprof creates reads arguments from files (`fromfile_prefix_chars`): program arguments starting with that character would be expanded -/
def kernprofFromfilePrefix : Bool := false

end LPVerif.Generated
