/-! How each output channel calls the one renderer (copied from the tree by tools/extract.py — regenerated on every run). -/
namespace LPVerif.Generated

/-- kernprof --view: the `prof.print_stats(...)` calls -/
def kernprofViewCalls : List (List (String × String)) := [[], [("output_unit", "options.unit"), ("stripzeros", "options.skip_zero"), ("rich", "options.rich"), ("stream", "original_stdout")]]
/-- `python -m line_profiler`: the `show_text(...)` call of main() -/
def viewerShowTextCalls : List (List (String × String)) := [[("output_unit", "args.unit"), ("stripzeros", "args.skip_zero"), ("rich", "args.rich"), ("sort", "args.sort"), ("summarize", "args.summarize"), ("#0", "lstats.timings"), ("#1", "lstats.unit")]]
/-- `LineProfiler.print_stats`: its `show_text(...)` call -/
def printStatsShowTextCalls : List (List (String × String)) := [[("output_unit", "output_unit"), ("stream", "stream"), ("stripzeros", "stripzeros"), ("details", "details"), ("summarize", "summarize"), ("sort", "sort"), ("rich", "rich"), ("#0", "lstats.timings"), ("#1", "lstats.unit")]]
/-- `GlobalProfiler.show`: the `self._profile.print_stats(...)` calls -/
def explicitPrintStatsCalls : List (List (String × String)) := [[("**", "kwargs")], [("stream", "stream"), ("**", "text_kwargs")]]
/-- `LineProfiler.dump_stats`: pickle.dump call -/
def dumpCalls : List (List (String × String)) := [[("#0", "lstats"), ("#1", "f"), ("#2", "pickle.HIGHEST_PROTOCOL")]]
/-- `load_stats`: pickle.load call -/
def loadCalls : List (List (String × String)) := [[("#0", "f")]]
/-- keyword defaults of the signature -/
def printStatsDefaults : List (String × String) := [("stream", "None"), ("output_unit", "None"), ("stripzeros", "False"), ("details", "True"), ("summarize", "False"), ("sort", "False"), ("rich", "False")]
/-- keyword defaults of the signature -/
def showTextDefaults : List (String × String) := [("output_unit", "None"), ("stream", "None"), ("stripzeros", "False"), ("details", "True"), ("summarize", "False"), ("sort", "False"), ("rich", "False")]
/-- `kernprof.ContextualProfile.dump_stats` goes through `create_stats()` / `disable()` (inherited, or in its own body) -/
def contextualDumpSwitchesOff : Bool := false
/-- `GlobalProfiler.show`: overrides applied to the text-file rendering -/
def explicitTextOverrides : List (String × String) := [("rich", "0"), ("details", "1")]

end LPVerif.Generated
