import LPVerif.Model.Explicit
/-! Transliteration of the GlobalProfiler methods emitted by tools/extract.py from the tree — regenerated on every run. -/
namespace LPVerif.Generated
open LPVerif.Explicit

-- generated from line_profiler/explicit_profiler.py:262 `GlobalProfiler._kernprof_overwrite` -- do not edit
def gen_kernprof_overwrite (self : GP) (profile : Option ProfRef) : GP :=
  let self := { self with profile := profile }
  let self := { self with enabled := some true }
  self

-- generated from line_profiler/explicit_profiler.py:304 `GlobalProfiler.disable` -- do not edit
def gen_disable (self : GP) : GP :=
  let self := { self with enabled := some false }
  self

-- generated from line_profiler/explicit_profiler.py:288 `GlobalProfiler.enable` -- do not edit
def gen_enable (self : GP) (output_prefix : Option String) : GP :=
  if self.profile = none then
    let self := self.atexit_register_show
    let self := self.new_LineProfiler
    let self := { self with enabled := some true }
    if output_prefix ≠ none then
      let self := { self with output_prefix := output_prefix.getD self.output_prefix }
      self
    else
      self
  else
    let self := { self with enabled := some true }
    if output_prefix ≠ none then
      let self := { self with output_prefix := output_prefix.getD self.output_prefix }
      self
    else
      self

-- generated from line_profiler/explicit_profiler.py:272 `GlobalProfiler._implicit_setup` -- do not edit
def gen_implicit_setup (env : Env) (self : GP) : GP :=
  let environ_flags := environFlags
  let cli_flags := cliFlags
  let is_profiling := envRequested env environ_flags falsyStrings
  let is_profiling := is_profiling || (cliRequested env cli_flags)
  if is_profiling = true then
    let self := gen_enable self none
    self
  else
    let self := gen_disable self
    self

-- generated from line_profiler/explicit_profiler.py:310 `GlobalProfiler.__call__` -- do not edit
def gen_call (env : Env) (self : GP) : GP × Ret :=
  if self.enabled = none then
    let self := gen_implicit_setup env self
    if self.enabled ≠ some true then
      (self, Ret.same)
    else
      (self, self.call_profile)
  else
    if self.enabled ≠ some true then
      (self, Ret.same)
    else
      (self, self.call_profile)

end LPVerif.Generated
