import LPVerif.Model.Skel
/-! Control skeletons dumped from the tree by tools/extract.py — regenerated on every run. -/
namespace LPVerif.Generated
open LPVerif.Skel

/-- kernprof.py `_main`, from the statement that sets sys.argv to the end -/
def kernprofBody : Skel Nat :=
  .seq (.eff 0 false) (.seq (.ite 1 (.eff 2 false) (.skip)) (.seq (.ite 3 (.seq (.eff 4 true) (.seq (.eff 5 false) (.seq (.eff 6 false) (.seq (.eff 7 false) (.seq (.eff 8 false) (.eff 9 true)))))) (.skip)) (.seq (.ite 10 (.seq (.eff 11 false) (.seq (.eff 12 false) (.eff 13 false))) (.ite 14 (.raise_ .other) (.eff 15 false))) (.seq (.ite 1 (.eff 16 true) (.seq (.eff 17 true) (.eff 18 false))) (.seq (.eff 19 false) (.seq (.eff 6 false) (.seq (.tryExcept (.eff 11 false) [.special] (.eff 22 false) (.seq (.eff 20 false) (.eff 21 false))) (.seq (.ite 23 (.seq (.eff 24 false) (.eff 25 false)) (.skip)) (.seq (.ite 26 (.eff 27 false) (.skip)) (.seq (.eff 28 false) (.seq (.ite 29 (.eff 30 false) (.skip)) (.tryFinally (.tryExcept (.seq (.eff 31 false) (.seq (.eff 32 false) (.seq (.eff 8 false) (.ite 33 (.seq (.eff 34 false) (.seq (.eff 35 false) (.eff 36 true))) (.ite 37 (.eff 38 true) (.ite 26 (.eff 39 true) (.ite 1 (.eff 40 true) (.eff 41 true)))))))) [.kbInt, .sysExit] (.skip) (.skip)) (.tryFinally (.seq (.ite 29 (.eff 42 false) (.skip)) (.seq (.eff 43 true) (.seq (.eff 44 false) (.ite 45 (.ite 46 (.eff 47 false) (.eff 48 false)) (.seq (.eff 49 false) (.seq (.eff 50 false) (.ite 46 (.eff 51 false) (.eff 52 false)))))))) (.ite 23 (.seq (.eff 53 false) (.eff 54 false)) (.skip)))))))))))))))

/-- kernprof.py `_main`, from the statement that sets sys.argv up to the installation of the profiler -/
def kernprofHead : Skel Nat :=
  .seq (.eff 0 false) (.seq (.ite 1 (.eff 2 false) (.skip)) (.seq (.ite 3 (.seq (.eff 4 true) (.seq (.eff 5 false) (.seq (.eff 6 false) (.seq (.eff 7 false) (.seq (.eff 8 false) (.eff 9 true)))))) (.skip)) (.seq (.ite 10 (.seq (.eff 11 false) (.seq (.eff 12 false) (.eff 13 false))) (.ite 14 (.raise_ .other) (.eff 15 false))) (.seq (.ite 1 (.eff 16 true) (.seq (.eff 17 true) (.eff 18 false))) (.seq (.eff 19 false) (.eff 6 false))))))

/-- kernprof.py `_main`, from the installation of the profiler into the global @profile to the end -/
def kernprofFromInstall : Skel Nat :=
  .seq (.tryExcept (.eff 11 false) [.special] (.eff 22 false) (.seq (.eff 20 false) (.eff 21 false))) (.seq (.ite 23 (.seq (.eff 24 false) (.eff 25 false)) (.skip)) (.seq (.ite 26 (.eff 27 false) (.skip)) (.seq (.eff 28 false) (.seq (.ite 29 (.eff 30 false) (.skip)) (.tryFinally (.tryExcept (.seq (.eff 31 false) (.seq (.eff 32 false) (.seq (.eff 8 false) (.ite 33 (.seq (.eff 34 false) (.seq (.eff 35 false) (.eff 36 true))) (.ite 37 (.eff 38 true) (.ite 26 (.eff 39 true) (.ite 1 (.eff 40 true) (.eff 41 true)))))))) [.kbInt, .sysExit] (.skip) (.skip)) (.tryFinally (.seq (.ite 29 (.eff 42 false) (.skip)) (.seq (.eff 43 true) (.seq (.eff 44 false) (.ite 45 (.ite 46 (.eff 47 false) (.eff 48 false)) (.seq (.eff 49 false) (.seq (.eff 50 false) (.ite 46 (.eff 51 false) (.eff 52 false)))))))) (.ite 23 (.seq (.eff 53 false) (.eff 54 false)) (.skip))))))))

/-- kernprof.py `_main`, from the first RepeatedTimer statement to the end -/
def kernprofTail : Skel Nat :=
  .seq (.ite 29 (.eff 30 false) (.skip)) (.tryFinally (.tryExcept (.seq (.eff 31 false) (.seq (.eff 32 false) (.seq (.eff 8 false) (.ite 33 (.seq (.eff 34 false) (.seq (.eff 35 false) (.eff 36 true))) (.ite 37 (.eff 38 true) (.ite 26 (.eff 39 true) (.ite 1 (.eff 40 true) (.eff 41 true)))))))) [.kbInt, .sysExit] (.skip) (.skip)) (.tryFinally (.seq (.ite 29 (.eff 42 false) (.skip)) (.seq (.eff 43 true) (.seq (.eff 44 false) (.ite 45 (.ite 46 (.eff 47 false) (.eff 48 false)) (.seq (.eff 49 false) (.seq (.eff 50 false) (.ite 46 (.eff 51 false) (.eff 52 false)))))))) (.ite 23 (.seq (.eff 53 false) (.eff 54 false)) (.skip))))

/-- decorators of kernprof.main -/
def kernprofMainDecorators : List String := []

/-- kernprof.py `main` (meaningful when it is a thin wrapper around `_main`) -/
def kernprofMain : Skel Nat :=
  .seq (.eff 55 false) (.seq (.eff 60 false) (.tryFinally (.seq (.eff 58 false) (.tryFinally (.tryFinally (.eff 56 true) (.eff 57 false)) (.eff 59 false))) (.eff 61 false)))

/-- kernprof.py `_restore_list` (the `yield` is where the decorated function runs) -/
def restoreList : Skel Nat :=
  .seq (.eff 62 false) (.tryFinally (.eff 63 true) (.eff 64 false))

/-- ipython_extension.py `lprun`, from the builtins handling to the end -/
def lprunCore : Skel Nat :=
  .seq (.ite 65 (.seq (.eff 66 false) (.eff 67 false)) (.seq (.eff 68 false) (.eff 69 false))) (.seq (.eff 70 false) (.seq (.tryFinally (.tryExcept (.tryExcept (.seq (.eff 71 true) (.eff 72 false)) [.sysExit] (.eff 73 false) (.skip)) [.kbInt] (.eff 74 false) (.skip)) (.ite 75 (.eff 76 false) (.eff 77 false))) (.seq (.eff 78 false) (.seq (.eff 79 false) (.seq (.eff 80 false) (.seq (.eff 81 false) (.seq (.eff 82 false) (.seq (.eff 83 false) (.seq (.eff 84 false) (.seq (.ite 85 (.seq (.eff 86 false) (.eff 87 false)) (.skip)) (.seq (.eff 88 false) (.seq (.ite 89 (.seq (.eff 90 false) (.seq (.eff 91 false) (.seq (.eff 92 false) (.eff 93 false)))) (.skip)) (.seq (.eff 94 false) (.seq (.ite 95 (.eff 96 false) (.skip)) (.ret)))))))))))))))

/-- autoprofile/autoprofile.py `run` -/
def autoprofileRun : Skel Nat :=
  .seq (.eff 97 false) (.seq (.eff 98 false) (.seq (.eff 99 true) (.seq (.eff 100 false) (.seq (.eff 101 false) (.seq (.eff 102 true) (.seq (.eff 103 false) (.tryFinally (.eff 104 true) (.eff 105 false))))))))

/-- profiler_mixin.py `runctx` -/
def mixin_runctx : Skel Nat :=
  .seq (.eff 106 false) (.seq (.tryFinally (.eff 107 true) (.eff 108 false)) (.ret))

/-- profiler_mixin.py `runcall` -/
def mixin_runcall : Skel Nat :=
  .seq (.eff 106 false) (.tryFinally (.seq (.eff 109 true) (.ret)) (.eff 108 false))

/-- profiler_mixin.py `__enter__` -/
def mixin_enter : Skel Nat :=
  .seq (.eff 106 false) (.ret)

/-- profiler_mixin.py `__exit__` -/
def mixin_exit : Skel Nat :=
  .eff 108 false

/-- profiler_mixin.py `wrap_function`: the wrapper function -/
def wrap_function_wrapper : Skel Nat :=
  .seq (.eff 106 false) (.seq (.tryFinally (.eff 110 true) (.eff 108 false)) (.ret))

/-- profiler_mixin.py `wrap_coroutine`: the wrapper function -/
def wrap_coroutine_wrapper : Skel Nat :=
  .seq (.eff 106 false) (.seq (.tryFinally (.eff 111 true) (.eff 108 false)) (.ret))

/-- profiler_mixin.py `wrap_generator`: one iteration of the wrapper loop -/
def wrap_generator_iteration : Skel Nat :=
  .seq (.eff 106 false) (.seq (.tryFinally (.tryExcept (.eff 112 true) [.special] (.ret) (.skip)) (.eff 108 false)) (.tryExcept (.eff 113 true) [.sysExit, .kbInt, .special, .other] (.eff 115 false) (.eff 114 false)))

/-- profiler_mixin.py `wrap_async_generator`: one iteration of the wrapper loop -/
def wrap_async_generator_iteration : Skel Nat :=
  .seq (.eff 106 false) (.seq (.tryFinally (.tryExcept (.eff 116 true) [.special] (.ret) (.skip)) (.eff 108 false)) (.tryExcept (.eff 113 true) [.sysExit, .kbInt, .special, .other] (.eff 118 false) (.eff 117 false)))

/-! Roles: indices of the statements whose source text starts with the given prefix (computed by the translator, so that the
    kernel compares numbers; an empty role means the statement is gone and makes the non-vacuity theorems fail). -/
/-- statements starting with `prof.dump_stats(options.outfile)` -/
def role_dump : List Nat := [43]
/-- statements starting with `execfile(` -/
def role_execfile : List Nat := [9, 39]
/-- statements starting with `run_module(` -/
def role_run_module : List Nat := [38]
/-- statements starting with `autoprofile.run(` -/
def role_autoprofile : List Nat := [36]
/-- statements starting with `prof.runctx(` -/
def role_runctx : List Nat := [40, 41]
/-- statements starting with `execfile(setup_file` -/
def role_setup_exec : List Nat := [9]
/-- statements starting with `prof = line_profiler.LineProfiler()` -/
def role_make_line_profiler : List Nat := [12]
/-- statements starting with `prof = ContextualProfile()` -/
def role_make_cprofile : List Nat := [15]
/-- statements starting with `rt = RepeatedTimer` -/
def role_timer_start : List Nat := [30]
/-- statements starting with `rt.stop()` -/
def role_timer_stop : List Nat := [42]
/-- statements starting with `install_profiler(prof)` -/
def role_install : List Nat := [25]
/-- statements starting with `install_profiler(None)` -/
def role_uninstall : List Nat := [53]
/-- statements starting with `global_profiler_state = (global_profiler._profile, global_profiler.enabled)` -/
def role_save_global : List Nat := [24]
/-- statements starting with `global_profiler._profile, global_profiler.enabled = global_profiler_state` -/
def role_restore_global : List Nat := [54]
/-- statements starting with `sys.argv = ` -/
def role_set_argv : List Nat := [0]
/-- statements starting with `script_file = find_` -/
def role_find_script : List Nat := [16, 17]
/-- statements starting with `setup_file = find_script(` -/
def role_find_setup : List Nat := [4]
/-- statements starting with `lst[:] = old` -/
def role_restore_contents : List Nat := [64]
/-- statements starting with `exit: _restore_list(argv)` -/
def role_exit_restore_argv : List Nat := [61]
/-- statements starting with `exit: _restore_list(path)` -/
def role_exit_restore_path : List Nat := [59]
/-- statements starting with `sys.argv, sys.path = (argv, path)` -/
def role_rebind : List Nat := [57]
/-- statements starting with `_main(args)` -/
def role_call_main : List Nat := [56]
/-- statements starting with `exec(code_obj` -/
def role_ap_exec : List Nat := [104]
/-- statements starting with `enable_count = prof.enable_count` -/
def role_ap_save : List Nat := [103]
/-- statements starting with `while: prof.enable_count > enable_count: prof.disable_by_count()` -/
def role_ap_winddown : List Nat := [105]
/-- statements starting with `self.enable_by_count()` -/
def role_en : List Nat := [106]
/-- statements starting with `self.disable_by_count()` -/
def role_dis : List Nat := [108]
/-- statements starting with `yield` -/
def role_yield : List Nat := [63, 113]
/-- statements starting with `if: options.output_interval` -/
def role_if_interval : List Nat := [29]
/-- statements starting with `if: options.builtin` -/
def role_if_builtin : List Nat := [26]
/-- statements starting with `if: global_profiler` -/
def role_if_global : List Nat := [23]
/-- statements starting with `builtins.__dict__['profile'] = prof` -/
def role_kp_builtins_set : List Nat := [27, 70]
/-- statements starting with `builtins.__dict__['profile'] = profile` -/
def role_builtins_set : List Nat := [70]
/-- statements starting with `builtins.__dict__['profile'] = old_profile` -/
def role_builtins_restore : List Nat := [76]
/-- statements starting with `del builtins.__dict__['profile']` -/
def role_builtins_del : List Nat := [77]
/-- statements starting with `profile.runctx(arg_str` -/
def role_lprun_run : List Nat := [71]
/-- statements starting with `page(output)` -/
def role_lprun_page : List Nat := [82]
/-- statements starting with `profile.print_stats(` -/
def role_lprun_print_stats : List Nat := [79]
/-- statements starting with `profile.dump_stats(dump_file)` -/
def role_lprun_dump : List Nat := [86]
/-- statements starting with `pfile.write(output)` -/
def role_lprun_write : List Nat := [91]
/-- statements starting with `return_value = profile` -/
def role_lprun_return : List Nat := [96]

/-- the name table: leaf `i` of the skeletons above is the statement `skelNames[i]` (conditions are prefixed `if: `) -/
def skelNames : List String := [
  "sys.argv = [options.script] + options.args",
  "if: module",
  "sys.path.insert(0, os.path.abspath(os.curdir))",
  "if: options.setup is not None",
  "setup_file = find_script(options.setup)",
  "__file__ = setup_file",
  "__name__ = '__main__'",
  "sys.path.insert(1 if module else 0, os.path.dirname(setup_file))",
  "ns = locals()",
  "execfile(setup_file, ns, ns)",
  "if: options.line_by_line",
  "import line_profiler",
  "prof = line_profiler.LineProfiler()",
  "options.builtin = True",
  "if: Profile.__module__ == 'profile'",
  "prof = ContextualProfile()",
  "script_file = find_module_script(options.script)",
  "script_file = find_script(options.script)",
  "sys.path.insert(0, os.path.dirname(os.path.realpath(script_file)))",
  "__file__ = script_file",
  "global_profiler = line_profiler.profile",
  "install_profiler = global_profiler._kernprof_overwrite",
  "install_profiler = global_profiler = None",
  "if: global_profiler",
  "global_profiler_state = (global_profiler._profile, global_profiler.enabled)",
  "install_profiler(prof)",
  "if: options.builtin",
  "builtins.__dict__['profile'] = prof",
  "original_stdout = sys.stdout",
  "if: options.output_interval",
  "rt = RepeatedTimer(max(options.output_interval, 1), prof.dump_stats, options.outfile)",
  "execfile_ = execfile",
  "rmod_ = run_module",
  "if: options.prof_mod and options.line_by_line",
  "from line_profiler.autoprofile import autoprofile",
  "prof_mod = sum(([spec] if os.path.exists(spec) else spec.split(',') for spec in options.pr",
  "autoprofile.run(script_file, ns, prof_mod=prof_mod, profile_imports=options.prof_imports, ",
  "if: module and options.builtin",
  "run_module(options.script, ns, '__main__')",
  "execfile(script_file, ns, ns)",
  "prof.runctx(f'rmod_({options.script!r}, globals(), \"__main__\")', ns, ns)",
  "prof.runctx('execfile_(%r, globals())' % (script_file,), ns, ns)",
  "rt.stop()",
  "prof.dump_stats(options.outfile)",
  "print('Wrote profile results to %s' % options.outfile)",
  "if: options.view",
  "if: isinstance(prof, ContextualProfile)",
  "prof.print_stats()",
  "prof.print_stats(output_unit=options.unit, stripzeros=options.skip_zero, rich=options.rich",
  "print('Inspect results with:')",
  "py_exe = _python_command()",
  "print(f'{py_exe} -m pstats \"{options.outfile}\"')",
  "print(f'{py_exe} -m line_profiler -rmt \"{options.outfile}\"')",
  "install_profiler(None)",
  "global_profiler._profile, global_profiler.enabled = global_profiler_state",
  "argv, path = (sys.argv, sys.path)",
  "_main(args)",
  "sys.argv, sys.path = (argv, path)",
  "enter: _restore_list(path)",
  "exit: _restore_list(path)",
  "enter: _restore_list(argv)",
  "exit: _restore_list(argv)",
  "old = lst.copy()",
  "yield: yield",
  "lst[:] = old",
  "if: 'profile' in builtins.__dict__",
  "had_profile = True",
  "old_profile = builtins.__dict__['profile']",
  "had_profile = False",
  "old_profile = None",
  "builtins.__dict__['profile'] = profile",
  "profile.runctx(arg_str, global_ns, local_ns)",
  "message = ''",
  "message = '*** SystemExit exception caught in code being profiled.'",
  "message = '*** KeyboardInterrupt exception caught in code being profiled.'",
  "if: had_profile",
  "builtins.__dict__['profile'] = old_profile",
  "del builtins.__dict__['profile']",
  "stdout_trap = StringIO()",
  "profile.print_stats(stdout_trap, output_unit=output_unit, stripzeros='s' in opts)",
  "output = stdout_trap.getvalue()",
  "output = output.rstrip()",
  "page(output)",
  "print(message, end='')",
  "dump_file = opts.D[0]",
  "if: dump_file",
  "profile.dump_stats(dump_file)",
  "print(f'\\n*** Profile stats pickled to file {dump_file!r}. {message}')",
  "text_file = opts.T[0]",
  "if: text_file",
  "pfile = open(text_file, 'w')",
  "pfile.write(output)",
  "pfile.close()",
  "print(f'\\n*** Profile printout saved to text file {text_file!r}. {message}')",
  "return_value = None",
  "if: 'r' in opts",
  "return_value = profile",
  "Profiler = AstTreeModuleProfiler if as_module else AstTreeProfiler",
  "profiler = Profiler(script_file, prof_mod, profile_imports)",
  "tree_profiled = profiler.profile()",
  "prof = ns[PROFILER_LOCALS_NAME]",
  "_extend_line_profiler_for_profiling_imports(prof)",
  "code_obj = compile(tree_profiled, script_file, 'exec')",
  "enable_count = prof.enable_count",
  "exec(code_obj, ns, ns)",
  "while: prof.enable_count > enable_count: prof.disable_by_count()",
  "self.enable_by_count()",
  "exec(cmd, globals, locals)",
  "self.disable_by_count()",
  "func(*args, **kw)",
  "result = func(*args, **kwds)",
  "result = await func(*args, **kwds)",
  "item = method(input_)",
  "yield: input_ = (yield item)",
  "method = g.send",
  "method, input_ = (g.throw, e)",
  "item = await method(input_)",
  "method = g.asend",
  "method, input_ = (g.athrow, e)"]

end LPVerif.Generated
