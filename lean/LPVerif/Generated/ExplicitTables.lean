/-! Literal tables copied from line_profiler/explicit_profiler.py by tools/extract.py — regenerated on every run. -/
namespace LPVerif.Generated

/-- segment of an f-string file name: literal text, `{self.output_prefix}`, `{timestamp}` -/
inductive Seg | lit (s : String) | pfx | ts | other (s : String)
deriving DecidableEq, Repr

/-- explicit_profiler.py: `_FALSY_STRINGS` (sorted) -/
def falsyStrings : List String := ["", "0", "false", "no", "off"]

/-- `GlobalProfiler.__init__`: setup_config -/
def environFlags : List String := ["LINE_PROFILE"]
def cliFlags : List String := ["--line-profile", "--line_profile"]
def defaultOutputPrefix : String := "profile_output"
/-- write_config defaults (key, bool) and show_config defaults (key, int) -/
def writeConfigDefaults : List (String × Bool) := [("lprof", true), ("text", true), ("timestamped_text", true), ("stdout", true)]
def showConfigDefaults : List (String × Nat) := [("sort", 1), ("stripzeros", 1), ("rich", 1), ("details", 0), ("summarize", 1)]
/-- `GlobalProfiler.show`: (write_config key guarding it, file name written; [] = the report on stdout) in source order -/
def showTable : List (String × List Seg) := [("stdout", []), ("text", [.pfx, .lit ".txt"]), ("timestamped_text", [.pfx, .lit "_", .ts, .lit ".txt"]), ("lprof", [.pfx, .lit ".lprof"])]

end LPVerif.Generated
