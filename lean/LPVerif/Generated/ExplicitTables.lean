/-! Literal tables copied from line_profiler/explicit_profiler.py by tools/extract.py — regenerated on every run. -/
namespace LPVerif.Generated

/-- explicit_profiler.py: `_FALSY_STRINGS` (sorted) -/
def falsyStrings : List String := ["", "0", "false", "no", "off"]

end LPVerif.Generated
