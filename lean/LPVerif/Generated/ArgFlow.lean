import LPVerif.Model.ArgFlow
/-! The statements of `kernprof.main` / `kernprof._main` that write the command line's names, in source order — emitted by
    tools/extract.py from the tree, regenerated on every run. -/
namespace LPVerif.Generated
open LPVerif.ArgFlow

def kernprofArgFlow : List Stmt := [.callMain, .defaultArgs, .preParse, .parseArgs, .appendPost, .scriptFromModule, .defaultOutfile, .setArgv]

/-- source lines of the statements (for the reader) -/
def kernprofArgFlowLines : List Nat := [353, 373, 378, 435, 444, 445, 448, 452]

end LPVerif.Generated
