import LPVerif.Prelude
/-! Transliteration emitted by tools/extract.py from the tree — regenerated on every run. -/
namespace LPVerif.Generated
open LPVerif.Py

-- generated from line_profiler/autoprofile/run_module.py:8 `get_module_from_importfrom` -- do not edit
-- component level: `module.split('.')` is the parameter `module_parts`, `'.'.join(x)` is `x`,
-- `node.module` (a dotted name or None) is one opaque component
def get_module_gen (level : Nat) (node_module : Option String) (module_parts : List String) : Except PyErr (List String) :=
  let level := level
  if (level = 0) then
    Except.ok (Option.toList node_module)
  else
    let chunks := (pyDropLastN module_parts level)
    if node_module.isSome then
      let chunks := chunks ++ Option.toList node_module
      Except.ok chunks
    else
      Except.ok chunks

end LPVerif.Generated
