import LPVerif.Lemmas.Callable
import LPVerif.Generated.WrapTables
/-!
# C16 — decorating any supported callable really profiles its code

Over `Model.Callable`: `add_callable` registers every underlying function, using the decorated object runs each of
them inside the profiler's enable/disable bracket, and decorating again changes nothing.  With C01 (hit counts are exact
while the profiler is enabled) this gives: the lines of the underlying functions appear with the exact number of
executions.
-/
namespace LPVerif.Props.C16
open LPVerif.Callable

/-- **C16 (registered).**  For a tower over plain functions (any depth, any mix of classmethod / staticmethod / bound /
    partial / partialmethod / property with any of its accessors / cached_property), `add_callable` registers exactly
    the function objects at the leaves. -/
theorem underlying_registered (p : Nat) (c : C) (h : plainTower c = true) : registered p c = leaves c := by
  unfold registered
  rw [underlying_plain c h]
  apply List.filter_eq_self.mpr
  intro f hf
  simp [leaves_not_wrapper p c f hf]

/-- **C16 (really profiled).**  Whatever is done with the decorated object, every underlying function that runs does
    so with the profiler's bracket open (depth ≥ 1 when entered at depth 0). -/
theorem runs_under_profiler (p : Nat) (c : C) (a : Access) :
    ∀ ev ∈ invoke p (wrap p c) a 0, ∀ f args dep, ev = .run f args dep → 1 ≤ dep := by
  have := wrap_covered p c a 0
  simpa [DepthGE] using this

/-- … and under exactly one bracket when the object carried no wrapper of this profiler before -/
theorem every_path_wrapped_once (p : Nat) (c : C) (a : Access) (h : raw p c = true) :
    ∀ ev ∈ invoke p (wrap p c) a 0, ∀ f args dep, ev = .run f args dep → dep = 1 := by
  have := wrap_once p c a 0 h
  simpa [DepthEQ] using this

/-- **C16 (idempotent).**  Decorating the result again gives the same tower: no second wrapper layer … -/
theorem wrap_idempotent (p : Nat) (c : C) : wrap p (wrap p c) = wrap p c := wrap_wrap p c

/-- … and registers nothing again (so nothing is double-counted) -/
theorem redecorate_registers_nothing (p : Nat) (c : C) : registered p (wrap p c) = [] := by
  unfold registered
  apply List.filter_eq_nil_iff.mpr
  intro f hf
  simp [underlying_wrap_wrappers p c f hf]

/-- the groups of `_get_underlying_functions` the model's `underlying` transcribes -/
theorem underlying_groups :
    Generated.underlyingGroups.take 3 =
      [("is_boundmethod,is_classmethod,is_staticmethod", "func.__func__"),
       ("is_partial,is_partialmethod,is_cached_property", "func.func"),
       ("is_property", "(func.fget, func.fset, func.fdel)")] := by decide

/-- non-vacuity: a classmethod over a partial over a generator function, and a write-only property -/
example : plainTower (.classm (.partial_ (.fn 7 .gen) [1])) = true ∧
    registered 3 (.classm (.partial_ (.fn 7 .gen) [1])) = [.fn 7 .gen] ∧
    invoke 3 (wrap 3 (.classm (.partial_ (.fn 7 .gen) [1]))) (.call [9]) 0 = [.run 7 [1, 0, 9] 1] := by
  refine ⟨rfl, rfl, rfl⟩
example : invoke 3 (wrap 3 (.prop .none (.some (.fn 2 .plain)) .none 0 0)) (.set 5 6) 0 = [.run 2 [5, 6] 1] ∧
    invoke 3 (wrap 3 (.prop .none (.some (.fn 2 .plain)) .none 0 0)) (.get 5) 0 = [.err] := ⟨rfl, rfl⟩

end LPVerif.Props.C16
