import LPVerif.Model.Argv
import LPVerif.Bridge.RelImport
/-!
# C17 — relative imports in a profiled module resolve as Python resolves them

`resolveRel` is `run_module.get_module_from_importfrom` on component lists; `pyResolve` transcribes
`importlib._bootstrap._resolve_name`; `package` is the `__package__` of the file named with its full dotted
name (`hide_init=False, hide_main=False`, as `AstTreeModuleProfiler` calls `modpath_to_modname`).
-/
namespace LPVerif.Props.C17
open LPVerif.Argv

/-- **resolve_eq_python**: for every module name, every level valid at that position and every target -/
theorem resolve_eq_python (modname target : List String) (level : Nat)
    (h1 : 1 ≤ level) (h2 : level ≤ modname.length - 1) :
    resolveRel modname level target = pyResolve (package modname) level target := by
  unfold resolveRel pyResolve package
  congr 1
  rw [List.dropLast_eq_take, List.take_take]
  congr 1
  simp only [List.length_take]
  omega

/-- the resolved name keeps the target segments as its suffix and a prefix of the module's own name as its
    prefix: nothing else is touched -/
theorem resolve_shape (modname target : List String) (level : Nat) :
    ∃ pre, pre <+: modname ∧ resolveRel modname level target = pre ++ target :=
  ⟨modname.take (modname.length - level), List.take_prefix _ _, rfl⟩

/-- level 1 from `pkg.sub.mod` is `pkg.sub` (non-vacuity; also for `__init__` / `__main__` files) -/
theorem example_levels :
    resolveRel ["pkg", "sub", "mod"] 1 ["x"] = ["pkg", "sub", "x"] ∧
    resolveRel ["pkg", "sub", "__init__"] 2 [] = ["pkg"] ∧
    resolveRel ["pkg", "sub", "__main__"] 1 ["a", "b"] = ["pkg", "sub", "a", "b"] ∧
    pyResolve (package ["pkg", "sub", "__main__"]) 1 ["a", "b"] = ["pkg", "sub", "a", "b"] := by decide

/-- the emitted `get_module_from_importfrom` is the model (re-export of the bridge) -/
theorem emitted_is_model (level : Nat) (nodeModule : Option String) (chunks : List String) (hl : level ≠ 0) :
    LPVerif.Generated.get_module_gen level nodeModule chunks
      = .ok (resolveRel chunks level (match nodeModule with | some m => [m] | none => [])) :=
  LPVerif.Bridge.rel_gen_eq_model level nodeModule chunks hl

end LPVerif.Props.C17
