import LPVerif.Lemmas.Report
/-!
# C10 — the text report shows every recorded number at the right source line

Over `Model.Report` (layout of `show_func` / `show_text`); cell strings rendered by CPython are inputs.
-/
namespace LPVerif.Props.C10
open LPVerif.Report

/-- the column sizes the model reads from the table regenerated from `show_func` -/
theorem default_sizes : defaults.line = 6 ∧ defaults.hits = 9 ∧ defaults.time = 12 ∧ defaults.perhit = 8 ∧ defaults.percent = 8 := by
  decide +kernel

/-- **C10 (rows).**  The table of a function has one row per line of its source block; row `i` carries line number
    `start + i`, the text of that line of the file, and the cells of the entry recorded for that line … -/
theorem rows_complete (cands : List Cand) (w : Widths) (start : Nat) (block : List Txt) (i : Nat) (hi : i < block.length) :
    (rowsFrom cands w start block).length = block.length ∧
    (rowsFrom cands w start block)[i]? = some (rowText w (natTxt (start + i)) (displayGet cands (start + i)) block[i]) :=
  ⟨rowsFrom_length cands w start block, rowsFrom_get cands w start block i hi⟩

/-- … which is exactly that entry when line numbers are unique (C12), and blank cells when nothing was recorded: every
    recorded line inside the block appears on exactly one row, the row of its own line number. -/
theorem recorded_line_on_its_row (cands : List Cand) (c : Cand) (hc : c ∈ cands) (hn : (cands.map (·.line)).Nodup) :
    displayGet cands c.line = cellsOf c := displayGet_of_mem cands c hc hn

theorem unrecorded_line_blank (cands : List Cand) (l : Nat) (h : ∀ c ∈ cands, c.line ≠ l) :
    displayGet cands l = Cells.empty := displayGet_of_not_mem cands l h

/-- **C10 (hits exact up to nine digits).** -/
theorem hits_cell_exact (c : Cand) (hd : c.hitsD = natTxt c.hits) (h : c.hits < 10 ^ 9) : (cellsOf c).hits = natTxt c.hits := by
  have hlen : c.hitsD.length ≤ 9 := by rw [hd]; exact natTxt_length_le c.hits 9 (by decide) h
  have h9 : defaults.hits = 9 := default_sizes.2.1
  simp only [cellsOf, h9]
  rw [if_neg (by omega), hd]

/-- every displayed cell of a recorded line fits its column, so the left part of every row has the same width and the
    cells can be read back by position -/
theorem cells_fit (cands : List Cand) (c : Cand) (hc : c ∈ cands) :
    (cellsOf c).hits.length ≤ (widthsOf cands).hits ∧ (cellsOf c).time.length ≤ (widthsOf cands).time ∧
    (cellsOf c).perhit.length ≤ (widthsOf cands).perhit := by
  refine ⟨?_, ?_, ?_⟩
  · exact Nat.le_trans (le_maxLen _ _ (List.mem_map.mpr ⟨cellsOf c, List.mem_map.mpr ⟨c, hc, rfl⟩, rfl⟩)) (Nat.le_max_right _ _)
  · exact Nat.le_trans (le_maxLen _ _ (List.mem_map.mpr ⟨cellsOf c, List.mem_map.mpr ⟨c, hc, rfl⟩, rfl⟩)) (Nat.le_max_right _ _)
  · exact Nat.le_trans (le_maxLen _ _ (List.mem_map.mpr ⟨cellsOf c, List.mem_map.mpr ⟨c, hc, rfl⟩, rfl⟩)) (Nat.le_max_right _ _)

theorem lhs_fixed_width (w : Widths) (lineno : Txt) (c : Cells)
    (h0 : lineno.length ≤ w.line) (h1 : c.hits.length ≤ w.hits) (h2 : c.time.length ≤ w.time) (h3 : c.perhit.length ≤ w.perhit)
    (h4 : c.percent.length ≤ w.percent) :
    (lhs w lineno c).length = w.line + w.hits + w.time + w.perhit + w.percent + 4 := by
  simp only [lhs, List.length_append, rjust_length, List.length_cons, List.length_nil]
  omega

/-- **C10 (every function once).**  Whatever the options, the functions are listed in a permutation of the input … -/
theorem order_perm (o : Opts) (fs : List Func) : (order o fs).Perm fs := by
  unfold order
  split <;> exact sortBy_perm _ fs

/-- … and `sort` orders them by total time, ascending -/
theorem sorted_by_time (o : Opts) (fs : List Func) (h : o.sort = true) :
    (order o fs).Pairwise (fun a b => a.totalTime ≤ b.totalTime) := by
  unfold order
  rw [if_pos h]
  exact sortBy_sorted Func.totalTime fs

/-- **C10 (skip-zero).**  With `stripzeros` a function is left out of the details exactly when it has no hits, and out
    of the summary under exactly the same condition; without it nothing is left out. -/
theorem skipzero_exact (o : Opts) (f : Func) :
    (inDetails o f = false ↔ (o.stripzeros = true ∧ f.totalHits = 0)) ∧ inSummary o f = inDetails o f ∧
    (showFunc o.stripzeros f = [] ↔ (o.stripzeros = true ∧ f.totalHits = 0)) := by
  refine ⟨?_, ?_, ?_⟩
  · simp [inDetails]
  · simp only [inSummary, inDetails]
    cases o.stripzeros <;> cases h : (f.totalHits == 0) <;> simp_all
  · unfold showFunc
    by_cases hs : (o.stripzeros && f.totalHits == 0) = true
    · simp only [hs, if_true, true_iff]
      simpa using hs
    · simp only [hs]
      constructor
      · intro h
        exfalso
        have := congrArg List.length h
        simp [nl, str] at this
      · intro h
        exfalso; apply hs; simp [h.1, h.2]

/-- **F-C10a** (repaired): the pinned tree hid a function from the summary by total *time*, not by hits -/
def fastFunc : Func :=
  { fn := "m.py", start := 1, name := "f", cands := [⟨2, 5, 0, [], [], [], [], [], [], []⟩], totalTimeTxt := [], summaryTxt := [],
    fileExists := true, block := [] }
theorem pinned_summary_differs :
    inSummaryPinned ⟨true, true, true, false⟩ fastFunc ≠ inDetails ⟨true, true, true, false⟩ fastFunc := by decide

/-- **C10 (summarize).**  The summary has one line per listed function — as many as there are functions to list -/
theorem summary_once (o : Opts) (fs : List Func) :
    ((order o fs).filter (inSummary o)).length = (fs.filter (inSummary o)).length :=
  ((order_perm o fs).filter _).length_eq

/-- the formats and conditions of the source the model relies on (regenerated on every run) -/
theorem source_tables :
    Generated.showFuncFormats = ["Total time: %g s\n", "%5.1f", "%5.1f", "%5.3g", "%5.1f", "%5.3g", "%d", "%g"] ∧
    Generated.showTextFormats = ["Timer unit: %g s\n\n", "Timer unit: %g s\n\n", "%6.2f seconds - %s:%s - %s\n"] ∧
    Generated.stripConditions = [("show_func", "stripzeros and total_hits == 0"), ("show_text", "not stripzeros or total_hits")] ∧
    Generated.reportColOrder = ["line", "hits", "time", "perhit", "percent"] ∧
    Generated.reportHeader = ["Line #", "Hits", "Time", "Per Hit", "% Time", "Line Contents"] ∧
    Generated.rowNumbering.getLast? = some "linenos = range(start_lineno, start_lineno + len(sublines))" := by decide +kernel

end LPVerif.Props.C10
