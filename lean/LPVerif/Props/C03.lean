import LPVerif.Lemmas.Gen
import LPVerif.Lemmas.Callable
import LPVerif.Generated.WrapTables
import LPVerif.Lemmas.Prof
/-!
# C03 — decorating a callable never changes what it does

* generator / async-generator wrapper: `wrapGenerator_bisim` — for every body and every sequence of
  `next/send/throw/close` the wrapper object is observed exactly like the wrapped one (values yielded, values sent
  in, exceptions thrown in, close, final return value);  `pinned_wrapper_not_transparent` is the witness for the
  wrapper of the pinned tree (findings F-C03a/b, repaired in c4c5918);
* coroutine wrapper: `wrapCoroutine_transparent_partial` — the same for `await`-delegation, for bodies that do not
  answer `GeneratorExit` with another await and for histories without an explicit `throw(GeneratorExit)`: beyond
  that `await` itself (PEP 380) differs, whoever uses it;
* every wrapper step brackets the single call into the wrapped object by enable / disable (`wrap_step_brackets`);
* descriptor / partial towers of any depth: `wrapCallable_transparent` (same underlying functions run, with the
  same arguments, in the same order, same failures), `wrapCallable_shape` (the tower, `doc`, `name`, `attrname`,
  bound `self`, partial arguments are untouched: only function wrappers were added), `kind_preserved`;
* registration only appends NOPs (`register_inert`); enabling never raises, whoever owns the tool id
  (`enable_never_raises`, repaired in d03f227).
-/
namespace LPVerif.Props.C03
open LPVerif.Gen LPVerif.Callable

/-- **C03 (generators, async generators).** -/
theorem wrapGenerator_bisim {σ} (b : Body σ) (ops : List Op) :
    runOps .gen (wrapGen b) .fresh ops = runOps .gen b .fresh ops :=
  wrap_bisim .gen b ops _ _ Sim.fresh

/-- the same for async generators (`asend / athrow / aclose` as atomic steps; a finished async generator answers
    `athrow` differently from a finished generator — `Flavor.agen`) -/
theorem wrapAsyncGen_bisim {σ} (b : Body σ) (ops : List Op) :
    runOps .agen (wrapGen b) .fresh ops = runOps .agen b .fresh ops :=
  wrap_bisim .agen b ops _ _ Sim.fresh

/-- **C03 (coroutines)**, partial: see the module comment for what is excluded and why. -/
theorem wrapCoroutine_transparent_partial {σ} (b : Body σ) (hc : Compliant b) (ops : List Op)
    (hops : ∀ op ∈ ops, op ≠ .throw .genExit) :
    runOps .coro (delegate b) .fresh ops = runOps .coro b .fresh ops :=
  delegate_bisim b hc ops hops _ _ Sim.fresh

/-- every resumption of the wrapper enables, calls into the wrapped generator once, and disables (the `finally`) —
    so the enable count at each suspension and at the end is what it was before -/
theorem wrap_step_brackets {σ} (b : Body σ) (w : W σ) (r : Resume) : (wrapGenStep b w r).2 = [.en, .dis] := by
  cases w with
  | w0 => rfl
  | wY g => cases r <;> rfl

/-! ### witnesses -/

/-- a generator that yields, catches a thrown exception, and returns a value -/
def demo : List Row :=
  [⟨.yieldC 1 1, .reraise, .reraise⟩,
   ⟨.yieldC 2 2, .yieldC 99 2, .reraise⟩,
   ⟨.ret (some 42), .reraise, .reraise⟩]

example : runOps .gen (scriptBody demo) .fresh [.send none, .throw (.user 7), .send none]
    = [.yielded 1, .yielded 99, .stop (some 42)] := by decide
example : runOps .gen (wrapGen (scriptBody demo)) .fresh [.send none, .throw (.user 7), .send none]
    = [.yielded 1, .yielded 99, .stop (some 42)] := by decide

/-- the wrapper of the pinned tree was *not* transparent (F-C03a: return value dropped; F-C03b: `throw` not forwarded) -/
theorem pinned_wrapper_not_transparent :
    ∃ ops, runOps .gen (wrapGenPinned (scriptBody demo)) .fresh ops ≠ runOps .gen (scriptBody demo) .fresh ops :=
  ⟨[.send none, .throw (.user 7), .send none], by decide⟩

/-- `await` itself is not transparent for an explicit `throw(GeneratorExit)` that the body answers with a value:
    the excluded point of `wrapCoroutine_transparent_partial` is real -/
def catcher : List Row := [⟨.yieldC 1 1, .reraise, .reraise⟩, ⟨.ret none, .reraise, .ret (some 5)⟩]
theorem delegate_differs_on_explicit_genExit :
    runOps .coro (delegate (scriptBody catcher)) .fresh [.send none, .throw .genExit]
      ≠ runOps .coro (scriptBody catcher) .fresh [.send none, .throw .genExit] := by decide

/-! ### towers of descriptors and partials -/

/-- **C03 (descriptor behaviour).**  Using the decorated object — calling it, or getting / setting / deleting through
    it — runs the same underlying functions with the same arguments in the same order and fails in the same places,
    for every tower, at any nesting depth. -/
theorem wrapCallable_transparent (p : Nat) (c : C) (a : Access) (d : Nat) :
    observable (invoke p (wrap p c) a d) = observable (invoke p c a d) :=
  observable_wrap p c a d

/-- only function wrappers of `p` were added: descriptor kinds, `doc`, `name`, `attrname`, bound `self` and partial
    arguments are those of the original -/
theorem wrapCallable_shape (p : Nat) (c : C) : erase p (wrap p c) = erase p c := erase_wrap p c

/-- the function kind (`inspect.is{generator,coroutine,asyncgen}function`) survives -/
theorem kind_preserved (p : Nat) (id : Nat) (k : Kind) : kindOf (wrap p (.fn id k)) = some k := rfl

/-- a property with a gap (getter and deleter, no setter) keeps every accessor in its slot -/
example : wrap 1 (.prop (.some (.fn 1 .plain)) .none (.some (.fn 3 .plain)) 0 0)
    = .prop (.some (.wrapper 1 (.fn 1 .plain))) .none (.some (.wrapper 1 (.fn 3 .plain))) 0 0 := by
  simp [wrap, wrapO]

/-! ### tables of the source the model relies on -/

/-- descriptor and partial kinds are tested before the function kinds, `wrap_function` is the fallback -/
theorem dispatch_order :
    Generated.wrapDispatch =
      [("is_classmethod", "wrap_classmethod"), ("is_staticmethod", "wrap_staticmethod"), ("is_boundmethod", "wrap_boundmethod"),
       ("is_partialmethod", "wrap_partialmethod"), ("is_partial", "wrap_partial"), ("is_property", "wrap_property"),
       ("is_cached_property", "wrap_cached_property"), ("is_async_generator", "wrap_async_generator"),
       ("is_coroutine", "wrap_coroutine"), ("is_generator", "wrap_generator"), ("else", "wrap_function")] := by decide

/-- which attributes are re-wrapped and which are carried over when a descriptor / partial is rebuilt -/
theorem impl_table :
    Generated.wrapImplTable =
      [("wrap_boundmethod", "('__func__',)", "('__self__',)", "None", "None"),
       ("wrap_cached_property", "('func',)", "None", "None", "'attrname'"),
       ("wrap_classmethod", "('__func__',)", "None", "None", "None"),
       ("wrap_partial", "('func',)", "'args'", "'keywords'", "None"),
       ("wrap_partialmethod", "('func',)", "'args'", "'keywords'", "None"),
       ("wrap_property", "('fget', 'fset', 'fdel')", "None", "{'doc': '__doc__'}", "'__name__'"),
       ("wrap_staticmethod", "('__func__',)", "None", "None", "None")] := by decide

/-! ### registration and enabling -/

/-- registering changes a function's bytecode only by appended NOPs (same base bytes, same label, same lines) -/
theorem register_inert (dupes : List (Core.Blk × Nat)) (codes : List Prof.Code) (code : Prof.Code) :
    (Prof.padStep dupes codes code).1.blk.base = code.blk.base ∧ (Prof.padStep dupes codes code).1.label = code.label ∧
    (Prof.padStep dupes codes code).1.lines = code.lines ∧ code.blk.pad ≤ (Prof.padStep dupes codes code).1.blk.pad := by
  unfold Prof.padStep
  split
  · refine ⟨rfl, rfl, rfl, ?_⟩
    exact Nat.le_trans (Nat.le_add_right _ _) (Prof.findFree_ge _ _ _ _)
  · split
    · refine ⟨rfl, rfl, rfl, ?_⟩
      exact Nat.le_trans (Nat.le_add_right _ _) (Prof.findFree_ge _ _ _ _)
    · simp

/-- enabling never raises, in any state (tool id free, held by this profiler, or — outside this model — by another) -/
theorem enable_never_raises (s : Prof.St) (t : Nat) : ∃ s', s.enableByCount t = .ok s' := by
  unfold Prof.St.enableByCount Prof.St.enable
  split <;> exact ⟨_, rfl⟩

end LPVerif.Props.C03
