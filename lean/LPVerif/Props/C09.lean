import LPVerif.Model.Select
import LPVerif.Lemmas.FS
/-!
# C09 — auto-profiling profiles exactly what was asked for

* `match_sound` — an import gets a registration call only if its real dotted name, or that name without its last
  component, *equals* a selected name (component by component); consequently a selected name is always a dotted prefix
  of what it matches (`match_prefix`) and look-alikes (`pkg` vs `pkgx`, `pk`) are never matched (`lookalike_unmatched`);
* `match_complete_partial` — a top-level import is matched **provided** its name or its parent is among the names to
  profile; `names_cover` discharges the proviso for everything below a selected package: since the
  repair of F-C09b the names of its regular sub-packages are among the names too (`deep_subpackage_repaired`; before:
  `deep_subpackage_before`);
* `walk_names`, `walk_pkg_names` — the names added for a selected package are exactly those of the module files of the package
  and its regular sub-packages (C18's `walk_exact`) and of those sub-packages themselves;
* `register_sound_partial` — registering a module registers only functions defined in that module **provided** its
  namespace holds nothing defined elsewhere; `foreign_witness` (F-C09a); `methods_witness` (F-C09c: static / class methods
  and properties of a selected class or module are not registered);
* that every definition of a selected *script* gets the decorator exactly once is C08's `decorator_on_every_def`.
-/
namespace LPVerif.Props.C09
open LPVerif.Select

/-- every entry of the result comes from an import that `selects` -/
theorem matchGo_mem (M : List Name) (imps : List Imp) (added : List Name) (acc : List (Nat × String)) (p : Nat × String)
    (hp : p ∈ matchGo M imps added acc) : p ∈ acc ∨ ∃ i ∈ imps, selects M i.name = true ∧ p = (i.idx, i.alias) := by
  induction imps generalizing added acc with
  | nil => left; simpa [matchGo] using hp
  | cons i r ih =>
    unfold matchGo at hp
    split at hp
    · rcases ih _ _ hp with h | ⟨j, hj, hs, he⟩
      · left; exact h
      · right; exact ⟨j, by simp [hj], hs, he⟩
    · split at hp
      · rename_i hsel
        rcases ih _ _ hp with h | ⟨j, hj, hs, he⟩
        · simp only [List.mem_append, List.mem_singleton] at h
          rcases h with h | h
          · left; exact h
          · right; exact ⟨i, by simp, hsel, h⟩
        · right; exact ⟨j, by simp [hj], hs, he⟩
      · rcases ih _ _ hp with h | ⟨j, hj, hs, he⟩
        · left; exact h
        · right; exact ⟨j, by simp [hj], hs, he⟩

/-- **C09 (soundness of matching).** -/
theorem match_sound (M : List Name) (imps : List Imp) (p : Nat × String) (hp : p ∈ matchImports M imps) :
    ∃ i ∈ imps, p = (i.idx, i.alias) ∧ (i.name ∈ M ∨ parent i.name ∈ M) := by
  rcases matchGo_mem M imps [] [] p hp with h | ⟨i, hi, hs, he⟩
  · simp at h
  · refine ⟨i, hi, he, ?_⟩
    simp only [selects, Bool.or_eq_true, List.contains_iff_mem] at hs
    exact hs

theorem isPrefix_refl (n : Name) : isPrefix n n = true := by
  induction n with
  | nil => rfl
  | cons a r ih => simp [isPrefix, ih]

theorem isPrefix_dropLast (n : Name) : isPrefix n.dropLast n = true := by
  induction n with
  | nil => rfl
  | cons a r ih =>
    cases r with
    | nil => simp [isPrefix]
    | cons b r' => simp only [List.dropLast_cons₂, isPrefix, beq_self_eq_true, Bool.true_and]; exact ih

/-- a matched import lies under a selected name: the selection is a dotted prefix of the imported name -/
theorem match_prefix (M : List Name) (imps : List Imp) (p : Nat × String) (hp : p ∈ matchImports M imps) :
    ∃ i ∈ imps, p = (i.idx, i.alias) ∧ ∃ sel ∈ M, isPrefix sel i.name = true := by
  obtain ⟨i, hi, he, h | h⟩ := match_sound M imps p hp
  · exact ⟨i, hi, he, i.name, h, isPrefix_refl _⟩
  · exact ⟨i, hi, he, parent i.name, h, isPrefix_dropLast _⟩

/-- look-alike names are never matched: the comparison is on whole components -/
theorem lookalike_unmatched :
    matchImports [["pkg"]] [⟨["pkgx"], "pkgx", 0⟩, ⟨["pk"], "pk", 1⟩, ⟨["pkg_", "m"], "m", 2⟩, ⟨["pkgx", "pkg"], "pkg", 3⟩] = [] := by
  decide +kernel

/-- **C09 (completeness, partial).** A top-level import whose name — or whose parent — is among the names to profile,
    and which is the first import of that name, gets its registration call (after the import, under the alias). -/
theorem match_complete_partial (M : List Name) (pre : List Imp) (i : Imp) (post : List Imp)
    (hsel : i.name ∈ M ∨ parent i.name ∈ M) (hfirst : ∀ j ∈ pre, j.name ≠ i.name) :
    (i.idx, i.alias) ∈ matchImports M (pre ++ i :: post) := by
  unfold matchImports
  -- after `pre` the name has not been added
  have hpre : ∀ (added : List Name) (acc : List (Nat × String)), i.name ∉ added →
      ∃ added' acc', matchGo M (pre ++ i :: post) added acc = matchGo M (i :: post) added' acc' ∧ i.name ∉ added' := by
    induction pre with
    | nil => intro added acc h; exact ⟨added, acc, rfl, h⟩
    | cons j r ih =>
      intro added acc h
      have hj : j.name ≠ i.name := hfirst j (by simp)
      have ih' := ih (fun k hk => hfirst k (by simp [hk]))
      simp only [List.cons_append, matchGo]
      split
      · exact ih' added acc h
      · split
        · exact ih' _ _ (by simp [h, Ne.symm hj])
        · exact ih' added acc h
  obtain ⟨added', acc', heq, hna⟩ := hpre [] [] (by simp)
  rw [heq]
  have hs : selects M i.name = true := by
    simp only [selects, Bool.or_eq_true, List.contains_iff_mem]; exact hsel
  have hc : added'.contains i.name = false := by simpa using hna
  simp only [matchGo, hc, hs, if_true, Bool.false_eq_true, if_false]
  -- the entry survives the rest: the result only grows
  have hkeep : ∀ (rest : List Imp) (added : List Name) (acc : List (Nat × String)),
      (i.idx, i.alias) ∈ acc → (i.idx, i.alias) ∈ matchGo M rest added acc := by
    intro rest
    induction rest with
    | nil => intro added acc h; simpa [matchGo] using h
    | cons j r ih =>
      intro added acc h
      simp only [matchGo]
      split
      · exact ih _ _ h
      · split
        · exact ih _ _ (by simp [h])
        · exact ih _ _ h
  exact hkeep post _ _ (by simp)

/-- **F-C09b (repaired)**: selection `pkg`; `pkg/sub/deep/` is a package two levels below.  The names to profile now hold `pkg`,
    the module files `pkg.m`, `pkg.sub.n`, `pkg.sub.deep.x` *and* the sub-packages `pkg.sub`, `pkg.sub.deep`
    (`package_modpaths(…, with_pkg=True)`): `from pkg.sub import deep` and `import pkg.sub.deep` are matched.
    `deep_subpackage_before` is what the tree did before the repair. -/
def deepTree : FS.Entries :=
  .cons "__init__.py" .file (.cons "m.py" .file (.cons "sub" (.dir (.cons "__init__.py" .file (.cons "n.py" .file
    (.cons "deep" (.dir (.cons "__init__.py" .file (.cons "x.py" .file .nil))) .nil)))) .nil))
theorem deep_subpackage_repaired :
    namesToProfile ["pkg"] (FS.walk deepTree) (FS.walkPkgs deepTree)
      = [["pkg"], ["pkg", "m"], ["pkg", "sub", "n"], ["pkg", "sub", "deep", "x"], ["pkg", "sub"], ["pkg", "sub", "deep"]] ∧
    matchImports (namesToProfile ["pkg"] (FS.walk deepTree) (FS.walkPkgs deepTree)) [⟨["pkg", "sub", "deep"], "deep", 0⟩] = [(0, "deep")] := by
  decide +kernel
theorem deep_subpackage_before :
    matchImports (namesUnder ["pkg"] (FS.walk deepTree)) [⟨["pkg", "sub", "deep"], "deep", 0⟩] = [] ∧
    matchImports (namesUnder ["pkg"] (FS.walk deepTree)) [⟨["pkg", "sub", "n"], "n", 0⟩, ⟨["pkg", "m", "f"], "f", 1⟩, ⟨["pkg", "m", "g"], "g", 1⟩]
      = [(0, "n"), (1, "f"), (1, "g")] := by
  decide +kernel

/-- the names added for a selected package come from exactly the module files of the package and its regular sub-packages … -/
theorem walk_names (pkg : FS.Entries) (p : List String) : p ∈ FS.walk pkg ↔ (pkg.isPkg = true ∧ FS.InPkg pkg p) :=
  LPVerif.FS.mem_walkEntries pkg p |> fun h => by
    unfold FS.walk
    by_cases hp : pkg.isPkg = true
    · simp [hp, h]
    · simp [hp]

/-- … and from exactly the regular packages nested in regular packages below it -/
theorem walk_pkg_names (pkg : FS.Entries) (p : List String) : p ∈ FS.walkPkgs pkg ↔ (pkg.isPkg = true ∧ FS.SubPkg pkg p) :=
  LPVerif.FS.mem_walkPkgEntries pkg p |> fun h => by
    unfold FS.walkPkgs
    by_cases hp : pkg.isPkg = true
    · simp [hp, h]
    · simp [hp]

/-- **every module and every sub-package below a selected package is among the names to profile** (hence an import of it, or of
    something directly inside it, gets its registration call: `match_complete_partial`) -/
theorem names_cover (sel : Name) (pkg : FS.Entries) (hp : pkg.isPkg = true) :
    sel ∈ namesToProfile sel (FS.walk pkg) (FS.walkPkgs pkg) ∧
    (∀ p, FS.SubPkg pkg p → sel ++ p ∈ namesToProfile sel (FS.walk pkg) (FS.walkPkgs pkg)) := by
  refine ⟨by simp [namesToProfile, namesUnder], ?_⟩
  intro p hsub
  simp only [namesToProfile, List.mem_append, List.mem_map]
  exact Or.inr ⟨p, (walk_pkg_names pkg p).mpr ⟨hp, hsub⟩, rfl⟩

/-! ## run-time registration -/

theorem classFuncs_sub (members : List Member) : ∀ id ∈ classFuncs members, Member.func id ∈ members := by
  intro id h
  simp only [classFuncs, List.mem_filterMap] at h
  obtain ⟨m, hm, he⟩ := h
  cases m <;> simp at he
  subst he; exact hm

/-- **C09 (registration, partial).** Registering module `m` registers exactly its own functions, provided nothing in its
    namespace was defined elsewhere. -/
theorem register_sound_partial (nsOf : Nat → List Obj) (m : Nat) (h : NoForeign m (nsOf m)) :
    registerItem nsOf (.modRef m) = ownFuncs m (nsOf m) := by
  simp only [registerItem, addModule, ownFuncs]
  generalize nsOf m = ns at h
  induction ns with
  | nil => rfl
  | cons o r ih =>
    have ho := h o (by simp)
    have hr := ih (fun x hx => h x (by simp [hx]))
    simp only [List.flatMap_cons, hr]
    congr 1
    cases o with
    | func id d => simp only at ho; simp [ho]
    | cls d members => simp only at ho; simp [ho]
    | modRef k => rfl
    | other => rfl

/-- **F-C09a**: module 1 does `from other import foreign` (function 9 defined in module 2): registering module 1 registers it too -/
theorem foreign_witness :
    registerItem (fun _ => [.func 5 1, .func 9 2]) (.modRef 1) = [5, 9] ∧ ownFuncs 1 [.func 5 1, .func 9 2] = [5] := by decide

/-- **F-C09c**: static methods, class methods and properties of a selected class are not registered -/
theorem methods_witness :
    registerItem (fun _ => []) (.cls 1 [.func 1, .staticm 2, .classm 3, .prop 4]) = [1] := by decide

end LPVerif.Props.C09
