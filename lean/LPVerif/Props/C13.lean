import LPVerif.Lemmas.CoreExec
import LPVerif.Props.C01
/-!
# C13 — counts stay exact under concurrent threads and interleaved tasks

Per-thread / per-task event lists `E₁ … E_k`; `Interleave ls evs` says `evs` is *some* interleaving
of them.  Every interleaving delivers the same multiset of LINE events, so with the C01 invariant
the reported counts are the sum of what each thread or task executed, whatever the schedule.
-/
namespace LPVerif.Props.C13
open LPVerif.Core

/-- all interleavings of per-thread/task event lists -/
inductive Interleave : List (List Ev) → List Ev → Prop
  | done : Interleave [] []
  | dropNil (ls l) : Interleave ls l → Interleave ([] :: ls) l
  | take (e : Ev) (r : List Ev) (pre post : List (List Ev)) (l : List Ev) :
      Interleave (pre ++ r :: post) l → Interleave (pre ++ (e :: r) :: post) (e :: l)

theorem opened_interleave (regs) (b : Blk) (ln : Int) (ls : List (List Ev)) (evs : List Ev)
    (h : Interleave ls evs) : opened regs evs b ln = (ls.map (fun x => opened regs x b ln)).sum := by
  induction h with
  | done => simp [opened]
  | dropNil ls l _ ih =>
    have h0 : opened regs [] b ln = 0 := by simp [opened]
    simp only [List.map_cons, List.sum_cons, h0, ih]; omega
  | take e r pre post l _ ih =>
    rw [opened_cons, ih]
    simp only [List.map_append, List.map_cons, List.sum_append, List.sum_cons, opened_cons]
    omega

/-- **interleave_exact**: for any interleaving of the per-thread/task event lists, once nothing is
    pending the reported hits are the sum of what each thread or task executed -/
theorem interleave_exact (regs : List (Blk × Int)) (ls : List (List Ev)) (evs : List Ev)
    (hi : Interleave ls evs) (lines : List Int) (threads : List Nat) (b : Blk) (l : Int)
    (hl : ∀ c, (b, c) ∈ regs → c ∈ lines) (hln : lines.Nodup)
    (ht : ∀ e ∈ evs, e.t ∈ threads) (htn : threads.Nodup)
    (hq : pend (run (St.init regs) evs) threads b l = 0) :
    closed (run (St.init regs) evs) lines b l = (ls.map (fun x => opened regs x b l)).sum := by
  rw [LPVerif.Props.C01.hits_exact regs evs lines threads b l hl hln ht htn hq,
      opened_interleave regs b l ls evs hi]

/-- two interleavings of the same tasks report the same counts -/
theorem interleaving_independent (regs) (ls : List (List Ev)) (e1 e2 : List Ev)
    (h1 : Interleave ls e1) (h2 : Interleave ls e2) (b : Blk) (l : Int) :
    opened regs e1 b l = opened regs e2 b l := by
  rw [opened_interleave regs b l ls e1 h1, opened_interleave regs b l ls e2 h2]

/-- a suspension (yield / await) is a RETURN event: it empties the thread's slot for that code, so
    another task running the same code on the same thread starts from an empty slot — tasks never see
    each other's pending line -/
theorem suspension_empties_slot (s : St) (e : Ev) (h : (e.b, e.l) ∈ s.regs) (hr : e.isLine = false) :
    (cb s e).last e.t e.b = none := LPVerif.Props.C01.return_clears_slot s e h hr

/-- non-vacuity: two tasks `[L2, R2]` and `[L2, L3, R3]` of the same code, one interleaving -/
theorem example_interleaving :
    Interleave [[⟨0,1,⟨0,0⟩,2,true,0,0⟩, ⟨0,1,⟨0,0⟩,2,false,0,0⟩], [⟨0,2,⟨0,0⟩,2,true,0,0⟩]]
      [⟨0,2,⟨0,0⟩,2,true,0,0⟩, ⟨0,1,⟨0,0⟩,2,true,0,0⟩, ⟨0,1,⟨0,0⟩,2,false,0,0⟩] := by
  have h3 : Interleave [[], []] [] := .dropNil _ _ (.dropNil _ _ .done)
  have h2 : Interleave [[⟨0,1,⟨0,0⟩,2,false,0,0⟩], []] [⟨0,1,⟨0,0⟩,2,false,0,0⟩] :=
    .take _ [] [] [[]] [] h3
  have h1 : Interleave [[⟨0,1,⟨0,0⟩,2,true,0,0⟩, ⟨0,1,⟨0,0⟩,2,false,0,0⟩], []]
      [⟨0,1,⟨0,0⟩,2,true,0,0⟩, ⟨0,1,⟨0,0⟩,2,false,0,0⟩] := .take _ _ [] [[]] _ h2
  exact .take _ [] [[⟨0,1,⟨0,0⟩,2,true,0,0⟩, ⟨0,1,⟨0,0⟩,2,false,0,0⟩]] [] _ h1

/-! ## a thread that never enabled the profiler contributes nothing (profiler object level) -/
section never_enabled
open LPVerif.Prof

/-- does the operation (try to) install tracing in thread `t`? -/
def enablesThread (t : Nat) : Op → Bool
  | .enable t' => t' == t
  | .enableBC t' => t' == t
  | _ => false

theorem tracing_stays_off (s : Prof.St) (op : Op) (t : Nat) (h : s.tracing t = false) (hop : enablesThread t op = false) :
    (s.step op).tracing t = false := by
  cases op with
  | decl f code => exact h
  | add f =>
    simp only [Prof.St.step, Prof.St.addFunction]
    split
    · unfold Prof.St.addCode; simp only; exact h
    · exact h
  | enableBC t' =>
    have hne : ¬ t = t' := by
      intro e; subst e; simp [enablesThread] at hop
    simp only [Prof.St.step, Prof.St.enableByCount, Prof.St.enable]
    by_cases hc : s.count t' = 0
    · simp only [hc, if_true, Prof.St.setCount, hne, if_false]; exact h
    · simp only [hc, if_false, Prof.St.setCount]; exact h
  | disableBC t' =>
    simp only [Prof.St.step, Prof.St.disableByCount]
    split
    · split
      · simp only [Prof.St.disable, Prof.St.setCount]
        by_cases e : t = t'
        · simp [e]
        · simp only [e, if_false]; exact h
      · exact h
    · exact h
  | enable t' =>
    have hne : ¬ t = t' := by
      intro e; subst e; simp [enablesThread] at hop
    simp only [Prof.St.step, Prof.St.enable, hne, if_false]; exact h
  | disable t' =>
    simp only [Prof.St.step, Prof.St.disable]
    by_cases e : t = t'
    · simp [e]
    · simp only [e, if_false]; exact h
  | ev e =>
    simp only [Prof.St.step, Prof.St.event]
    split <;> exact h

/-- is the operation a trace event of thread `t`? -/
def isEventOf (t : Nat) : Op → Bool
  | .ev e => e.t == t
  | _ => false

/-- **a thread that never enabled the profiler contributes nothing**: whatever it executes — profiled code included, at any
    point of any history — the profiler ends in exactly the state it would have reached without that thread's events -/
theorem thread_never_enabled_inert (ops : List Op) (s : Prof.St) (t : Nat) (h : s.tracing t = false)
    (hops : ∀ op ∈ ops, enablesThread t op = false) :
    s.run ops = s.run (ops.filter (fun op => !isEventOf t op)) := by
  induction ops generalizing s with
  | nil => rfl
  | cons op r ih =>
    have hr : ∀ o ∈ r, enablesThread t o = false := fun o ho => hops o (List.mem_cons_of_mem _ ho)
    have hop := hops op (List.mem_cons_self ..)
    simp only [Prof.St.run, List.foldl_cons, List.filter_cons] at ih ⊢
    by_cases hev : isEventOf t op = true
    · -- an event of `t`: delivered nowhere
      cases op with
      | ev e =>
        have het : e.t = t := by simpa [isEventOf] using hev
        have hinert : s.step (.ev e) = s := LPVerif.Props.C01.untraced_inert s e (by rw [het]; exact h)
        simp only [hev, Bool.not_true, Bool.false_eq_true, if_false, hinert]
        exact ih s h hr
      | decl _ _ => simp [isEventOf] at hev
      | add _ => simp [isEventOf] at hev
      | enableBC _ => simp [isEventOf] at hev
      | disableBC _ => simp [isEventOf] at hev
      | enable _ => simp [isEventOf] at hev
      | disable _ => simp [isEventOf] at hev
    · have hev' : isEventOf t op = false := by simpa using hev
      simp only [hev', Bool.not_false, if_true, List.foldl_cons]
      exact ih (s.step op) (tracing_stays_off s op t h hop) hr

end never_enabled

end LPVerif.Props.C13
