import LPVerif.Lemmas.CoreExec
import LPVerif.Lemmas.Prof
/-!
# C12 — statistics only accumulate; taking a snapshot changes nothing
-/
namespace LPVerif.Props.C12
open LPVerif.Core

/-- every stored hit count only grows, one callback invocation -/
theorem hits_monotone_step (s : St) (e : Ev) (b : Blk) (c o : Int) : s.hits b c o ≤ (cb s e).hits b c o := by
  unfold cb
  split
  · simp only [setLast_hits]
    unfold St.closePending St.bump
    split
    · simp only; split <;> omega
    · exact Nat.le_refl _
  · exact Nat.le_refl _

/-- … and over any event list -/
theorem hits_monotone (evs : List Ev) (s : St) (b : Blk) (c o : Int) : s.hits b c o ≤ (run s evs).hits b c o := by
  induction evs generalizing s with
  | nil => exact Nat.le_refl _
  | cons e r ih => exact Nat.le_trans (hits_monotone_step s e b c o) (ih (cb s e))

end LPVerif.Props.C12

/-! ## at the level of `get_stats` (`Model.Prof`): what a snapshot contains, and how two snapshots relate

`St.getStats` is a *function* of the profiler state — the model has no snapshot operation that could change the state,
and K12 checks that the real `get_stats()` behaves like that function (snapshots interleaved anywhere in a history,
repeated snapshots identical).  The theorems below are about *every* history `ops` of registrations (repeated or not),
enables, disables, by-count calls and trace events, from *every* state. -/
namespace LPVerif.Props.C12
open LPVerif.Core LPVerif.Prof

/-- what `get_stats` reports under label `lab` in state `s` -/
def snapshot (s : Prof.St) (lab : Nat) : List (Int × Nat × Int) := labelEntries s.core.abs s.chm lab

theorem getStats_eq (s : Prof.St) : s.getStats = (labelsOf s.chm).map fun lab => (lab, snapshot s lab) := rfl

/-- entries are sorted by line -/
theorem snapshot_sorted (s : Prof.St) (lab : Nat) : (snapshot s lab).Pairwise (fun a b => a.1 ≤ b.1) :=
  entries_sorted s.view lab

/-- … unique per line -/
theorem snapshot_unique (s : Prof.St) (lab : Nat) : ((snapshot s lab).map (·.1)).Nodup :=
  entries_nodup s.view lab

/-- sorted and unique: strictly increasing line numbers -/
theorem snapshot_strict (s : Prof.St) (lab : Nat) : (snapshot s lab).Pairwise (fun a b => a.1 < b.1) := by
  have h1 := snapshot_sorted s lab
  have h2 := snapshot_unique s lab
  generalize snapshot s lab = l at h1 h2
  induction l with
  | nil => exact List.Pairwise.nil
  | cons x r ih =>
    have a1 := List.pairwise_cons.mp h1
    simp only [List.map_cons, List.nodup_cons] at h2
    refine List.pairwise_cons.mpr ⟨?_, ih a1.2 h2.2⟩
    intro y hy
    have hne : x.1 ≠ y.1 := fun he => h2.1 (List.mem_map.mpr ⟨y, hy, he.symm⟩)
    have := a1.1 y hy
    omega

/-- … with at least one hit, on a line that is registered for a code object of that label -/
theorem snapshot_entry (s : Prof.St) (lab : Nat) (e : Int × Nat × Int) (he : e ∈ snapshot s lab) :
    e.2.1 ≥ 1 ∧ ∃ c ∈ s.chm.map Prod.fst, c.label = lab ∧ (c.blk, e.1) ∈ s.core.abs.regs := by
  obtain ⟨hc, h1, _, _⟩ := (mem_entries s.view lab e).mp he
  exact ⟨h1, (mem_cands s.view lab e.1).mp hc⟩

/-- **no recorded data disappears and hits never decrease**: after any history, every entry of the earlier snapshot
    is still there, on the same line, with at least as many hits -/
theorem snapshot_monotone (s : Prof.St) (ops : List Op) (lab : Nat) (e : Int × Nat × Int) (he : e ∈ snapshot s lab) :
    ∃ e' ∈ snapshot (s.run ops) lab, e'.1 = e.1 ∧ e.2.1 ≤ e'.2.1 :=
  entry_persists (run_grows ops s) lab e he

/-- the same for whole results of `get_stats`: labels stay, entries stay, hits do not decrease -/
theorem getStats_monotone (s : Prof.St) (ops : List Op) (lab : Nat) (es : List (Int × Nat × Int))
    (h : (lab, es) ∈ s.getStats) :
    ∃ es', (lab, es') ∈ (s.run ops).getStats ∧ ∀ e ∈ es, ∃ e' ∈ es', e'.1 = e.1 ∧ e.2.1 ≤ e'.2.1 := by
  rw [getStats_eq, List.mem_map] at h
  obtain ⟨lab', hl, heq⟩ := h
  cases heq
  refine ⟨snapshot (s.run ops) lab, ?_, fun e he => snapshot_monotone s ops lab e he⟩
  rw [getStats_eq, List.mem_map]
  exact ⟨lab, labels_mono (run_grows ops s) lab hl, rfl⟩

/-- **within the source span**: in every state reachable from a fresh profiler, a reported line is a line of an instruction of a
    registered code object with the bytecode the entry was recorded for (its `co_lines`, NOP padding included) -/
theorem snapshot_within_span (ops : List Op) (lab : Nat) (e : Int × Nat × Int)
    (he : e ∈ snapshot (Prof.St.init.run ops) lab) :
    ∃ c ∈ (Prof.St.init.run ops).chm.map Prod.fst, c.label = lab ∧
      ∃ c' ∈ (Prof.St.init.run ops).chm.map Prod.fst, c'.blk = c.blk ∧ e.1 ∈ c'.allLines := by
  obtain ⟨_, c, hc, hl, hr⟩ := snapshot_entry _ lab e he
  obtain ⟨c', hc', hb, hin⟩ := run_spanned ops Prof.St.init init_spanned _ hr
  exact ⟨c, hc, hl, c', hc', hb, hin⟩

/-- non-vacuity: the snapshot function on a callback state with a recorded line (the hash-map form `ESt` does not
    reduce in the kernel, so the example is stated on `labelEntries` over the abstract state that `snapshot` reads) -/
example :
    let b : Blk := ⟨1, 0⟩
    let c : Code := ⟨b, 7, [10, 11]⟩
    let regs := [(b, (10 : Int)), (b, (11 : Int))]
    let core := Core.run (Core.St.init regs) [⟨0, 0, b, 10, true, 0, 1⟩, ⟨0, 0, b, 11, true, 5, 6⟩]
    let core' := Core.cb core ⟨0, 0, b, 10, true, 9, 10⟩
    labelEntries core [(c, regs)] 7 = [(10, 1, 4)] ∧ labelEntries core' [(c, regs)] 7 = [(10, 1, 4), (11, 1, 3)] := by
  decide +kernel

end LPVerif.Props.C12
