import LPVerif.Lemmas.CoreExec
/-!
# C12 — statistics only accumulate; taking a snapshot changes nothing
-/
namespace LPVerif.Props.C12
open LPVerif.Core

/-- every stored hit count only grows, one callback invocation -/
theorem hits_monotone_step (s : St) (e : Ev) (b : Blk) (c o : Int) : s.hits b c o ≤ (cb s e).hits b c o := by
  unfold cb
  split
  · simp only [setLast_hits]
    unfold St.closePending St.bump
    split
    · simp only; split <;> omega
    · exact Nat.le_refl _
  · exact Nat.le_refl _

/-- … and over any event list -/
theorem hits_monotone (evs : List Ev) (s : St) (b : Blk) (c o : Int) : s.hits b c o ≤ (run s evs).hits b c o := by
  induction evs generalizing s with
  | nil => exact Nat.le_refl _
  | cons e r ih => exact Nat.le_trans (hits_monotone_step s e b c o) (ih (cb s e))

end LPVerif.Props.C12
