import LPVerif.Bridge.Explicit
import LPVerif.Lemmas.Skel
import LPVerif.Generated.Skeletons
/-!
# C14 — `@profile` is inert unless profiling was requested

Over `Model.Explicit` (= the methods emitted from the tree, `Bridge/Explicit.lean`) with the *generated* tables
`falsyStrings`, `environFlags`, `cliFlags`, `showTable`.  The property's own literal lists are written out in the
statements, so a changed table in the source breaks these proofs.
-/
namespace LPVerif.Props.C14
open LPVerif.Explicit LPVerif.Generated

/-- what the property calls "profiling was requested" by the environment / the command line -/
def Requested (env : Env) : Prop :=
  lower (environGet env "LINE_PROFILE") ∉ ["", "0", "off", "false", "no"]
    ∨ "--line-profile" ∈ env.argv ∨ "--line_profile" ∈ env.argv

theorem isProfiling_iff (env : Env) : isProfiling env = true ↔ Requested env := by
  unfold isProfiling Requested envRequested cliRequested
  simp [environFlags, cliFlags, falsyStrings]
  constructor
  · rintro (h | h | h)
    · left; obtain ⟨a, b, c, d, e⟩ := h; exact ⟨a, b, e, c, d⟩
    · right; left; exact h
    · right; right; exact h
  · rintro (h | h | h)
    · left; obtain ⟨a, b, c, d, e⟩ := h; exact ⟨a, b, d, e, c⟩
    · right; left; exact h
    · right; right; exact h

/-- **C14 (requested exactly when …).**  On a fresh `GlobalProfiler`, `profile(f)` returns `f` itself, creates no
    profiler and registers nothing with `atexit` **iff** profiling was not requested. -/
theorem requested_iff (env : Env) :
    (((({} : GP).call env).2 = Ret.same ∧ (({} : GP).call env).1.created = 0 ∧ (({} : GP).call env).1.atexit = 0))
      ↔ ¬ Requested env := by
  rw [← isProfiling_iff]
  unfold GP.call GP.implicitSetup
  by_cases h : isProfiling env = true
  · simp [h, GP.enable, GP.atexit_register_show, GP.new_LineProfiler, GP.call_profile]
  · simp [h, GP.disable]

/-- the same statement about the code emitted from the tree -/
theorem requested_iff_gen (env : Env) :
    (((gen_call env {}).2 = Ret.same ∧ (gen_call env {}).1.created = 0 ∧ (gen_call env {}).1.atexit = 0))
      ↔ ¬ Requested env := by
  rw [Bridge.gen_call_eq]; exact requested_iff env

/-- when requested, the first decoration creates the one profiler, registers `show` once, and wraps -/
theorem requested_active (env : Env) (h : Requested env) :
    (({} : GP).call env).2 = Ret.wrapped (.own 0) ∧ (({} : GP).call env).1.created = 1 ∧ (({} : GP).call env).1.atexit = 1 := by
  have h' := (isProfiling_iff env).mpr h
  simp [GP.call, GP.implicitSetup, h', GP.enable, GP.atexit_register_show, GP.new_LineProfiler, GP.call_profile]

/-- letter case does not matter (the comparison is on `lower`) -/
example : lower "OFF" = "off" ∧ lower "False" = "false" ∧ lower "nO" = "no" := by decide +kernel

/-! ## enable / disable -/

theorem enable_profile_isSome (s : GP) (p : Option String) : (s.enable p).profile.isSome = true := by
  unfold GP.enable
  by_cases h : s.profile = none
  · cases p <;> simp [h, GP.atexit_register_show, GP.new_LineProfiler]
  · cases hp : s.profile with
    | none => exact absurd hp h
    | some q => cases p <;> simp [hp]

theorem enable_enabled (s : GP) (p : Option String) : (s.enable p).enabled = some true := by
  unfold GP.enable
  cases p <;> by_cases h : s.profile = none <;> simp [h]

/-- **after `enable()`** every decoration wraps with the profiler, whatever the environment says -/
theorem enable_then_active (s : GP) (p : Option String) (env : Env) :
    ∃ q, ((s.enable p).call env).2 = Ret.wrapped q ∧ (s.enable p).profile = some q := by
  have h1 := enable_enabled s p
  have h2 := enable_profile_isSome s p
  cases hq : (s.enable p).profile with
  | none => simp [hq] at h2
  | some q => exact ⟨q, by simp [GP.call, h1, GP.call_profile, hq], rfl⟩

/-- **a later `disable()`** makes the decorator inert again: functions decorated afterwards are returned unchanged
    and the state does not move, from *every* state and in every environment (the environment is not consulted again) -/
theorem disable_then_inert (s : GP) (env : Env) : (s.disable.call env) = (s.disable, Ret.same) := by
  simp [GP.call, GP.disable]

/-- decorating never changes an already decided `enabled` -/
theorem call_keeps_decision (s : GP) (env : Env) (b : Bool) (h : s.enabled = some b) : (s.call env).1 = s := by
  cases b <;> simp [GP.call, h]

/-! ## a single profiler, registered once -/

/-- invariant of every state a user program can reach -/
def Inv (s : GP) : Prop :=
  s.atexit = s.created ∧
    ((s.profile = none ∧ s.created = 0 ∧ s.enabled ≠ some true) ∨ (s.profile = some (.own 0) ∧ s.created = 1))

theorem inv_init : Inv {} := by simp [Inv]

theorem inv_enable (s : GP) (p : Option String) (h : Inv s) : Inv (s.enable p) := by
  obtain ⟨h1, h2 | h2⟩ := h
  · obtain ⟨hp, hc, _⟩ := h2
    unfold Inv GP.enable
    cases p <;> simp [hp, hc, h1, GP.atexit_register_show, GP.new_LineProfiler]
  · obtain ⟨hp, hc⟩ := h2
    unfold Inv GP.enable
    cases p <;> simp [hp, hc, h1]

theorem inv_disable (s : GP) (h : Inv s) : Inv s.disable := by
  obtain ⟨h1, h2 | h2⟩ := h
  · exact ⟨h1, Or.inl ⟨h2.1, h2.2.1, by simp [GP.disable]⟩⟩
  · exact ⟨h1, Or.inr h2⟩

theorem inv_call (env : Env) (s : GP) (h : Inv s) : Inv (s.call env).1 := by
  unfold GP.call
  by_cases he : s.enabled = none
  · simp only [he, if_true, GP.implicitSetup]
    by_cases hp : isProfiling env = true
    · have := inv_enable s none h
      rw [if_pos hp]; split <;> exact this
    · have := inv_disable s h
      rw [if_neg hp]; split <;> exact this
  · simp only [he, if_false]; split <;> exact h

theorem inv_step (env : Env) (s : GP) (op : Op) (hu : op.isUser = true) (h : Inv s) : Inv (s.step env op) := by
  cases op with
  | decorate => exact inv_call env s h
  | enable p => exact inv_enable s p h
  | disable => exact inv_disable s h
  | kernprof p => simp [Op.isUser] at hu

theorem inv_run (env : Env) (ops : List Op) (hu : ∀ op ∈ ops, op.isUser = true) (s : GP) (h : Inv s) :
    Inv (GP.run env s ops) := by
  induction ops generalizing s with
  | nil => exact h
  | cons op r ih =>
    exact ih (fun o ho => hu o (by simp [ho])) (s.step env op) (inv_step env s op (hu op (by simp)) h)

/-- **C14 (single profiler, atexit once).**  For every history of `enable` / `disable` / decorations, in every
    environment: at most one `LineProfiler` is ever created and `show` is registered with `atexit` exactly as often
    (0 or 1 times). -/
theorem single_profiler (env : Env) (ops : List Op) (hu : ∀ op ∈ ops, op.isUser = true) :
    (GP.run env {} ops).created ≤ 1 ∧ (GP.run env {} ops).atexit = (GP.run env {} ops).created := by
  obtain ⟨h1, h2 | h2⟩ := inv_run env ops hu {} inv_init
  · exact ⟨by omega, h1⟩
  · exact ⟨by omega, h1⟩

/-- every decoration after such a history returns the function itself or wraps it with *the* profiler; it never fails -/
theorem decorate_result (env : Env) (ops : List Op) (hu : ∀ op ∈ ops, op.isUser = true) :
    ((GP.run env {} ops).call env).2 = Ret.same ∨ ((GP.run env {} ops).call env).2 = Ret.wrapped (.own 0) := by
  have h := inv_run env ops hu {} inv_init
  generalize GP.run env {} ops = s at h
  have hc := inv_call env s h
  unfold GP.call at hc ⊢
  by_cases he : s.enabled = none
  · simp only [he, if_true] at hc ⊢
    by_cases h2 : (s.implicitSetup env).enabled = some true
    · simp only [h2, if_true] at hc ⊢
      obtain ⟨_, hq | hq⟩ := hc
      · exact absurd h2 hq.2.2
      · right; simp [GP.call_profile, hq.1]
    · simp [h2]
  · simp only [he, if_false] at hc ⊢
    by_cases h2 : s.enabled = some true
    · simp only [h2, if_true] at hc ⊢
      obtain ⟨_, hq | hq⟩ := hc
      · exact absurd h2 hq.2.2
      · right; simp [GP.call_profile, hq.1]
    · simp [h2]

/-! ## under kernprof -/

/-- **C14 (kernprof).**  After kernprof installed its profiler, decorations hand the function to *that* profiler;
    no own profiler is created and nothing is registered with `atexit`. -/
theorem kernprof_handover (s : GP) (p : Nat) (env : Env) :
    ((s.kernprofOverwrite (some (.given p))).call env).2 = Ret.wrapped (.given p) ∧
    ((s.kernprofOverwrite (some (.given p))).call env).1.created = s.created ∧
    ((s.kernprofOverwrite (some (.given p))).call env).1.atexit = s.atexit := by
  simp [GP.kernprofOverwrite, GP.call, GP.call_profile]

/-! ## what `show` writes -/

/-- **C14 (exactly the outputs that are switched on, once, under the prefix).** -/
theorem show_writes_exactly (c : WriteCfg) (pfx ts : String) :
    showOutputs showTable c pfx ts
      = (if c.stdout then [("stdout", "")] else [])
        ++ (if c.text then [("text", pfx ++ ".txt")] else [])
        ++ (if c.timestamped_text then [("timestamped_text", pfx ++ "_" ++ ts ++ ".txt")] else [])
        ++ (if c.lprof then [("lprof", pfx ++ ".lprof")] else []) := by
  obtain ⟨l, t, tt, so⟩ := c
  cases l <;> cases t <;> cases tt <;> cases so <;>
    simp [showOutputs, showTable, WriteCfg.get, outName, String.join]

/-- every output kind occurs once in `show` -/
theorem show_keys_once : (showTable.map Prod.fst).Nodup := by decide

/-! ## under kernprof: the hand-over happens before the program runs, in every run mode

Over the control skeleton of `kernprof._main` dumped from the tree (`kernprofFromInstall`: from the first statement that
mentions the global profiler to the end).  `kernprof_handover` above says what `_kernprof_overwrite` does to the
decorator; the theorems here say that kernprof *calls* it — whatever the option set (`-l`, `-b`, `-p`, `-m`, `-i`, none:
every truth value of every other condition) — before any statement that runs the program. -/
section kernprofSide
open LPVerif.Skel

/-- the statements of `_main` that run the profiled program -/
def programLeaves : List Nat := role_execfile ++ role_run_module ++ role_autoprofile ++ role_runctx

def handoverFirst : Out → List Nat → Bool := fun _ log => before role_install programLeaves log
def builtinFirst : Out → List Nat → Bool := fun _ log => before role_kp_builtins_set programLeaves log

/-- not vacuous: the skeleton contains the hand-over statement, its guard, and the five statements that run the program -/
theorem kernprof_leaves_exist :
    role_install.length = 1 ∧ role_if_global.length = 1 ∧ role_if_builtin.length = 1 ∧ role_kp_builtins_set.length ≥ 1 ∧
    programLeaves.length ≥ 5 := by decide

/-- **C14 (under kernprof it hands functions to kernprof's profiler).**  In every environment in which the global
    `@profile` exists — every option set, every outcome of every statement that may raise — `_kernprof_overwrite(prof)`
    is called before the first statement that runs the program. -/
theorem kernprof_hands_over_before_program (env : Skel.Env Nat) (hg : ∀ c ∈ role_if_global, env.cond c = true) (k : Nat) :
    handoverFirst (Skel.exec env kernprofFromInstall k).1 (Skel.exec env kernprofFromInstall k).2.1 = true :=
  forall_env_when role_if_global kernprofFromInstall handoverFirst (by decide +kernel) env hg k

/-- with `-l` / `-b` (`options.builtin`), the builtin `profile` is kernprof's profiler before the program runs -/
theorem kernprof_builtin_before_program (env : Skel.Env Nat) (hb : ∀ c ∈ role_if_builtin, env.cond c = true) (k : Nat) :
    builtinFirst (Skel.exec env kernprofFromInstall k).1 (Skel.exec env kernprofFromInstall k).2.1 = true :=
  forall_env_when role_if_builtin kernprofFromInstall builtinFirst (by decide +kernel) env hb k

/-- the hypothesis matters: without a global profiler nothing is handed over (so the check is not trivially true) -/
example : checkAll kernprofFromInstall handoverFirst = false := by decide +kernel

end kernprofSide

end LPVerif.Props.C14
