import LPVerif.Lemmas.Skel
import LPVerif.Generated.Skeletons
import LPVerif.Generated.ChannelTables
/-!
# C06 — results are delivered however the profiled program ends

(a) Over the control skeleton of `kernprof.main` dumped from the tree: for **every** environment — every truth value
of every condition (run mode: autoprofile / `-m` / builtin / runctx; `-i`; `-v`), every behaviour of every leaf that
runs user code (normal end, `SystemExit`, `KeyboardInterrupt`, any other exception: every crash point and termination
kind) — the stats dump is attempted exactly once, after the program part; exits and interrupts are absorbed.
The statements are about `exec` (the big-step semantics); they are obtained by evaluating the verified abstract
interpreter on the extracted skeleton (`decide`) and lifting with `forall_env_of_check`.
(b) The wrappers that surround user code disable in `finally`, so unwinding closes the by-count bracket.
(c) What the dump contains is a snapshot of the counts so far: `C01.hits_invariant` / `return_clears_slot`.
-/
namespace LPVerif.Props.C06
open LPVerif.Skel LPVerif.Generated

def dumpIds := role_dump
def userCodeIds := role_execfile ++ role_run_module ++ role_autoprofile ++ role_runctx
def enIds := role_en
def disIds := role_dis
def yieldIds := role_yield

def dumpOnce : Out → List Nat → Bool := fun _ log => countIn dumpIds log == 1
/-- an exit or interrupt can leave kernprof's run block only from the final dump itself (writing the file is I/O: it may fail, or be
    interrupted): whatever the *program* raises is absorbed, and the dump has been attempted -/
def exitsAbsorbed : Out → List Nat → Bool := fun o log =>
  (o != .raised .sysExit && o != .raised .kbInt) || countIn dumpIds log == 1
/-- the dump comes after the program part (no user-code leaf is attempted after it) -/
def dumpAfterProgram : Out → List Nat → Bool := fun _ log =>
  (log.dropWhile (fun n => !dumpIds.contains n)).all fun n => !userCodeIds.contains n
def bracketBalanced : Out → List Nat → Bool := fun _ log => countIn enIds log == countIn disIds log
def balancedAtYield : Out → List Nat → Bool := fun _ log => balancedAt enIds disIds yieldIds log 0 0

/-- the obligations are not vacuous: the named statements exist in the dumped skeletons -/
theorem leaves_exist : dumpIds.length = 1 ∧ userCodeIds.length = 6 ∧ enIds.length = 1 ∧ disIds.length = 1 ∧ 2 ≤ yieldIds.length := by
  decide

/-- **C06 (kernprof).** However the program ends and in every run mode, `prof.dump_stats(options.outfile)` is
    attempted exactly once. -/
theorem dump_exactly_once (env : Env Nat) (k : Nat) :
    countIn dumpIds (exec env kernprofTail k).2.1 = 1 := by
  have := forall_env_of_check kernprofTail dumpOnce (by decide +kernel) env k
  simpa [dumpOnce] using this

/-- `SystemExit` and `KeyboardInterrupt` raised by the program never leave kernprof's run block: such an outcome is possible only
    after the final dump was attempted (the dump itself is a leaf that may fail or be interrupted) -/
theorem exits_absorbed (env : Env Nat) (k : Nat) :
    ((exec env kernprofTail k).1 = .raised .sysExit ∨ (exec env kernprofTail k).1 = .raised .kbInt) →
      countIn dumpIds (exec env kernprofTail k).2.1 = 1 := by
  have := forall_env_of_check kernprofTail exitsAbsorbed (by decide +kernel) env k
  intro h
  simp only [exitsAbsorbed, Bool.or_eq_true, Bool.and_eq_true, bne_iff_ne, ne_eq, beq_iff_eq] at this
  rcases this with ⟨h1, h2⟩ | h3
  · rcases h with h | h
    · exact absurd h h1
    · exact absurd h h2
  · exact h3

theorem dump_after_program (env : Env Nat) (k : Nat) :
    dumpAfterProgram (exec env kernprofTail k).1 (exec env kernprofTail k).2.1 = true :=
  forall_env_of_check kernprofTail dumpAfterProgram (by decide +kernel) env k

/-- with `-i`: the periodic timer is stopped *before* the final dump on every path (never after it) — together with
    `C07.timers_stopped` (every started timer is stopped) and `C07.no_dump_after_stop` (no periodic dump is written once `stop()`
    has returned) the final dump is the last write to the stats file (repair of F-C06e) -/
def stopBeforeDump : Out → List Nat → Bool := fun _ log =>
  (log.dropWhile (fun n => !dumpIds.contains n)).all fun n => !role_timer_stop.contains n

theorem stop_before_final_dump (env : Env Nat) (k : Nat) :
    stopBeforeDump (exec env kernprofTail k).1 (exec env kernprofTail k).2.1 = true :=
  forall_env_of_check kernprofTail stopBeforeDump (by decide +kernel) env k

/-- **C06 (wrappers).** `runctx`, `runcall`, the function wrapper and the coroutine wrapper pair every enable with a
    disable on every way out (return, exception, exit, interrupt) … -/
theorem wrappers_close_bracket (env : Env Nat) (k : Nat) :
    bracketBalanced (exec env mixin_runctx k).1 (exec env mixin_runctx k).2.1 = true ∧
    bracketBalanced (exec env mixin_runcall k).1 (exec env mixin_runcall k).2.1 = true ∧
    bracketBalanced (exec env wrap_function_wrapper k).1 (exec env wrap_function_wrapper k).2.1 = true ∧
    bracketBalanced (exec env wrap_coroutine_wrapper k).1 (exec env wrap_coroutine_wrapper k).2.1 = true :=
  ⟨forall_env_of_check _ bracketBalanced (by decide +kernel) env k, forall_env_of_check _ bracketBalanced (by decide +kernel) env k,
   forall_env_of_check _ bracketBalanced (by decide +kernel) env k, forall_env_of_check _ bracketBalanced (by decide +kernel) env k⟩

/-- … and each iteration of the generator / async-generator wrapper is balanced both at its `yield` and at its end -/
theorem generator_iterations_balanced (env : Env Nat) (k : Nat) :
    bracketBalanced (exec env wrap_generator_iteration k).1 (exec env wrap_generator_iteration k).2.1 = true ∧
    balancedAtYield (exec env wrap_generator_iteration k).1 (exec env wrap_generator_iteration k).2.1 = true ∧
    bracketBalanced (exec env wrap_async_generator_iteration k).1 (exec env wrap_async_generator_iteration k).2.1 = true ∧
    balancedAtYield (exec env wrap_async_generator_iteration k).1 (exec env wrap_async_generator_iteration k).2.1 = true :=
  ⟨forall_env_of_check _ bracketBalanced (by decide +kernel) env k, forall_env_of_check _ balancedAtYield (by decide +kernel) env k,
   forall_env_of_check _ bracketBalanced (by decide +kernel) env k, forall_env_of_check _ balancedAtYield (by decide +kernel) env k⟩

/-- non-vacuity: the program raises `SystemExit` in `-l` builtin mode with `-i`: outcome normal, one dump, timer stopped -/
example :
    let on := role_if_interval ++ role_if_builtin ++ role_if_global
    let env : Env Nat := ⟨fun c => on.contains c, fun k => if k = 0 then some .sysExit else none⟩
    (exec env kernprofTail 0).1 = .normal ∧ countIn dumpIds (exec env kernprofTail 0).2.1 = 1 ∧
    countIn role_timer_stop (exec env kernprofTail 0).2.1 = 1 := by decide +kernel

/-- **C06 (`-i`).** Writing a dump does not switch kernprof's cProfile-based profiler off (`Profile.dump_stats` does, through
    `create_stats()` → `disable()`; `ContextualProfile` has its own snapshot-only `dump_stats` since the repair of F-C06f): a periodic
    dump cannot end the profiling of the rest of the run.  (`LineProfiler.dump_stats` pickles `get_stats()`, which C12 shows to be pure.) -/
theorem periodic_dump_keeps_profiling : Generated.contextualDumpSwitchesOff = false := by decide

end LPVerif.Props.C06
