import LPVerif.Lemmas.CoreTime
import LPVerif.Lemmas.CoreExec
/-!
# C02 — line time accounting is exact, inclusive of callees, and conserved

Over the callback machine `Model.Core`.  Every event carries the clock values `r1` (first `hpTimer()` call of
that callback invocation) and `r2` (second call, LINE events only).  `closedT s lines b l` is the time
`get_stats` reports for line `l` of a code object with bytes `b` and registered lines `lines`.

* `time_exact`      — stored time = the specification `spent`: each LINE event of `(b,l)` is charged from its own
                      second clock read to the first clock read of the next event on the same (thread, block) slot;
* `time_inclusive`  — without re-entrancy that next event is the *same invocation's* next line / return / yield /
                      raise: callees are included, suspension is excluded (a yield is a RETURN event);
* `time_nonneg`     — a monotone clock gives non-negative times;
* `time_conserved`  — for one thread, the line times of a function sum to at most the clock span of the trace;
* `time_no_disabled`— `disable()` empties the slots, so nothing that happened before is charged afterwards;
* `other_thread_disable_invisible` / `_report` — a `disable()` in one thread changes nothing of what other threads record
                      afterwards (their lines in flight keep their hit and their whole duration);
* `reentrancy_witness` — with recursion the slot is shared by the invocations and the caller's line is *not*
                      inclusive (finding F-C02a): the full-strength statement is false of model and code alike.
-/
namespace LPVerif.Props.C02
open LPVerif.Core

/-- **C02 (exactness).** For every event list, the time stored for `(b,l)` is exactly `spent`. -/
theorem time_exact (regs : List (Blk × Int)) (evs : List Ev) (lines : List Int) (threads : List Nat)
    (b : Blk) (l : Int)
    (hl : ∀ c, (b, c) ∈ regs → c ∈ lines) (hln : lines.Nodup)
    (ht : ∀ e ∈ evs, e.t ∈ threads) (htn : threads.Nodup) :
    closedT (run (St.init regs) evs) lines b l = spent regs evs b l := by
  have := time_inv evs (St.init regs) lines threads b l hl hln ht htn
  rw [closedT_init, pendDue_none _ _ _ _ _ (by intro t _; rfl)] at this
  simpa [St.init] using this

/-- the same about the hash-map machine the driver executes -/
theorem time_exact_exec (regs : List (Blk × Int)) (evs : List Ev) (lines : List Int) (threads : List Nat)
    (b : Blk) (l : Int)
    (hl : ∀ c, (b, c) ∈ regs → c ∈ lines) (hln : lines.Nodup)
    (ht : ∀ e ∈ evs, e.t ∈ threads) (htn : threads.Nodup) :
    closedT (evs.foldl ecb (ESt.init regs)).abs lines b l = spent regs evs b l := by
  rw [abs_run, abs_init]
  exact time_exact regs evs lines threads b l hl hln ht htn

/-- general form, from any state -/
theorem time_invariant (evs : List Ev) (s : St) (lines : List Int) (threads : List Nat) (b : Blk) (l : Int)
    (hl : ∀ c, (b, c) ∈ s.regs → c ∈ lines) (hln : lines.Nodup)
    (ht : ∀ e ∈ evs, e.t ∈ threads) (htn : threads.Nodup) :
    closedT (run s evs) lines b l
      = closedT s lines b l + pendDue s threads evs b l + spent s.regs evs b l :=
  time_inv evs s lines threads b l hl hln ht htn

/-- **C02 (inclusive of callees, exclusive of suspension)** under `NoReentry`: the stored time is the
    per-invocation accounting — from the line's start to the same frame's next event. -/
theorem time_inclusive (regs : List (Blk × Int)) (evs : List Ev) (lines : List Int) (threads : List Nat)
    (b : Blk) (l : Int)
    (hl : ∀ c, (b, c) ∈ regs → c ∈ lines) (hln : lines.Nodup)
    (ht : ∀ e ∈ evs, e.t ∈ threads) (htn : threads.Nodup)
    (hre : NoReentry regs evs) :
    closedT (run (St.init regs) evs) lines b l = inclusive regs evs b l := by
  rw [time_exact regs evs lines threads b l hl hln ht htn, spent_eq_inclusive regs evs b l hre]

/-- **C02 (never negative)** -/
theorem time_nonneg (regs : List (Blk × Int)) (evs : List Ev) (lines : List Int) (threads : List Nat)
    (b : Blk) (l : Int)
    (hl : ∀ c, (b, c) ∈ regs → c ∈ lines) (hln : lines.Nodup)
    (ht : ∀ e ∈ evs, e.t ∈ threads) (htn : threads.Nodup)
    (hm : ClockMono evs) :
    0 ≤ closedT (run (St.init regs) evs) lines b l := by
  rw [time_exact regs evs lines threads b l hl hln ht htn]
  exact spent_nonneg regs evs b l hm

/-- **C02 (conservation)**: one thread, clock monotone with all reads in `[lo, hi]`: the line times of a
    function (all lines of its block) sum to at most `hi - lo`. -/
theorem time_conserved (regs : List (Blk × Int)) (evs : List Ev) (lines : List Int) (t : Nat)
    (b : Blk) (lo hi : Int)
    (hl : ∀ c, (b, c) ∈ regs → c ∈ lines) (hln : lines.Nodup)
    (hthr : ∀ e ∈ evs, e.t = t) (hm : ClockMono evs)
    (hlo : ∀ e ∈ evs, lo ≤ e.r1) (hhi : ∀ e ∈ evs, e.r2 ≤ hi) (hlohi : lo ≤ hi) :
    (lines.map (fun l => closedT (run (St.init regs) evs) lines b l)).sum ≤ hi - lo := by
  have hex : ∀ l, closedT (run (St.init regs) evs) lines b l = spent regs evs b l := fun l =>
    time_exact regs evs lines [t] b l hl hln (by intro e he; simp [hthr e he]) (by simp)
  have : (lines.map (fun l => closedT (run (St.init regs) evs) lines b l)) = lines.map (fun l => spent regs evs b l) :=
    List.map_congr_left (fun l _ => hex l)
  rw [this, spent_sum regs evs b lines hl hln]
  have hb := spentAll_bound regs evs t b hi hthr hm hhi
  have hnc : lo ≤ (nextClose regs evs t b).getD hi := by
    cases hn : nextClose regs evs t b with
    | none => simpa using hlohi
    | some x =>
      obtain ⟨e', he', hx⟩ := nextClose_mem regs evs t b x hn
      have := hlo e' he'
      simp only [Option.getD_some]; omega
  omega

/-- **C02 (disabled time is never charged)**: after `disable()` in thread `t` (which clears that thread's
    pending slots) later events of that thread add exactly `spent` of the later events — the line in flight at
    the disable and the time while disabled are charged to nobody, whatever the clock did in between. -/
theorem time_no_disabled (s : St) (evs : List Ev) (lines : List Int) (t : Nat) (b : Blk) (l : Int)
    (hl : ∀ c, (b, c) ∈ s.regs → c ∈ lines) (hln : lines.Nodup)
    (hthr : ∀ e ∈ evs, e.t = t) :
    closedT (run (s.clearThread t) evs) lines b l = closedT s lines b l + spent s.regs evs b l := by
  have := time_inv evs (s.clearThread t) lines [t] b l (by simpa using hl) hln
    (by intro e he; simp [hthr e he]) (by simp)
  rw [pendDue_none _ _ _ _ _ (by intro t' ht'; simp at ht'; subst ht'; simp [St.clearThread])] at this
  have hc : closedT (s.clearThread t) lines b l = closedT s lines b l := rfl
  rw [hc] at this
  simpa using this

/-! ## concrete traces (kernel-evaluated): non-vacuity and the finding -/

def f : Blk := ⟨0, 0⟩      -- caller
def g : Blk := ⟨1, 0⟩      -- callee / generator
def regs2 : List (Blk × Int) := [(f, 1), (f, 2), (g, 10), (g, 11)]

/-- line 1 of `f` calls `g` (two lines, 5 + 7 ticks), then line 2 of `f`; one clock read costs nothing -/
def calleeTrace : List Ev :=
  [⟨0, 1, f, 1, true, 0, 0⟩, ⟨0, 2, g, 10, true, 1, 1⟩, ⟨0, 2, g, 11, true, 6, 6⟩, ⟨0, 2, g, 11, false, 13, 13⟩,
   ⟨0, 1, f, 2, true, 14, 14⟩, ⟨0, 1, f, 2, false, 15, 15⟩]

/-- the caller's line includes everything its callee spent (14 = 1 + 5 + 7 + 1), the callee's lines their own -/
theorem callee_included :
    NoReentry regs2 calleeTrace ∧ ClockMono calleeTrace ∧
    closedT (run (St.init regs2) calleeTrace) [1, 2] f 1 = 14 ∧
    closedT (run (St.init regs2) calleeTrace) [10, 11] g 10 = 5 ∧
    closedT (run (St.init regs2) calleeTrace) [10, 11] g 11 = 7 := by
  refine ⟨by decide, by decide, by decide, by decide, by decide⟩

/-- a generator `g` runs line 10 (3 ticks), yields (RETURN), stays suspended for 1000 ticks, resumes at line 11 -/
def suspendTrace : List Ev :=
  [⟨0, 2, g, 10, true, 0, 0⟩, ⟨0, 2, g, 10, false, 3, 3⟩, ⟨0, 2, g, 11, true, 1003, 1003⟩, ⟨0, 2, g, 11, false, 1005, 1005⟩]

theorem suspension_excluded :
    closedT (run (St.init regs2) suspendTrace) [10, 11] g 10 = 3 ∧
    closedT (run (St.init regs2) suspendTrace) [10, 11] g 11 = 2 := by decide

/-- recursion: `f` line 1 (frame 1) calls `f` again (frame 2: line 1 for 1 tick, line 2 for 100 ticks, return),
    then frame 1 goes on to line 2.  Per invocation, frame 1 spent 102 ticks on line 1. -/
def recTrace : List Ev :=
  [⟨0, 1, f, 1, true, 0, 0⟩, ⟨0, 2, f, 1, true, 1, 1⟩, ⟨0, 2, f, 2, true, 2, 2⟩, ⟨0, 2, f, 2, false, 102, 102⟩,
   ⟨0, 1, f, 2, true, 103, 103⟩, ⟨0, 1, f, 2, false, 104, 104⟩]

/-- **F-C02a**: with re-entrancy the stored time of the caller's line (1 + 1) is strictly less than the
    inclusive time (103 + 1): the slot is per bytecode, not per invocation. -/
theorem reentrancy_witness :
    ¬ NoReentry regs2 recTrace ∧
    closedT (run (St.init regs2) recTrace) [1, 2] f 1 = 2 ∧
    inclusive regs2 recTrace f 1 = 104 := by
  refine ⟨by decide, by decide, by decide⟩

/-- **C02 (another thread's `disable()` is invisible)**: when thread `t` switches its profiling off (its outermost scope
    ends) while other threads are in the middle of lines, what those threads do afterwards is recorded exactly as if
    the `disable()` had not happened — same hits, same times in every cell, same pending lines of every other thread:
    the line in flight in another thread keeps its execution and its whole duration. -/
theorem other_thread_disable_invisible (s : St) (evs : List Ev) (t : Nat) (h : ∀ e ∈ evs, e.t ≠ t) :
    (run (s.clearThread t) evs).hits = (run s evs).hits ∧
    (run (s.clearThread t) evs).time = (run s evs).time ∧
    ∀ t' b, t' ≠ t → (run (s.clearThread t) evs).last t' b = (run s evs).last t' b := by
  rw [run_clearThread_comm evs s t h]
  refine ⟨rfl, rfl, ?_⟩
  intro t' b ht
  simp [St.clearThread, ht]

/-- in particular the reported time and hits of every line -/
theorem other_thread_disable_report (s : St) (evs : List Ev) (lines : List Int) (t : Nat) (b : Blk) (l : Int)
    (h : ∀ e ∈ evs, e.t ≠ t) :
    closedT (run (s.clearThread t) evs) lines b l = closedT (run s evs) lines b l ∧
    closed (run (s.clearThread t) evs) lines b l = closed (run s evs) lines b l := by
  rw [run_clearThread_comm evs s t h]
  exact ⟨rfl, rfl⟩

/-- non-vacuity: thread 1 is in the middle of line 1 of `f` (since clock 0); thread 0 runs `g` and disables; thread 1's
    line then ends at clock 507 — one hit, 507 ticks, the `disable()` of thread 0 in between notwithstanding -/
example :
    let s1 := run (St.init regs2) [⟨1, 1, f, 1, true, 0, 0⟩, ⟨0, 2, g, 10, true, 0, 0⟩, ⟨0, 2, g, 10, false, 0, 0⟩]
    let s2 := run (s1.clearThread 0) [⟨1, 1, f, 2, true, 507, 507⟩, ⟨1, 1, f, 2, false, 507, 507⟩]
    closedT s2 [1, 2] f 1 = 507 ∧ closed s2 [1, 2] f 1 = 1 := by
  refine ⟨by decide, by decide⟩

end LPVerif.Props.C02
