import LPVerif.Model.Prof
/-!
# C05 — enable/disable counting is balanced and decides whether tracing is on

Over `Model.Prof`: `enableByCount` / `disableByCount` are the transcriptions of
`_line_profiler.pyx:311-325` (and of `kernprof.ContextualProfile`, same text with one global
counter = the one-thread instance).  Histories are arbitrary lists of by-count operations issued
from arbitrary threads; direct `enable()`/`disable()` are excluded, as in the property.
-/
namespace LPVerif.Props.C05
open LPVerif LPVerif.Prof

/-- a by-count operation of thread `t` (context-manager entry/exit are exactly these calls) -/
inductive BOp
  | en (t : Nat)
  | dis (t : Nat)
deriving Repr, DecidableEq

def BOp.thread : BOp → Nat
  | .en t => t
  | .dis t => t

def stepB (s : St) : BOp → St
  | .en t => s.step (.enableBC t)
  | .dis t => s.step (.disableBC t)

def runB (s : St) (ops : List BOp) : St := ops.foldl stepB s

/-- the abstract counter: `+1`, and `-1` clipped at zero (surplus disables are ignored) -/
def clipStep (t : Nat) (n : Nat) : BOp → Nat
  | .en t' => if t' = t then n + 1 else n
  | .dis t' => if t' = t then n - 1 else n

def clipCount (t : Nat) (n : Nat) (ops : List BOp) : Nat := ops.foldl (clipStep t) n

/-- tracing is installed in a thread exactly while its count is positive; the `sys.monitoring` tool id
    is held exactly while the main thread's count is positive -/
def Inv (s : St) : Prop :=
  (∀ t, s.tracing t = true ↔ s.count t > 0) ∧ (s.tool = true ↔ s.count 0 > 0)

theorem inv_init : Inv St.init := by
  constructor
  · intro t; simp [St.init]
  · simp [St.init]

/-- `enable()` never raises (the tool id is claimed only when free: fix of F-C03c) -/
theorem enable_ok (s : St) (t : Nat) (_h : Inv s) (_h0 : s.count t = 0) :
    ∃ s', s.enable t = .ok s' := ⟨_, rfl⟩

theorem step_en_count (s : St) (t t' : Nat) (h : Inv s) :
    (stepB s (.en t)).count t' = if t' = t then s.count t' + 1 else s.count t' := by
  simp only [stepB, St.step, St.enableByCount]
  by_cases h0 : s.count t = 0
  · obtain ⟨s', hs'⟩ := enable_ok s t h h0
    have hc : s'.count = s.count := by
      unfold St.enable at hs'; simp at hs'; subst hs'; rfl
    simp only [h0, if_true, hs', St.setCount, hc]
    by_cases htt : t' = t <;> simp [htt, h0]
  · simp only [h0, if_false, St.setCount]
    by_cases htt : t' = t <;> simp [htt]

theorem step_dis_count (s : St) (t t' : Nat) :
    (stepB s (.dis t)).count t' = if t' = t then s.count t' - 1 else s.count t' := by
  simp only [stepB, St.step, St.disableByCount]
  by_cases h0 : s.count t > 0
  · simp only [h0, if_true, St.setCount]
    split
    · simp only [St.disable]; by_cases htt : t' = t <;> simp [htt]
    · by_cases htt : t' = t <;> simp [htt]
  · have : s.count t = 0 := by omega
    simp only [h0, if_false]
    by_cases htt : t' = t
    · subst htt; simp [this]
    · simp [htt]

theorem inv_step (s : St) (op : BOp) (h : Inv s) : Inv (stepB s op) := by
  cases op with
  | en t =>
    have hc := fun t' => step_en_count s t t' h
    simp only [stepB, St.step, St.enableByCount] at hc ⊢
    by_cases h0 : s.count t = 0
    · obtain ⟨s', hs'⟩ := enable_ok s t h h0
      simp only [h0, if_true, hs'] at hc ⊢
      have hs := hs'
      unfold St.enable at hs; simp at hs; subst hs
      constructor
      · intro t'
        rw [hc t']
        by_cases htt : t' = t
        · subst htt; simp [St.setCount]
        · have := h.1 t'; simp [St.setCount, htt, this]
      · rw [hc 0]
        by_cases ht0 : (0 : Nat) = t
        · subst ht0; simp [St.setCount]
        · have := h.2
          have ht0' : ¬ t = 0 := fun hh => ht0 hh.symm
          simp [St.setCount, ht0, ht0', this]
    · simp only [h0, if_false] at hc ⊢
      constructor
      · intro t'
        rw [hc t']
        by_cases htt : t' = t
        · subst htt
          have := (h.1 t').2 (by omega)
          simp [St.setCount, this]
        · have := h.1 t'; simp [St.setCount, htt, this]
      · rw [hc 0]
        by_cases ht0 : (0 : Nat) = t
        · subst ht0
          have := h.2.2 (by omega)
          simp [St.setCount, this]
        · have := h.2; simp [St.setCount, ht0, this]
  | dis t =>
    have hc := fun t' => step_dis_count s t t'
    simp only [stepB, St.step, St.disableByCount] at hc ⊢
    by_cases h0 : s.count t > 0
    · simp only [h0, if_true] at hc ⊢
      by_cases h1 : (s.setCount t (s.count t - 1)).count t = 0
      · simp only [h1, if_true] at hc ⊢
        have h1' : s.count t = 1 := by simp [St.setCount] at h1; omega
        constructor
        · intro t'
          rw [hc t']
          by_cases htt : t' = t
          · subst htt; simp [St.disable, St.setCount, h1']
          · have := h.1 t'; simp [St.disable, St.setCount, htt, this]
        · rw [hc 0]
          by_cases ht0 : (0 : Nat) = t
          · subst ht0; simp [St.disable, St.setCount, h1']
          · have := h.2
            have ht0' : ¬ t = 0 := fun hh => ht0 hh.symm
            simp [St.disable, St.setCount, ht0, ht0', this]
      · simp only [h1, if_false] at hc ⊢
        have h1' : s.count t ≥ 2 := by simp [St.setCount] at h1; omega
        constructor
        · intro t'
          rw [hc t']
          by_cases htt : t' = t
          · subst htt
            have := (h.1 t').2 (by omega)
            simp [St.setCount, this]; omega
          · have := h.1 t'; simp [St.setCount, htt, this]
        · rw [hc 0]
          by_cases ht0 : (0 : Nat) = t
          · subst ht0
            have := h.2.2 (by omega)
            simp [St.setCount, this]; omega
          · have := h.2; simp [St.setCount, ht0, this]
    · simp only [h0, if_false]; exact h

/-- **tracing_iff_positive**: after any by-count history from any threads, tracing is installed in a
    thread iff its count is positive and the profiler tool id is held iff the main thread's count is
    positive (so when a count returns to zero both are released) -/
theorem tracing_iff_positive (ops : List BOp) : Inv (runB St.init ops) := by
  suffices h : ∀ s, Inv s → Inv (runB s ops) from h _ inv_init
  induction ops with
  | nil => intro s h; exact h
  | cons op r ih => intro s h; exact ih _ (inv_step s op h)

theorem runB_inv (ops : List BOp) (s : St) (h : Inv s) : Inv (runB s ops) := by
  induction ops generalizing s with
  | nil => exact h
  | cons op r ih => exact ih _ (inv_step s op h)

/-- **count_clipped**: the count of thread `t` after any history equals the fold of `+1` / `-1 clipped at 0`
    over that history — entries minus exits, never below zero; operations of other threads do not
    touch it (**thread_local**) -/
theorem count_clipped (ops : List BOp) (s : St) (h : Inv s) (t : Nat) :
    (runB s ops).count t = clipCount t (s.count t) ops := by
  induction ops generalizing s with
  | nil => rfl
  | cons op r ih =>
    simp only [runB, List.foldl_cons, clipCount] at ih ⊢
    rw [ih (stepB s op) (inv_step s op h)]
    congr 1
    cases op with
    | en t' => rw [step_en_count s t' t h]; simp only [clipStep]; by_cases hh : t = t' <;> simp [hh, eq_comm]
    | dis t' => rw [step_dis_count s t' t]; simp only [clipStep]; by_cases hh : t = t' <;> simp [hh, eq_comm]

/-- well-bracketed histories of one thread: what a decorated call, a `with` block or a completed /
    suspended generator step issues (`enable_by_count(); …; finally: disable_by_count()`), nested arbitrarily -/
inductive Bal (t : Nat) : List BOp → Prop
  | nil : Bal t []
  | wrap (body : List BOp) : Bal t body → Bal t (.en t :: body ++ [.dis t])
  | app (a b : List BOp) : Bal t a → Bal t b → Bal t (a ++ b)

theorem clip_bal (t : Nat) (ops : List BOp) (h : Bal t ops) (t' n : Nat) :
    clipCount t' n ops = n := by
  induction h generalizing n with
  | nil => rfl
  | wrap body _ ih =>
    simp only [clipCount, List.foldl_cons, List.foldl_append, List.foldl_nil] at ih ⊢
    rw [ih]
    simp only [clipStep]
    by_cases hh : t = t' <;> simp [hh]
  | app a b _ _ iha ihb =>
    simp only [clipCount, List.foldl_append] at iha ihb ⊢
    rw [iha, ihb]

/-- **call_restores**: every completed, raised or suspended step of a decorated callable — any
    well-bracketed nest of by-count operations — leaves every thread's count, tracing flag and the
    tool registration exactly as it found them -/
theorem call_restores (t : Nat) (ops : List BOp) (hb : Bal t ops) (s : St) (h : Inv s) :
    (∀ t', (runB s ops).count t' = s.count t') ∧
    (∀ t', (runB s ops).tracing t' = s.tracing t') ∧
    (runB s ops).tool = s.tool := by
  have hinv := runB_inv ops s h
  have hc : ∀ t', (runB s ops).count t' = s.count t' := by
    intro t'; rw [count_clipped ops s h t', clip_bal t ops hb]
  refine ⟨hc, ?_, ?_⟩
  · intro t'
    have a := hinv.1 t'; have b := h.1 t'; rw [hc t'] at a
    cases h1 : (runB s ops).tracing t' <;> cases h2 : s.tracing t' <;> simp_all
  · have a := hinv.2; have b := h.2; rw [hc 0] at a
    cases h1 : (runB s ops).tool <;> cases h2 : s.tool <;> simp_all

/-- non-vacuity: a nested decorated call in thread 1 inside a `with` block of thread 0 -/
theorem example_nonvacuous :
    (runB St.init [.en 0, .en 1, .en 1, .dis 1, .dis 1, .dis 1, .dis 0]).count 0 = 0 ∧
    (runB St.init [.en 0, .en 1, .en 1]).tracing 1 = true ∧
    (runB St.init [.en 0, .en 1, .en 1]).tool = true ∧
    (runB St.init [.en 0, .en 1, .en 1, .dis 1, .dis 1, .dis 1]).tracing 1 = false := by
  refine ⟨by rfl, by rfl, by rfl, by rfl⟩

end LPVerif.Props.C05
