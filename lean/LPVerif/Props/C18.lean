import LPVerif.Lemmas.FS
/-!
# C18 — module names and paths are mapped the way the import system maps them

Over `Model.FS` (directory trees of any shape and depth, any number of search roots, names of any length):
* `lookup_first_root` — the lookup returns the first root (in search-path order) below which the name exists with a
  valid `__init__.py` chain, `none` iff there is none;
* `lookup_one_root` — below one root, "join the path, then climb checking `__init__.py`" is exactly the import system's
  component-by-component walk through regular packages;
* `lookup_eq_pathfinder` — over several roots the lookup equals `PathFinder` **under `NoPartialShadow`** (the first root
  that provides the first component also provides the rest, or nobody does); `shadow_witness` shows that without it the
  lookup finds what `import` cannot (known finding F-C18a);
* `roundtrip` — turning the found path back into a name gives the original name (the search root being the boundary);
* `walk_exact` — listing a package yields exactly the module files inside it and its regular sub-packages.
-/
namespace LPVerif.Props.C18
open LPVerif.FS

theorem lookup_one_root (root : Entries) (cs : List String) : implRoot root cs = specRoot root cs :=
  implRoot_eq_specRoot root cs

/-- **C18 (first match along the search path wins).** -/
theorem lookup_first_root (roots : List Entries) (cs : List String) (j : Nat) (f : Found) (h : lookup roots cs = some (j, f)) :
    ∃ r, roots[j]? = some r ∧ specRoot r cs = some f ∧ ∀ k < j, ∀ r', roots[k]? = some r' → specRoot r' cs = none := by
  obtain ⟨k, hk, r, hr, hf, hb⟩ := lookupFrom_some_iff 0 roots cs j f h
  have : j = k := by omega
  subst this
  exact ⟨r, hr, by rw [← implRoot_eq_specRoot]; exact hf, fun k' hk' r' hr' => by rw [← implRoot_eq_specRoot]; exact hb k' hk' r' hr'⟩

theorem lookupFrom_none (i : Nat) (roots : List Entries) (cs : List String) (h : ∀ r ∈ roots, specRoot r cs = none) :
    lookupFrom i roots cs = none := by
  induction roots generalizing i with
  | nil => rfl
  | cons r rest ih =>
    unfold lookupFrom
    rw [implRoot_eq_specRoot, h r (by simp)]
    exact ih (i + 1) (fun x hx => h x (by simp [hx]))

/-- missing names yield nothing -/
theorem lookup_none_iff (roots : List Entries) (cs : List String) :
    lookup roots cs = none ↔ ∀ r ∈ roots, specRoot r cs = none := by
  constructor
  · intro h
    unfold lookup at h
    generalize 0 = i at h
    induction roots generalizing i with
    | nil => simp
    | cons r rest ih =>
      unfold lookupFrom at h
      cases hr : implRoot r cs with
      | some f => simp [hr] at h
      | none =>
        simp only [hr] at h
        intro x hx
        cases hx with
        | head => rw [← implRoot_eq_specRoot]; exact hr
        | tail _ h' => exact ih (i + 1) h x h'
  · exact lookupFrom_none 0 roots cs

/-- the first root that provides the first component also provides the whole name — or no later root does -/
def NoPartialShadow : List Entries → String → List String → Prop
  | [], _, _ => True
  | r :: rest, c, cs =>
    (find1 r c = none → NoPartialShadow rest c cs) ∧
    (find1 r c ≠ none → specRoot r (c :: cs) = none → ∀ y ∈ rest, specRoot y (c :: cs) = none)

theorem lookupFrom_eq_pathFinderFrom (i : Nat) (roots : List Entries) (c : String) (cs : List String)
    (h : NoPartialShadow roots c cs) : lookupFrom i roots (c :: cs) = pathFinderFrom i roots (c :: cs) := by
  induction roots generalizing i with
  | nil => rfl
  | cons r rest ih =>
    unfold lookupFrom pathFinderFrom
    rw [implRoot_eq_specRoot]
    cases hf : find1 r c with
    | none =>
      have hs : specRoot r (c :: cs) = none := by
        cases hsr : specRoot r (c :: cs) with
        | none => rfl
        | some f => exact absurd hf (find1_of_specRoot r c cs f hsr)
      simp only [hs]
      exact ih (i + 1) (h.1 hf)
    | some k =>
      cases hs : specRoot r (c :: cs) with
      | some f => simp
      | none =>
        simp only [Option.map_none]
        exact lookupFrom_none (i + 1) rest (c :: cs) (h.2 (by simp [hf]) hs)

/-- **C18 (lookup = import system)** under `NoPartialShadow` -/
theorem lookup_eq_pathfinder (roots : List Entries) (c : String) (cs : List String) (h : NoPartialShadow roots c cs) :
    lookup roots (c :: cs) = pathFinder roots (c :: cs) :=
  lookupFrom_eq_pathFinderFrom 0 roots c cs h

/-- a single-component name needs no hypothesis -/
theorem lookup_eq_pathfinder_single (roots : List Entries) (c : String) : lookup roots [c] = pathFinder roots [c] := by
  apply lookup_eq_pathfinder
  induction roots with
  | nil => trivial
  | cons r rest ih =>
    refine ⟨fun _ => ih, ?_⟩
    intro hne hs
    simp only [specRoot] at hs
    exact absurd hs hne

/-- **F-C18a**: root 1 has package `a` without `c`, root 2 has `a/c.py`: the lookup returns root 2's file, `import a.c` fails -/
def root1 : Entries := .cons "a" (.dir (.cons "__init__.py" .file .nil)) .nil
def root2 : Entries := .cons "a" (.dir (.cons "__init__.py" .file (.cons "c.py" .file .nil))) .nil
theorem shadow_witness : lookup [root1, root2] ["a", "c"] = some (1, .mod) ∧ pathFinder [root1, root2] ["a", "c"] = none := by
  decide +kernel

/-! ## path → name -/

theorem go_valid (es : Entries) (todo acc : List String) (h : isValid es todo.dropLast = true) :
    nameOfPath.go es todo acc = acc ++ todo := by
  induction todo generalizing es acc with
  | nil => simp [nameOfPath.go]
  | cons c r ih =>
    cases r with
    | nil => simp [nameOfPath.go]
    | cons c' r' =>
      simp only [List.dropLast_cons₂] at h
      rw [isValid_cons] at h
      cases hs : es.subdir c with
      | none => simp [hs] at h
      | some d =>
        simp only [hs, Bool.and_eq_true] at h
        unfold nameOfPath.go
        simp only [hs, h.1, if_true]
        rw [ih d (acc ++ [c]) h.2]
        simp

theorem valid_of_found (root : Entries) (cs : List String) (f : Found) (h : implRoot root cs = some f) :
    isValid root cs.dropLast = true := by
  unfold implRoot at h
  cases hl : cs.getLast? with
  | none => simp [hl] at h
  | some last =>
    simp only [hl] at h
    cases hv : isValid root cs.dropLast with
    | true => rfl
    | false =>
      simp only [hv, Bool.and_false] at h
      cases hd : descend root cs <;> simp [hd] at h <;>
        (cases hd2 : descend root cs.dropLast <;> simp [hd2] at h)

/-- **C18 (round trip).** The path the lookup finds below a search root maps back to the original name. -/
theorem roundtrip (root : Entries) (cs : List String) (f : Found) (h : implRoot root cs = some f) :
    nameOfPath root cs = cs := by
  unfold nameOfPath
  rw [go_valid root cs [] (valid_of_found root cs f h)]
  simp

/-- **C18 (package walk).** -/
theorem walk_exact (pkg : Entries) (p : List String) : p ∈ walk pkg ↔ (pkg.isPkg = true ∧ InPkg pkg p) := by
  unfold walk
  by_cases h : pkg.isPkg = true
  · simp [h, mem_walkEntries]
  · simp [h]

/-- non-vacuity: a package with a module, a regular sub-package and a directory without `__init__.py` -/
def demoPkg : Entries :=
  .cons "__init__.py" .file (.cons "m.py" .file (.cons "sub" (.dir (.cons "__init__.py" .file (.cons "n.py" .file .nil)))
    (.cons "data" (.dir (.cons "x.py" .file .nil)) .nil)))
example : walk demoPkg = [["m.py"], ["sub", "n.py"]] := by decide +kernel
example : lookup [.cons "pkg" (.dir demoPkg) .nil] ["pkg", "sub", "n"] = some (0, .mod) ∧
    nameOfPath (.cons "pkg" (.dir demoPkg) .nil) ["pkg", "sub", "n"] = ["pkg", "sub", "n"] := by decide +kernel

end LPVerif.Props.C18
