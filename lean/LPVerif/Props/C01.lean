import LPVerif.Lemmas.CoreExec
import LPVerif.Lemmas.ProfExact
import LPVerif.Lemmas.ProfOwn
/-!
# C01 — per-line hit counts are exact

Stated over the callback machine `Model.Core` (the definitions the driver executes and the
correspondence check K01 compares with the real `python_trace_callback` + `get_stats`).
`closed s lines b l` is what `get_stats` reports as hits of line `l` for a code object with
bytes `b` whose registered lines are `lines` (it sums the buckets of all of them).
-/
namespace LPVerif.Props.C01
open LPVerif.Core

/-- **C01 (core).**  For *every* event list (loops, unwinding, generators and coroutines that
    suspend and resume, recursion, threads — no well-formedness is assumed), once no slot of `b`
    is pending at `l`, the reported hit count of `(b,l)` equals the number of LINE events of
    `(b,l)`. -/
theorem hits_exact (regs : List (Blk × Int)) (evs : List Ev) (lines : List Int) (threads : List Nat)
    (b : Blk) (l : Int)
    (hl : ∀ c, (b, c) ∈ regs → c ∈ lines) (hln : lines.Nodup)
    (ht : ∀ e ∈ evs, e.t ∈ threads) (htn : threads.Nodup)
    (hq : pend (run (St.init regs) evs) threads b l = 0) :
    closed (run (St.init regs) evs) lines b l = opened regs evs b l := by
  have := run_inv evs (St.init regs) lines threads b l hl hln ht htn
  rw [closed_init, pend_init] at this
  simp only [St.init] at this hq ⊢
  omega

/-- the same statement about the hash-map machine the driver executes (refinement `abs_run`) -/
theorem hits_exact_exec (regs : List (Blk × Int)) (evs : List Ev) (lines : List Int) (threads : List Nat)
    (b : Blk) (l : Int)
    (hl : ∀ c, (b, c) ∈ regs → c ∈ lines) (hln : lines.Nodup)
    (ht : ∀ e ∈ evs, e.t ∈ threads) (htn : threads.Nodup)
    (hq : pend (evs.foldl ecb (ESt.init regs)).abs threads b l = 0) :
    closed (evs.foldl ecb (ESt.init regs)).abs lines b l = opened regs evs b l := by
  rw [abs_run, abs_init] at hq ⊢
  exact hits_exact regs evs lines threads b l hl hln ht htn hq

/-- the general form, from any state: what is stored plus what is pending grows by exactly the
    LINE events delivered -/
theorem hits_invariant (evs : List Ev) (s : St) (lines : List Int) (threads : List Nat) (b : Blk) (l : Int)
    (hl : ∀ c, (b, c) ∈ s.regs → c ∈ lines) (hln : lines.Nodup)
    (ht : ∀ e ∈ evs, e.t ∈ threads) (htn : threads.Nodup) :
    closed (run s evs) lines b l + pend (run s evs) threads b l
      = closed s lines b l + pend s threads b l + opened s.regs evs b l :=
  run_inv evs s lines threads b l hl hln ht htn

/-- lines that were not executed report nothing (even when something is still pending) -/
theorem unexecuted_absent (regs : List (Blk × Int)) (evs : List Ev) (lines : List Int) (threads : List Nat)
    (b : Blk) (l : Int)
    (hl : ∀ c, (b, c) ∈ regs → c ∈ lines) (hln : lines.Nodup)
    (ht : ∀ e ∈ evs, e.t ∈ threads) (htn : threads.Nodup)
    (h0 : opened regs evs b l = 0) :
    closed (run (St.init regs) evs) lines b l = 0 := by
  have := run_inv evs (St.init regs) lines threads b l hl hln ht htn
  rw [closed_init, pend_init] at this
  simp only [St.init] at this ⊢
  omega

/-- a RETURN event (return, yield, await-suspension, unwinding) of a registered line leaves the
    thread's slot for that block empty: a trace in which every frame that started a line later
    emits a RETURN is quiescent at its end -/
theorem return_clears_slot (s : St) (e : Ev) (h : (e.b, e.l) ∈ s.regs) (hr : e.isLine = false) :
    (cb s e).last e.t e.b = none := by
  simp [cb, h, hr, setLast_last]

/-- non-vacuity: a concrete recursive trace (outer line 2 → inner line 2 → inner RETURN → outer line 3
    → RETURN) meets every hypothesis and reports 2 hits for line 2 and 1 for line 3 -/
def exRegs : List (Blk × Int) := [(⟨0,0⟩, 2), (⟨0,0⟩, 3)]
def exEvs : List Ev :=
  [⟨0, 1, ⟨0,0⟩, 2, true, 0, 0⟩, ⟨0, 2, ⟨0,0⟩, 2, true, 0, 0⟩, ⟨0, 2, ⟨0,0⟩, 2, false, 0, 0⟩,
   ⟨0, 1, ⟨0,0⟩, 3, true, 0, 0⟩, ⟨0, 1, ⟨0,0⟩, 3, false, 0, 0⟩]
theorem example_nonvacuous :
    pend (run (St.init exRegs) exEvs) [0] ⟨0,0⟩ 2 = 0 ∧
    closed (run (St.init exRegs) exEvs) [2, 3] ⟨0,0⟩ 2 = 2 ∧
    closed (run (St.init exRegs) exEvs) [2, 3] ⟨0,0⟩ 3 = 1 := by decide

/-! ## the same at the level of the profiler object (`Model.Prof`)

Histories are arbitrary lists of operations: functions come into existence, are registered (again and again), threads enable and
disable (plainly or by count), trace events arrive — in any order, from any state.  `delivered` counts the LINE events of `(b, l)`
that arrive while tracing is installed in their thread and the line is registered; `dropped` counts pending lines thrown away by a
`disable()` that ran while the line was still executing (the mid-flight disable the property excludes). -/
section profiler
open LPVerif.Prof

/-- **conservation for every history**: stored + pending + dropped = initial + delivered -/
theorem profiler_hits_conserved (ops : List Op) (s : Prof.St) (lines : List Int) (threads : List Nat) (b : Blk) (l : Int)
    (hl : ∀ c, (b, c) ∈ (s.run ops).core.abs.regs → c ∈ lines) (hln : lines.Nodup)
    (hth : ∀ op ∈ ops, ∀ t, op.thread = some t → t ∈ threads) (htn : threads.Nodup) :
    closed (s.run ops).core.abs lines b l + pend (s.run ops).core.abs threads b l + dropped s ops b l
      = closed s.core.abs lines b l + pend s.core.abs threads b l + delivered s ops b l :=
  run_conservation ops s lines threads b l hl hln hth htn

/-- **C01 at the profiler**: starting from a fresh profiler, once no slot is pending at `l` and no `disable()` interrupted a
    line, the stored hit count of `(b, l)` is exactly the number of LINE events delivered for it -/
theorem profiler_hits_exact (ops : List Op) (lines : List Int) (threads : List Nat) (b : Blk) (l : Int)
    (hl : ∀ c, (b, c) ∈ (Prof.St.init.run ops).core.abs.regs → c ∈ lines) (hln : lines.Nodup)
    (hth : ∀ op ∈ ops, ∀ t, op.thread = some t → t ∈ threads) (htn : threads.Nodup)
    (hq : pend (Prof.St.init.run ops).core.abs threads b l = 0) (hd : dropped Prof.St.init ops b l = 0) :
    closed (Prof.St.init.run ops).core.abs lines b l = delivered Prof.St.init ops b l := by
  have h := run_conservation ops Prof.St.init lines threads b l hl hln hth htn
  have h0 : bal Prof.St.init lines threads b l = 0 := by
    unfold bal Prof.St.init
    simp only [abs_init, closed_init, pend_init]
  unfold bal at h h0
  omega

/-- events that arrive while tracing is not installed in their thread change nothing at all -/
theorem untraced_inert (s : Prof.St) (e : Ev) (h : s.tracing e.t = false) : s.step (.ev e) = s := by
  simp [Prof.St.step, Prof.St.event, h]

/-- **C01 as `get_stats` reports it.**  For every history from a fresh profiler — whatever bytecode the functions arrive with (compiler-produced,
    or padded by an earlier profiler of the same process: no hypothesis since the repair of F-C04c): the hits reported for line `l` under a label are — once nothing is pending at `l` and no `disable()`
    interrupted a line — exactly the LINE events delivered for line `l` of the bytecodes registered under that label, summed over
    those code objects (a function registered twice has two of them).  Nothing of another bytecode is counted, nothing is lost in a
    bucket `get_stats` does not read. -/
theorem reported_hits_exact (ops : List Op) (lab : Nat) (l : Int) (threads : List Nat)
    (hth : ∀ op ∈ ops, ∀ t, op.thread = some t → t ∈ threads) (htn : threads.Nodup)
    (hq : ∀ p ∈ (Prof.St.init.run ops).chm, pend (Prof.St.init.run ops).core.abs threads p.1.blk l = 0)
    (hd : ∀ p ∈ (Prof.St.init.run ops).chm, dropped Prof.St.init ops p.1.blk l = 0) :
    reportedHits (Prof.St.init.run ops) lab l
      = (((Prof.St.init.run ops).chm.filter (fun p => p.1.label = lab)).map fun p => delivered Prof.St.init ops p.1.blk l).sum := by
  have hown := (run_own ops Prof.St.init init_own).ownV
  unfold reportedHits
  have hfull := sumHits_full (Prof.St.init.run ops).view hown
    ((Prof.St.init.run ops).chm.filter (fun p => p.1.label = lab)) (fun p hp => (List.mem_filter.mp hp).1) l
  simp only [Prof.St.view] at hfull
  rw [hfull]
  congr 1
  apply List.map_congr_left
  intro p hp
  have hp' := (List.mem_filter.mp hp).1
  exact profiler_hits_exact ops _ threads p.1.blk l (fun c hc => mem_candLines _ _ _ hc) (candLines_nodup _ _) hth htn
    (hq p hp') (hd p hp')

end profiler

end LPVerif.Props.C01
