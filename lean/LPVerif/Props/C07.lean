import LPVerif.Lemmas.Skel
import LPVerif.Generated.Skeletons
import LPVerif.Model.Kernprof
/-!
# C07 — kernprof runs a program the way python itself would

What is logic here is proved; what is runtime (stdout / stderr content, exit latency, the import system) is only
exercised by the differential harness K07 against a direct `python` run.
* `env_equiv` — the environment `_main` hands to the program (`sys.argv[1:]`, `__name__`, `__file__`, `sys.path[0]`)
  equals what `python script …` / `python -m module …` provide, for all options; `argv0_module_witness` is the
  known finding F-C07b (`-m`: `sys.argv[0]` is the module name, python gives the file; pinned by the test-suite).
* `timers_stopped` — every `RepeatedTimer` that is started is stopped on every way out, so kernprof does not outlive
  the program (F-C07a, repaired in e5497da).
* `setup_once_first_unprofiled` — the setup file is executed at most once, before any profiler exists.
* `findScript_spec` — a script named without a path is the first PATH directory (in order, empty entries skipped) that holds it.
-/
namespace LPVerif.Props.C07
open LPVerif.Skel LPVerif.Generated LPVerif.Kernprof

/-- **C07 (environment)**, all fields except `argv[0]` -/
theorem env_equiv (o : Opts) (cwd : String) (dirname : String → String) :
    (kernprofEnv o cwd dirname).argv.tail = (pythonEnv o cwd dirname).argv.tail ∧
    (kernprofEnv o cwd dirname).name = (pythonEnv o cwd dirname).name ∧
    (kernprofEnv o cwd dirname).file = (pythonEnv o cwd dirname).file ∧
    (kernprofEnv o cwd dirname).path0 = (pythonEnv o cwd dirname).path0 := ⟨rfl, rfl, rfl, rfl⟩

/-- in script mode `argv[0]` agrees as well -/
theorem env_equiv_script (o : Opts) (cwd : String) (dirname : String → String) (h : o.isModule = false) :
    kernprofEnv o cwd dirname = pythonEnv o cwd dirname := by
  simp [kernprofEnv, pythonEnv, h]

/-- **F-C07b**: in `-m` mode `argv[0]` is the module name where python gives the file path -/
theorem argv0_module_witness :
    (kernprofEnv ⟨true, "pkg.mod", "/r/pkg/mod.py", ["a"], none⟩ "/r" id).argv
      ≠ (pythonEnv ⟨true, "pkg.mod", "/r/pkg/mod.py", ["a"], none⟩ "/r" id).argv := by decide

def timersBalanced : Out → List Nat → Bool := fun _ log => countIn role_timer_start log == countIn role_timer_stop log
def setupOnceFirst : Out → List Nat → Bool := fun _ log =>
  countIn role_setup_exec log ≤ 1 &&
  (countIn role_setup_exec log == 0 ||
    (before role_setup_exec (role_make_line_profiler ++ role_make_cprofile) log && before role_find_setup role_setup_exec log))

theorem leaves_exist :
    role_timer_start.length = 1 ∧ role_timer_stop.length = 1 ∧ role_setup_exec.length = 1 ∧ role_make_line_profiler.length = 1 ∧
    role_make_cprofile.length = 1 := by decide

/-- **C07 (terminates promptly).** On every path, as many timers are stopped as were started. -/
theorem timers_stopped (env : Env Nat) (k : Nat) :
    timersBalanced (exec env kernprofTail k).1 (exec env kernprofTail k).2.1 = true :=
  forall_env_of_check kernprofTail timersBalanced (by decide +kernel) env k

/-- **C07 (setup file).** The setup file runs at most once, and before either profiler is created (so unprofiled). -/
theorem setup_once_first_unprofiled (env : Env Nat) (k : Nat) :
    setupOnceFirst (exec env kernprofHead k).1 (exec env kernprofHead k).2.1 = true :=
  forall_env_of_check kernprofHead setupOnceFirst (by decide +kernel) env k

/-- **C07 (scripts on PATH).** -/
theorem findScript_spec (isFile : String → Bool) (join : String → String → String) (name : String) (path : List String) :
    findScript isFile join name path =
      if isFile name then some name
      else ((path.filter (fun d => d ≠ "")).find? (fun d => isFile (join d name))).map (fun d => join d name) := by
  induction path with
  | nil => simp [findScript]
  | cons d r ih =>
    by_cases hf : isFile name = true
    · simp [findScript, hf]
    · by_cases hd : d = ""
      · simp only [findScript, hf, hd, if_false, if_true]
        rw [ih]; simp [hf]
      · by_cases hj : isFile (join d name) = true
        · simp [findScript, hf, hd, hj, List.filter_cons, List.find?_cons]
        · simp only [findScript, hf, hd, hj, if_false]
          rw [ih]; simp [hf, hd, hj, List.filter_cons, List.find?_cons]

end LPVerif.Props.C07
