import LPVerif.Lemmas.Skel
import LPVerif.Generated.Skeletons
import LPVerif.Model.Kernprof
import LPVerif.Lemmas.Timer
import LPVerif.Generated.TimerProg
import LPVerif.Generated.CompileSites
/-!
# C07 — kernprof runs a program the way python itself would

What is logic here is proved; what is runtime (stdout / stderr content, exit latency, the import system) is only
exercised by the differential harness K07 against a direct `python` run.
* `env_equiv` — the environment `_main` hands to the program (`sys.argv[1:]`, `__name__`, `__file__`, `sys.path[0]`)
  equals what `python script …` / `python -m module …` provide, for all options; `argv0_module_witness` is the
  known finding F-C07b (`-m`: `sys.argv[0]` is the module name, python gives the file; pinned by the test-suite).
* `timers_stopped` — every `RepeatedTimer` that is started is stopped on every way out, so kernprof does not outlive
  the program (F-C07a, repaired in e5497da).
* `setup_once_first_unprofiled` — the setup file is executed at most once, before any profiler exists.
* `findScript_spec` — a script named without a path is the first PATH directory (in order, empty entries skipped) that holds it.
-/
namespace LPVerif.Props.C07
open LPVerif.Skel LPVerif.Generated LPVerif.Kernprof

/-- **C07 (environment)**, all fields except `argv[0]` -/
theorem env_equiv (o : Opts) (cwd : String) (dirname : String → String) :
    (kernprofEnv o cwd dirname).argv.tail = (pythonEnv o cwd dirname).argv.tail ∧
    (kernprofEnv o cwd dirname).name = (pythonEnv o cwd dirname).name ∧
    (kernprofEnv o cwd dirname).file = (pythonEnv o cwd dirname).file ∧
    (kernprofEnv o cwd dirname).path0 = (pythonEnv o cwd dirname).path0 := ⟨rfl, rfl, rfl, rfl⟩

/-- in script mode `argv[0]` agrees as well -/
theorem env_equiv_script (o : Opts) (cwd : String) (dirname : String → String) (h : o.isModule = false) :
    kernprofEnv o cwd dirname = pythonEnv o cwd dirname := by
  simp [kernprofEnv, pythonEnv, h]

/-- **F-C07b**: in `-m` mode `argv[0]` is the module name where python gives the file path -/
theorem argv0_module_witness :
    (kernprofEnv ⟨true, "pkg.mod", "/r/pkg/mod.py", ["a"], none⟩ "/r" id).argv
      ≠ (pythonEnv ⟨true, "pkg.mod", "/r/pkg/mod.py", ["a"], none⟩ "/r" id).argv := by decide

def timersBalanced : Out → List Nat → Bool := fun _ log => countIn role_timer_start log == countIn role_timer_stop log
def setupOnceFirst : Out → List Nat → Bool := fun _ log =>
  countIn role_setup_exec log ≤ 1 &&
  (countIn role_setup_exec log == 0 ||
    (before role_setup_exec (role_make_line_profiler ++ role_make_cprofile) log && before role_find_setup role_setup_exec log))

theorem leaves_exist :
    role_timer_start.length = 1 ∧ role_timer_stop.length = 1 ∧ role_setup_exec.length = 1 ∧ role_make_line_profiler.length = 1 ∧
    role_make_cprofile.length = 1 := by decide

/-- **C07 (terminates promptly).** On every path, as many timers are stopped as were started. -/
theorem timers_stopped (env : Env Nat) (k : Nat) :
    timersBalanced (exec env kernprofTail k).1 (exec env kernprofTail k).2.1 = true :=
  forall_env_of_check kernprofTail timersBalanced (by decide +kernel) env k

/-- **C07 (setup file).** The setup file runs at most once, and before either profiler is created (so unprofiled). -/
theorem setup_once_first_unprofiled (env : Env Nat) (k : Nat) :
    setupOnceFirst (exec env kernprofHead k).1 (exec env kernprofHead k).2.1 = true :=
  forall_env_of_check kernprofHead setupOnceFirst (by decide +kernel) env k

/-- **C07 (scripts on PATH).** -/
theorem findScript_spec (isFile : String → Bool) (join : String → String → String) (name : String) (path : List String) :
    findScript isFile join name path =
      if isFile name then some name
      else ((path.filter (fun d => d ≠ "")).find? (fun d => isFile (join d name))).map (fun d => join d name) := by
  induction path with
  | nil => simp [findScript]
  | cons d r ih =>
    by_cases hf : isFile name = true
    · simp [findScript, hf]
    · by_cases hd : d = ""
      · simp only [findScript, hf, hd, if_false, if_true]
        rw [ih]; simp [hf]
      · by_cases hj : isFile (join d name) = true
        · simp [findScript, hf, hd, hj, List.filter_cons, List.find?_cons]
        · simp only [findScript, hf, hd, hj, if_false]
          rw [ih]; simp [hf, hd, hj, List.filter_cons, List.find?_cons]

/-! ## "kernprof terminates promptly once the program has finished": the `-i` timer under every thread schedule

`RepeatedTimer` re-arms itself from the timer thread while the main thread calls `stop()` whenever the program is over.
The theorems quantify over *all* schedules (`List Choice`: which thread executes its next indivisible instruction, which armed
timer fires) of the program the translator reads from `kernprof.py` (`Generated.repeatedTimer`). -/
section timer
open LPVerif.Timer

/-- the class as it is in the tree passes the decidable well-formedness check -/
theorem repeatedTimer_wf : Generated.repeatedTimer.wf = true := by decide

/-- **for every well-formed program and every schedule: once `stop()` has returned, no timer object is armed or can still be
    started — nothing keeps the process alive, whatever the timer thread was doing when `stop()` arrived** -/
theorem timer_quiet_after_stop (P : Prog) (h : P.wf = true) (sched : List Choice)
    (hd : (exec P (init P) sched).mainDone = true) : (exec P (init P) sched).quiet = true := by
  have hI := exec_inv P (wf_spec P h) sched (init P) (init_inv P h)
  simp only [St.mainDone, Bool.and_eq_true, List.isEmpty_iff] at hd
  have hst : (exec P (init P) sched).sh.core.stopped = true := by
    rcases hI.willSeal with hs | ⟨i, hi, _⟩
    · exact hs
    · rw [hd.2] at hi; cases hi
  simp only [St.quiet, Bool.and_eq_true, Bool.not_eq_true', beq_iff_eq]
  exact ⟨hI.sealed hst, hI.noLeak⟩

/-- at every moment of every schedule: at most one live timer object, none leaked -/
theorem timer_never_two (P : Prog) (h : P.wf = true) (sched : List Choice) :
    (exec P (init P) sched).sh.leaked = 0 ∧ (exec P (init P) sched).sh.core.cur.liveN ≤ 1 := by
  have hI := exec_inv P (wf_spec P h) sched (init P) (init_inv P h)
  exact ⟨hI.noLeak, by have := hI.count; omega⟩

/-- instructions still to be executed by the timer threads in flight -/
def left (s : St) : Nat := (s.runs.map List.length).sum

theorem setNth_left (runs : List (List Instr)) (k : Nat) (old new : List Instr) (h : runs[k]? = some old) :
    ((setNth runs k new).map List.length).sum + old.length = (runs.map List.length).sum + new.length := by
  induction runs generalizing k with
  | nil => simp at h
  | cons a r ih =>
    cases k with
    | zero =>
      simp only [List.getElem?_cons_zero, Option.some.injEq] at h
      subst h
      simp only [setNth, List.map_cons, List.sum_cons]; omega
    | succ k =>
      simp only [List.getElem?_cons_succ] at h
      have := ih k h
      simp only [setNth, List.map_cons, List.sum_cons] at this ⊢; omega

/-- after `stop()`: no choice of the scheduler starts a new timer thread, and every step a thread takes uses up one of the
    finitely many instructions left (the dump in flight finishes, nothing else happens) -/
theorem after_stop_winds_down (P : Prog) (s : St) (hI : Inv s) (hd : s.mainDone = true) (c : Choice) :
    (step P s c).mainDone = true ∧ (step P s c).runs.length = s.runs.length ∧ left (step P s c) ≤ left s ∧
    (step P s c ≠ s → left (step P s c) < left s) := by
  simp only [St.mainDone, Bool.and_eq_true, List.isEmpty_iff] at hd
  have hst : s.sh.core.stopped = true := by
    rcases hI.willSeal with hs | ⟨i, hi, _⟩
    · exact hs
    · rw [hd.2] at hi; cases hi
  cases c with
  | main => simp [step, hd.1, hd.2, St.mainDone]
  | run k =>
    simp only [step]
    split
    · rename_i i rest hR
      have hl := setNth_left s.runs k (i :: rest) (rest.drop (execCore s.sh.core i).2.2.2) hR
      have hdrop : (rest.drop (execCore s.sh.core i).2.2.2).length ≤ rest.length := by simp
      simp only [List.length_cons] at hl
      refine ⟨by simp [St.mainDone, hd.1, hd.2], by simp [setNth_length], ?_, fun _ => ?_⟩
      · simp only [left, execInstr]; omega
      · simp only [left, execInstr]; omega
    · exact ⟨by simp [St.mainDone, hd.1, hd.2], rfl, Nat.le_refl _, fun h => absurd rfl h⟩
  | fireCur =>
    simp only [step]
    have : s.sh.core.cur ≠ .armed := by
      intro h
      have := hI.sealed hst
      rw [h] at this; cases this
    simp [this, St.mainDone, hd.1, hd.2]
  | fireLeaked =>
    simp only [step]
    have := hI.noLeak
    simp [this, St.mainDone, hd.1, hd.2]

/-- **no dump is written after `stop()` has returned** (kernprof writes the final statistics right after `stop()`; a periodic
    dump still in flight would overwrite them with older ones — finding F-C06e): for every well-formed program, once the main
    thread is through `stop()`, whatever the scheduler does, the number of dumps written stays what it was -/
theorem no_dump_after_stop (P : Prog) (h : P.wf = true) (sched more : List Choice)
    (hd : (exec P (init P) sched).mainDone = true) :
    (exec P (exec P (init P) sched) more).sh.dumps = (exec P (init P) sched).sh.dumps := by
  have hP := wf_spec P h
  have hI := exec_inv P hP sched (init P) (init_inv P h)
  generalize exec P (init P) sched = s at hd hI
  induction more generalizing s with
  | nil => rfl
  | cons c r ih =>
    have hwd := after_stop_winds_down P s hI hd c
    have hI' := step_inv P hP s hI c
    have hd' := hd
    simp only [St.mainDone, Bool.and_eq_true, List.isEmpty_iff] at hd'
    have hst : s.sh.core.stopped = true := by
      rcases hI.willSeal with hs | ⟨i, hi, _⟩
      · exact hs
      · rw [hd'.2] at hi; cases hi
    have hstep : (step P s c).sh.dumps = s.sh.dumps := by
      cases c with
      | main => simp [step, hd'.1, hd'.2]
      | run k =>
        simp only [step]
        split
        · rename_i i rest hR
          have hsi : i.safe = true := hI.safe i (by
            simp only [St.pending, List.mem_append]
            exact Or.inr (mem_flatten_of_getElem? s.runs k _ hR i (List.mem_cons_self ..)))
          have := (safe_spec i hsi s.sh.core).2.2 hst
          simp only [execInstr, this, Nat.add_zero]
        · rfl
      | fireCur =>
        simp only [step]
        split <;> rfl
      | fireLeaked =>
        simp only [step]
        split <;> rfl
    simp only [Timer.exec, List.foldl_cons] at ih ⊢
    rw [← hstep]
    exact ih (step P s c) hwd.1 hI'

/-- … for the class in the tree -/
theorem kernprof_timer_quiet (sched : List Choice)
    (hd : (exec Generated.repeatedTimer (init Generated.repeatedTimer) sched).mainDone = true) :
    (exec Generated.repeatedTimer (init Generated.repeatedTimer) sched).quiet = true :=
  timer_quiet_after_stop _ repeatedTimer_wf sched hd

/-- the class before the repair of F-C07d (no lock, no `_stopped`) -/
def legacyTimer : Prog :=
  { ctor := [.test [.notRunning] 4, .act .nop, .act .newTimer, .act .startTimer, .act (.setRunning true)],
    run := [.act (.setRunning false), .test [.notRunning] 4, .act .nop, .act .newTimer, .act .startTimer, .act (.setRunning true),
            .act .dump],
    stop := [.act .cancel, .act (.setRunning false)] }

theorem legacy_not_wf : legacyTimer.wf = false := by decide

/-- the class after the repair of F-C07d and before that of F-C06e: the dump itself is outside the lock -/
def lockedTimerDumpOutside : Prog :=
  { ctor := [.atomic [([.notRunning, .notStopped], [.nop, .newTimer, .startTimer, .setRunning true])]],
    run := [.act (.setRunning false), .atomic [([.notRunning, .notStopped], [.nop, .newTimer, .startTimer, .setRunning true])],
            .act .dump],
    stop := [.atomic [([], [.setStopped true, .cancel, .setRunning false])]] }

/-- **F-C06e witness**: the timer fires, its thread re-arms, `stop()` runs to its end (kernprof now writes the final file) — and
    only then does the timer thread write its dump (replayed on the real code: `corpus/C06/f-c06e-stale-dump.py`) -/
theorem dump_after_stop_witness :
    let s1 := exec lockedTimerDumpOutside (init lockedTimerDumpOutside) [.main, .fireCur, .run 0, .run 0, .main]
    let s2 := exec lockedTimerDumpOutside s1 [.run 0]
    s1.mainDone = true ∧ s1.sh.dumps = 0 ∧ s2.sh.dumps = 1 ∧ lockedTimerDumpOutside.wf = false := by decide

/-- **F-C07d witness**: `stop()` arriving after the timer fired and before `_run` re-armed cancels the timer that has
    already fired; the new one is armed afterwards and nobody cancels it — `stop()` has returned and a timer is live
    (replayed on the real class: `corpus/C07/f-c07d-timer-race.py`) -/
theorem legacy_race_witness :
    let sched : List Choice := [.main, .main, .main, .main, .main,      -- __init__: first timer armed
                                .fireCur, .run 0,                       -- it fires; _run: is_running = False
                                .main, .main,                           -- stop(): cancel (too late), is_running = False
                                .run 0, .run 0, .run 0, .run 0]         -- _run goes on: start() arms the next timer
    let s := exec legacyTimer (init legacyTimer) sched
    s.mainDone = true ∧ s.quiet = false ∧ s.sh.core.cur = .armed := by decide

/-- non-vacuity of the theorems for the tree's class: a schedule in which `stop()` arrives in the same window; the timer
    thread's `start()` then finds `_stopped` set and arms nothing -/
example :
    let sched : List Choice := [.main, .fireCur, .run 0, .main, .run 0, .run 0]
    let s := exec Generated.repeatedTimer (init Generated.repeatedTimer) sched
    s.mainDone = true ∧ s.quiet = true ∧ s.sh.dumps = 0 ∧ s.runs = [[]] := by decide

/-- … and one in which the periodic dump is written before `stop()` arrives -/
example :
    let sched : List Choice := [.main, .fireCur, .run 0, .run 0, .run 0, .main]
    let s := Timer.exec Generated.repeatedTimer (init Generated.repeatedTimer) sched
    s.mainDone = true ∧ s.quiet = true ∧ s.sh.dumps = 1 := by decide

end timer

/-! ## the program is compiled as python compiles it

`compile()` (and `exec` / `eval` of a string) inherit the `from __future__ import …` features of the file that calls them unless
`dont_inherit=True` is passed.  The translator lists every such call in kernprof.py and the package with the features of its file. -/

/-- **C07 (same behaviour as under python).** No place where kernprof or the package compiles code it was handed — the script
    (`execfile`), the rewritten tree (`autoprofile.run`), `runctx` statements, `%lprun` arguments — passes a `__future__` feature
    of its own file on to that code (a `from __future__ import annotations` in kernprof.py would silently turn every annotation of
    the profiled program into a string). -/
theorem compiled_without_inherited_features :
    ∀ s ∈ Generated.compileSites, s.2.2.2.1 = [] ∨ s.2.2.2.2 = true := by decide

/-- not vacuous: the script compiler of `kernprof.execfile` and the tree compiler of `autoprofile.run` are among the sites -/
theorem compile_sites_exist :
    (Generated.compileSites.any fun s => s.1 == "kernprof.py" && s.2.2.1 == "compile") = true ∧
    (Generated.compileSites.any fun s => s.1 == "line_profiler/autoprofile/autoprofile.py" && s.2.2.1 == "compile") = true := by decide

end LPVerif.Props.C07
