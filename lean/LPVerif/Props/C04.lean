import LPVerif.Lemmas.CoreExec
import LPVerif.Lemmas.Prof
import LPVerif.Lemmas.ProfOwn
/-!
# C04 — statistics belong only to the function that actually ran

In the model a function's identity is its bytecode value `Blk` (what the implementation hashes).
Theorems: code that is not registered changes nothing; what is stored for a block depends only on
the events of that block; registering a byte-identical twin gives it a different block.  The
hypothesis the property needs beyond that — no *unregistered* function with the bytes of a registered
one runs on one of its line numbers (`NoAlias`) — is false on the real code (finding F-C04a); the
witness is `alias_witness`.
-/
namespace LPVerif.Props.C04
open LPVerif.Core

/-- events of unregistered (block, line) pairs leave the whole state unchanged -/
theorem unregistered_inert (s : St) (e : Ev) (h : (e.b, e.l) ∉ s.regs) : cb s e = s := by
  simp [cb, h]

/-- an event of another block never changes what is stored for block `b` -/
theorem other_block_inert (s : St) (e : Ev) (b : Blk) (hb : e.b ≠ b) (c o : Int) :
    (cb s e).hits b c o = s.hits b c o ∧ (cb s e).time b c o = s.time b c o := by
  unfold cb
  split
  · simp only [setLast_hits, setLast_time]
    unfold St.closePending St.bump
    have : ¬ b = e.b := fun h => hb h.symm
    split <;> simp [this]
  · exact ⟨rfl, rfl⟩

/-- two states agree on everything that concerns block `b` -/
def AgreeOn (b : Blk) (s s' : St) : Prop :=
  s.regs = s'.regs ∧ (∀ c o, s.hits b c o = s'.hits b c o) ∧ (∀ c o, s.time b c o = s'.time b c o) ∧
  (∀ t, s.last t b = s'.last t b)

theorem agree_same (b : Blk) (s s' : St) (e : Ev) (he : e.b = b) (h : AgreeOn b s s') :
    AgreeOn b (cb s e) (cb s' e) := by
  obtain ⟨hr, hh, ht, hl⟩ := h
  unfold cb
  rw [← hr]
  by_cases hreg : (e.b, e.l) ∈ s.regs
  · simp only [hreg, if_true]
    refine ⟨by simp [hr], ?_, ?_, ?_⟩
    · intro c o
      simp only [setLast_hits]
      unfold St.closePending
      rw [he, ← hl e.t]
      cases hlast : s.last e.t b with
      | none => exact hh c o
      | some p => simp only [St.bump]; rw [hh c o]
    · intro c o
      simp only [setLast_time]
      unfold St.closePending
      rw [he, ← hl e.t]
      cases hlast : s.last e.t b with
      | none => exact ht c o
      | some p => simp only [St.bump]; rw [ht c o]
    · intro t
      simp only [setLast_last, closePending_last, hl t]
  · simp only [hreg, if_false]; exact ⟨hr, hh, ht, hl⟩

theorem agree_other (b : Blk) (s s' : St) (e : Ev) (he : e.b ≠ b) (h : AgreeOn b s s') :
    AgreeOn b (cb s e) s' := by
  obtain ⟨hr, hh, ht, hl⟩ := h
  refine ⟨by simp [hr], ?_, ?_, ?_⟩
  · intro c o; rw [(other_block_inert s e b he c o).1]; exact hh c o
  · intro c o; rw [(other_block_inert s e b he c o).2]; exact ht c o
  · intro t
    unfold cb
    split
    · have : ¬ b = e.b := fun h => he h.symm
      simp [setLast_last, this, hl t]
    · exact hl t

/-- **attribution_exact**: for every event list, what is stored (hits and time) for block `b` is what
    the sub-list of `b`'s own events produces — other code, registered or not, contributes nothing -/
theorem attribution_exact (evs : List Ev) (s s' : St) (b : Blk) (h : AgreeOn b s s') :
    AgreeOn b (run s evs) (run s' (evs.filter (fun e => e.b = b))) := by
  induction evs generalizing s s' with
  | nil => exact h
  | cons e r ih =>
    simp only [run, List.foldl_cons, List.filter_cons] at ih ⊢
    by_cases he : e.b = b
    · simp only [he, decide_true, if_true, List.foldl_cons]
      exact ih _ _ (agree_same b s s' e he h)
    · simp only [he, decide_false]
      exact ih _ _ (agree_other b s s' e he h)

theorem attribution_closed (evs : List Ev) (regs) (lines : List Int) (b : Blk) (l : Int) :
    closed (run (St.init regs) evs) lines b l
      = closed (run (St.init regs) (evs.filter (fun e => e.b = b))) lines b l := by
  have h := attribution_exact evs (St.init regs) (St.init regs) b ⟨rfl, fun _ _ => rfl, fun _ _ => rfl, fun _ => rfl⟩
  unfold closed
  congr 1
  apply List.map_congr_left
  intro c _
  exact h.2.1 c l

/-- a byte-identical function registered second is padded: its block differs from the first one's — and from the
    bytecode of *every* code object registered so far (`codes`), whatever was registered or re-registered before
    (repair of F-C04b: `len(dupes_map[co_code]) + 1` NOPs alone are not unique across re-registrations).  The same holds for a
    function whose bytecode `dupes_map` does not know but which another registered code object already has (repair of F-C04c) -/
theorem twin_gets_fresh_block (dupes : List (Blk × Nat)) (codes : List Prof.Code) (code : Prof.Code)
    (h : (Prof.alookup code.blk dupes).isSome = true ∨ Prof.clashes codes code = true) :
    (Prof.padStep dupes codes code).1.blk ≠ code.blk ∧ (Prof.padStep dupes codes code).1.blk.base = code.blk.base ∧
    (Prof.padStep dupes codes code).1.blk ∉ codes.map (·.blk) := by
  refine ⟨?_, ?_, Prof.padStep_fresh dupes codes code h⟩
  · intro heq
    have hp := congrArg Blk.pad heq
    unfold Prof.padStep at hp
    cases hd : Prof.alookup code.blk dupes with
    | some n =>
      simp only [hd] at hp
      have hge := Prof.findFree_ge (codes.map (·.blk)) code.blk.base (Prof.maxPad (codes.map (·.blk)) + 1) (code.blk.pad + (n + 2))
      omega
    | none =>
      rcases h with h | h
      · rw [hd] at h; cases h
      · simp only [hd, h, if_true] at hp
        have hge := Prof.findFree_ge (codes.map (·.blk)) code.blk.base (Prof.maxPad (codes.map (·.blk)) + 1) (code.blk.pad + 2)
        omega
  · unfold Prof.padStep
    split
    · rfl
    · split <;> rfl

/-- **registered code objects never share a bytecode**: in every state reachable from a fresh profiler — any number of
    registrations and re-registrations of byte-identical functions, arriving with **any** bytecode (the compiler's, or one that an
    earlier profiler of the same process had padded: no hypothesis on the declared functions since the repair of F-C04c) — two
    entries of `code_hash_map` with the same bytecode are the same code object: a bucket row belongs to one function's label only,
    every registered key is owned by exactly one entry, and an entry owns all keys of its bytecode -/
theorem registered_bytecodes_distinct (ops : List Prof.Op)
    (p q : Prof.Code × List (Blk × Int)) (hp : p ∈ (Prof.St.init.run ops).chm) (hq : q ∈ (Prof.St.init.run ops).chm)
    (hb : p.1.blk = q.1.blk) : p = q := by
  have hown := (Prof.run_own ops Prof.St.init Prof.init_own).ownV
  exact Prof.entry_unique hown.codesNodup hp hq (hown.blkUnique p hp q hq hb)

/-- … and buckets of lines that are not registered stay empty: nothing is recorded where `get_stats` does not look -/
theorem unregistered_buckets_empty (ops : List Prof.Op) (b : Blk) (c o : Int)
    (h : (b, c) ∉ (Prof.St.init.run ops).core.abs.regs) : (Prof.St.init.run ops).core.abs.hits b c o = 0 :=
  (Prof.run_own ops Prof.St.init Prof.init_own).ownV.zero b c o h

/-- **F-C04a witness**: block ⟨0,0⟩ line 2 is registered (function f); an *unregistered* byte-identical
    function running on the same line number (frame 9) produces events the callback cannot tell from f's:
    f ran line 2 once, the report says 2. -/
theorem alias_witness :
    closed (run (St.init [(⟨0,0⟩, 2)])
      [⟨0, 1, ⟨0,0⟩, 2, true, 0, 0⟩, ⟨0, 1, ⟨0,0⟩, 2, false, 0, 0⟩,      -- f, frame 1
       ⟨0, 9, ⟨0,0⟩, 2, true, 0, 0⟩, ⟨0, 9, ⟨0,0⟩, 2, false, 0, 0⟩])     -- the unregistered twin, frame 9
      [2] ⟨0,0⟩ 2 = 2 := by decide

/-- **F-C04b (repaired)**: the history that used to give two functions the same padded bytecode — four byte-identical
    functions f, t, u, v (labels 0-3) on the same line numbers, registered f, t, t, t, f, u, v — now pads `v` past the
    6 NOPs `t` already has (real code: `corpus/C04/f-c04b-padding-clash.json`). -/
theorem padding_clash_repaired :
    let code (lab : Nat) : Prof.Code := ⟨⟨0, 0⟩, lab, [5, 6]⟩
    let r1 := Prof.padStep [] [] (code 0)                                   -- add f
    let r2 := Prof.padStep r1.2 [r1.1] (code 1)                             -- add t      (3 NOPs)
    let r3 := Prof.padStep r2.2 [r1.1, r2.1] r2.1                           -- add t again: its padded bytes are new to dupes_map
    let r4 := Prof.padStep r3.2 [r1.1, r2.1] r3.1                           -- add t again: 6 NOPs
    let r5 := Prof.padStep r4.2 [r1.1, r2.1, r4.1] r1.1                     -- add f again (4 NOPs)
    let r6 := Prof.padStep r5.2 [r1.1, r2.1, r4.1, r5.1] (code 2)           -- add u (5 NOPs)
    let r7 := Prof.padStep r6.2 [r1.1, r2.1, r4.1, r5.1, r6.1] (code 3)     -- add v: 6 is taken -> 7
    r4.1.blk = ⟨0, 6⟩ ∧ r7.1.blk = ⟨0, 7⟩ := by decide

/-- **F-C04c (repaired)**: three copies a, b, c (labels 0-2) of one function on the same lines.  An earlier profiler had a and b,
    so b arrives with 3 NOPs; this profiler gets a, c, b: it pads c to 3 NOPs — b's very bytes, which `dupes_map` (keyed by what
    it was handed: ⟨0,0⟩) does not know.  Before the repair b was registered as it came and shared c's line hashes (`beforeRepair`:
    the old duplicate test); now the clash with c's registered bytecode is seen and b is padded on (real code:
    `corpus/C04/f-c04c-earlier-profiler.json`). -/
def beforeRepair (dupes : List (Blk × Nat)) (codes : List Prof.Code) (code : Prof.Code) : Prof.Code :=
  match Prof.alookup code.blk dupes with
  | some n => { code with blk := { code.blk with pad := Prof.findFree (codes.map (·.blk)) code.blk.base (code.blk.pad + (n + 2)) (Prof.maxPad (codes.map (·.blk)) + 1) } }
  | none => code
theorem earlier_profiler_clash_repaired :
    let a : Prof.Code := ⟨⟨0, 0⟩, 0, [2, 3]⟩
    let b : Prof.Code := ⟨⟨0, 3⟩, 1, [2, 3]⟩        -- padded by the earlier profiler
    let c : Prof.Code := ⟨⟨0, 0⟩, 2, [2, 3]⟩
    let r1 := Prof.padStep [] [] a
    let r2 := Prof.padStep r1.2 [r1.1] c
    let r3 := Prof.padStep r2.2 [r1.1, r2.1] b
    r2.1.blk = ⟨0, 3⟩ ∧ (beforeRepair r2.2 [r1.1, r2.1] b).blk = r2.1.blk ∧ r3.1.blk = ⟨0, 5⟩ := by decide

end LPVerif.Props.C04
