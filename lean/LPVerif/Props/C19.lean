import LPVerif.Lemmas.Skel
import LPVerif.Generated.Skeletons
import LPVerif.Model.Kernprof
/-!
# C19 — running kernprof in-process leaves the interpreter as it found it

(a) Heap model of `sys.argv` / `sys.path` (bindings + list objects): `main_restores` — whatever `_main` and the program
do to the heap (mutate, rebind, however they end), the bindings and the contents afterwards are those before.
`pinned_main_does_not_restore` is the witness for the pinned tree (F-C19a).
(b) Over the control skeletons dumped from the tree, for every environment (every option set, every outcome of every
user-code leaf and of the script lookup): the list restorers run on every way out (`restore_list_always`,
`main_wrapper_restores`), the profiler installed into the global `@profile` is taken out again and the previous state
put back exactly as often as it was installed (`install_balanced`), every timer that was started is stopped
(`timers_stopped`), `main` no longer carries decorators that capture import-time objects, and `autoprofile.run` brings the enable
count back to what it found however the script ends (`autoprofile_switches_off`).
-/
namespace LPVerif.Props.C19
open LPVerif.Skel LPVerif.Generated LPVerif.Kernprof

/-- **C19 (sys.argv, sys.path).** -/
theorem main_restores (body : Heap → Heap) (h : Heap) :
    (mainWrapper body h).argvRef = h.argvRef ∧ (mainWrapper body h).pathRef = h.pathRef ∧
    (mainWrapper body h).argv = h.argv ∧ (mainWrapper body h).path = h.path := by
  refine ⟨rfl, rfl, ?_, ?_⟩
  · simp [mainWrapper, Heap.argv, Heap.setList]
  · simp only [mainWrapper, Heap.path, Heap.setList]
    by_cases hap : h.pathRef = h.argvRef
    · simp [hap]
    · simp [hap]

/-- every other list object that `_main` did not touch is untouched by the wrapper -/
theorem main_frame (body : Heap → Heap) (h : Heap) (r : Nat) (hr1 : r ≠ h.argvRef) (hr2 : r ≠ h.pathRef) :
    (mainWrapper body h).lists r = (body h).lists r := by
  simp [mainWrapper, Heap.setList, hr1, hr2]

/-- the pinned tree: `_main` rebinds `sys.argv` (object 7 here) and the old binding is never put back -/
def demoHeap : Heap := ⟨0, 1, fun r => if r = 0 then ["caller"] else if r = 1 then ["/lib"] else []⟩
def rebindArgv (h : Heap) : Heap := ({ h with argvRef := 7 }).setList 7 ["script.py", "x"]
theorem pinned_main_does_not_restore :
    (mainWrapperPinned 0 1 rebindArgv demoHeap).argv ≠ demoHeap.argv ∧ (mainWrapper rebindArgv demoHeap).argv = demoHeap.argv := by
  decide

def restoredOnce : Out → List Nat → Bool := fun _ log => countIn role_restore_contents log == 1
def wrapperRestores : Out → List Nat → Bool := fun _ log =>
  countIn role_exit_restore_argv log == 1 && countIn role_exit_restore_path log == 1 && countIn role_rebind log == 1 &&
  before role_rebind (role_exit_restore_argv ++ role_exit_restore_path) log
def installBalanced : Out → List Nat → Bool := fun _ log =>
  countIn role_install log == countIn role_uninstall log && countIn role_uninstall log == countIn role_restore_global log &&
  countIn role_install log == countIn role_save_global log
def timersBalanced : Out → List Nat → Bool := fun _ log => countIn role_timer_start log == countIn role_timer_stop log

/-- the obligations are not vacuous: the named statements exist in the dumped skeletons -/
theorem leaves_exist :
    role_restore_contents.length = 1 ∧ role_exit_restore_argv.length = 1 ∧ role_exit_restore_path.length = 1 ∧ role_rebind.length = 1 ∧
    role_call_main.length = 1 ∧ role_install.length = 1 ∧ role_uninstall.length = 1 ∧ role_save_global.length = 1 ∧
    role_restore_global.length = 1 ∧ role_timer_start.length = 1 ∧ role_timer_stop.length = 1 := by decide

/-- `_restore_list` puts the contents back on every outcome of the code it surrounds (F-C19c, repaired in 48215c0) -/
theorem restore_list_always (env : Env Nat) (k : Nat) : countIn role_restore_contents (exec env restoreList k).2.1 = 1 := by
  have := forall_env_of_check restoreList restoredOnce (by decide +kernel) env k
  simpa [restoredOnce] using this

/-- `main`: both restorers exit and the bindings are put back exactly once, on every outcome of `_main` -/
theorem main_wrapper_restores (env : Env Nat) (k : Nat) :
    wrapperRestores (exec env kernprofMain k).1 (exec env kernprofMain k).2.1 = true :=
  forall_env_of_check kernprofMain wrapperRestores (by decide +kernel) env k

/-- no decorator of `main` captures `sys.argv` / `sys.path` at import time any more -/
theorem main_has_no_capturing_decorators : kernprofMainDecorators = [] := by decide

/-- **C19 (global `@profile`).** On every path from the installation to the end of `_main` — whatever the leaves that may
    raise do (script lookup, the program) — kernprof's profiler is taken out of the global decorator, and the previous `(enabled, _profile)` put
    back, exactly as often as it was installed (F-C19b, F-C19d; repaired in c8b0469, 0b88ecd) -/
theorem install_balanced (env : Env Nat) (k : Nat) :
    installBalanced (exec env kernprofFromInstall k).1 (exec env kernprofFromInstall k).2.1 = true :=
  forall_env_of_check kernprofFromInstall installBalanced (by decide +kernel) env k

/-- **C19 (no helper thread).** Every `RepeatedTimer` that was started is stopped (F-C07a, repaired in e5497da) -/
theorem timers_stopped (env : Env Nat) (k : Nat) :
    timersBalanced (exec env kernprofFromInstall k).1 (exec env kernprofFromInstall k).2.1 = true :=
  forall_env_of_check kernprofFromInstall timersBalanced (by decide +kernel) env k

/-! ## auto-profiling switches the profiler off again

`autoprofile.run` executes the rewritten script; the registration calls in it switch the profiler on by count and nothing in the
script switches it off (F-C19f).  Over the skeleton of `run` dumped from the tree: -/

def winddownAfterExec : Out → List Nat → Bool := fun _ log =>
  countIn role_ap_exec log == countIn role_ap_winddown log && before role_ap_save role_ap_exec log

theorem autoprofile_leaves_exist : role_ap_exec.length = 1 ∧ role_ap_save.length = 1 ∧ role_ap_winddown.length = 1 := by decide

/-- **C19 (no profiler is left enabled).** Whenever `autoprofile.run` gets as far as executing the script — however the script ends
    (return, `SystemExit`, `KeyboardInterrupt`, any exception), whatever the rewriting or compiling before it does — the enable count
    found before is recorded first and the count is brought back to it afterwards, exactly once (F-C19f, repaired in afd23fc) -/
theorem autoprofile_switches_off (env : Env Nat) (k : Nat) :
    winddownAfterExec (exec env autoprofileRun k).1 (exec env autoprofileRun k).2.1 = true :=
  forall_env_of_check autoprofileRun winddownAfterExec (by decide +kernel) env k

/-- not vacuous: there is an environment in which the script runs (and the wind-down with it) -/
example : countIn role_ap_winddown (exec (⟨fun _ => true, fun _ => none⟩ : Env Nat) autoprofileRun 0).2.1 = 1 := by decide +kernel

end LPVerif.Props.C19
