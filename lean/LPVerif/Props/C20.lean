import LPVerif.Lemmas.Skel
import LPVerif.Generated.Skeletons
/-!
# C20 — `%lprun` profiles exactly the named functions for exactly one statement

Over the control skeleton of `LineProfilerMagics.lprun` (from the `builtins` handling to the end) and of `runctx`,
dumped from the tree.  For every environment — `profile` present in builtins before or not, every option, every way
the statement can end —
* `builtins_restored`: `builtins.profile` is put back or removed exactly once (F-C20a, repaired in 258668c), after the
  statement ran;
* `exits_absorbed_output_produced`: `SystemExit` / `KeyboardInterrupt` never leave the magic, and whenever it does not
  fail with another exception the report is rendered exactly once and paged exactly once, after the statement;
* `one_statement`: `runctx` brackets the statement by exactly one enable / disable pair on every way out (the count is
  back where it was: C05);
* `outputs_from_one_rendering`: the `-T` file receives the very text that is paged (one `print_stats` rendering).
The equality of what `-r`, `-D`, `-T` and the pager present with the live profiler's own report is checked on the
real code by K20.
-/
namespace LPVerif.Props.C20
open LPVerif.Skel LPVerif.Generated

def builtinsRestored : Out → List Nat → Bool := fun _ log =>
  countIn role_builtins_set log == 1 && countIn role_builtins_restore log + countIn role_builtins_del log == 1 &&
  before role_lprun_run (role_builtins_restore ++ role_builtins_del) log
def absorbedAndOutput : Out → List Nat → Bool := fun o log =>
  o != .raised .sysExit && o != .raised .kbInt &&
  (o == .raised .other || o == .raised .special ||
    (countIn role_lprun_print_stats log == 1 && countIn role_lprun_page log == 1 && before role_lprun_run role_lprun_print_stats log
      && before role_lprun_print_stats role_lprun_page log))
def oneRendering : Out → List Nat → Bool := fun _ log =>
  countIn role_lprun_print_stats log ≤ 1 && countIn role_lprun_write log ≤ countIn role_lprun_page log
def bracketOnce : Out → List Nat → Bool := fun _ log => countIn role_en log == 1 && countIn role_dis log == 1

theorem leaves_exist :
    role_builtins_set.length = 1 ∧ role_builtins_restore.length = 1 ∧ role_builtins_del.length = 1 ∧ role_lprun_run.length = 1 ∧
    role_lprun_page.length = 1 ∧ role_lprun_print_stats.length = 1 ∧ role_lprun_write.length = 1 := by decide

theorem builtins_restored (env : Env Nat) (k : Nat) :
    builtinsRestored (exec env lprunCore k).1 (exec env lprunCore k).2.1 = true :=
  forall_env_of_check lprunCore builtinsRestored (by decide +kernel) env k

theorem exits_absorbed_output_produced (env : Env Nat) (k : Nat) :
    absorbedAndOutput (exec env lprunCore k).1 (exec env lprunCore k).2.1 = true :=
  forall_env_of_check lprunCore absorbedAndOutput (by decide +kernel) env k

theorem outputs_from_one_rendering (env : Env Nat) (k : Nat) :
    oneRendering (exec env lprunCore k).1 (exec env lprunCore k).2.1 = true :=
  forall_env_of_check lprunCore oneRendering (by decide +kernel) env k

theorem one_statement (env : Env Nat) (k : Nat) :
    bracketOnce (exec env mixin_runctx k).1 (exec env mixin_runctx k).2.1 = true :=
  forall_env_of_check mixin_runctx bracketOnce (by decide +kernel) env k

end LPVerif.Props.C20
