import LPVerif.Lemmas.PyAst
/-!
# C08 — auto-profiling rewrites only add hooks; the program behaves the same

Syntactic part, proved over `Model.PyAst` for programs of any size and nesting depth and for every configuration
(selection matched or not, whole script or not, `--prof-imports` or not, script or module mode):
* `rewrite_only_adds` — removing the registration statements and the appended `profile` decorators from the rewritten
  program gives back the original program, statement for statement (so every original statement keeps its position
  relative to the others and its line number: `lines_preserved`);
* `module_rewrite_only_adds` — in module mode the same holds relative to the program with its relative imports made
  absolute (C17 is what that mapping is); `absolutise_keeps_names`;
* `decorator_on_every_def` — with the whole script selected every (async) function definition at any depth carries
  `@profile`; `decorator_innermost` — appended as the last (innermost) decorator, and only when no bare `profile`
  decorator was there;
* `star_and_future_untouched` — no registration call is generated for `*` or for `from __future__ import …`
  (repair of F-C08b/c).
Behavioural equality of arbitrary Python programs is not a Lean theorem: it is reduced to the above + decorator
transparency (C03) + "a registration call evaluates a bound name and returns", and checked on real programs by K08.
-/
namespace LPVerif.Props.C08
open LPVerif.PyAst

/-- **C08 (only additions).** -/
theorem rewrite_only_adds (c : Cfg) (m : Block) (h : cleanBlock m) : undecBlock m (erBlock (rewrite c m)) = m := by
  unfold rewrite
  have hm := er_insertMatched c.matched 0 m h
  by_cases hf : c.fullScript = true
  · simp only [hf, if_true]
    have := undec_er_rwBlock c.profImports (insertMatched c.matched 0 m) (initialSeen c.matched m.length)
    rw [hm] at this
    exact this
  · have hf' : c.fullScript = false := by simpa using hf
    simp only [hf', Bool.false_eq_true, if_false]
    rw [hm]
    exact undecBlock_self m

mutual
/-- the (statement id / kind, line) pairs of a program, in order -/
def linesS : Stmt → List Nat
  | .funcDef _ _ _ b l => l :: linesB b
  | .classDef _ _ b l => l :: linesB b
  | .import_ _ l => [l]
  | .importFrom _ _ _ l => [l]
  | .compound _ bs l => l :: linesBs bs
  | .simple _ l => [l]
  | .reg _ => []
def linesB : Block → List Nat
  | .nil => []
  | .cons s r => linesS s ++ linesB r
def linesBs : Blocks → List Nat
  | .nil => []
  | .cons b r => linesB b ++ linesBs r
end

/-- every original statement keeps its line number (the inserted ones carry none of the original lines) -/
theorem lines_preserved (c : Cfg) (m : Block) (h : cleanBlock m) :
    linesB (undecBlock m (erBlock (rewrite c m))) = linesB m := by
  rw [rewrite_only_adds c m h]

/-- module mode: the tree is first made absolute, then rewritten -/
def moduleRewrite (c : Cfg) (resolve : Nat → Option String → String) (m : Block) : Block := rewrite c (absBlock resolve m)

theorem module_rewrite_only_adds (c : Cfg) (resolve : Nat → Option String → String) (m : Block) (h : cleanBlock m) :
    undecBlock (absBlock resolve m) (erBlock (moduleRewrite c resolve m)) = absBlock resolve m :=
  rewrite_only_adds c (absBlock resolve m) (clean_abs_block resolve m h)

/-- making a relative import absolute touches the module and the level only: imported names and aliases stay -/
theorem absolutise_keeps_names (resolve : Nat → Option String → String) (mo : Option String) (names : List Alias) (lv l : Nat) :
    ∃ mo' lv', absStmt resolve (.importFrom mo names lv l) = .importFrom mo' names lv' l ∧ (lv = 0 → mo' = mo ∧ lv' = 0) ∧
      (lv ≠ 0 → mo' = some (resolve lv mo) ∧ lv' = 0) := by
  by_cases h : lv = 0
  · exact ⟨mo, lv, by simp [absStmt, h], fun _ => ⟨rfl, h⟩, fun hh => absurd h hh⟩
  · exact ⟨some (resolve lv mo), 0, by simp [absStmt, h], fun hh => absurd hh h, fun _ => ⟨rfl, rfl⟩⟩

/-- **C08 (every definition decorated).** -/
theorem decorator_on_every_def (c : Cfg) (m : Block) (hf : c.fullScript = true) : allDecoratedB (rewrite c m) := by
  unfold rewrite
  simp only [hf, if_true]
  exact rwBlock_decorated _ _ _

/-- the decorator is appended last (innermost), exactly once, and only if there was no bare `profile` decorator -/
theorem decorator_innermost (pi : Bool) (a : Bool) (n : String) (d : List Deco) (b : Block) (l : Nat) (seen : List String) :
    ∃ b', (rwStmt pi (.funcDef a n d b l) seen).1 = .funcDef a n (if profileDeco ∈ d then d else d ++ [profileDeco]) b' l :=
  ⟨_, rfl⟩

/-- **F-C08b/c (repaired).** A star import and a `__future__` import get no registration call. -/
theorem star_and_future_untouched (seen : List String) (m : Option String) (l : Nat) (names : List Alias) :
    (rwStmt true (.importFrom m [("*", none)] 0 l) seen).2.1 = [] ∧
    (rwStmt true (.importFrom (some "__future__") names 0 l) seen).2.1 = [] := by
  constructor
  · unfold rwStmt
    by_cases h : (true && !isFuture m) = true <;> simp [h, boundNames, regsFor]
  · simp [rwStmt, isFuture]

/-- every generated registration call names something its import statement binds (never `*`) -/
theorem regs_name_bound (names : List Alias) (seen : List String) :
    ∀ s ∈ (regsFor (boundNames names) seen).1, ∃ n, s = .reg n ∧ n ∈ boundNames names ∧ n ≠ "*" := by
  suffices ∀ (ns seen : List String), ∀ s ∈ (regsFor ns seen).1, ∃ n, s = .reg n ∧ n ∈ ns by
    intro s hs
    obtain ⟨n, hn, hmem⟩ := this _ seen s hs
    refine ⟨n, hn, hmem, ?_⟩
    simp only [boundNames, List.mem_filter] at hmem
    simpa using hmem.2
  intro ns
  induction ns with
  | nil => intro seen s hs; simp [regsFor] at hs
  | cons a r ih =>
    intro seen s hs
    unfold regsFor at hs
    split at hs
    · obtain ⟨n, hn, hm⟩ := ih seen s hs
      exact ⟨n, hn, by simp [hm]⟩
    · simp only [List.mem_cons] at hs
      rcases hs with rfl | hs
      · exact ⟨a, rfl, by simp⟩
      · obtain ⟨n, hn, hm⟩ := ih _ s hs
        exact ⟨n, hn, by simp [hm]⟩

/-- non-vacuity: a script with a decorated method, a nested def, a star import and two `__future__` lines -/
def demo : Block :=
  .cons (.importFrom (some "__future__") [("annotations", none)] 0 1)
  (.cons (.importFrom (some "__future__") [("division", none)] 0 2)
  (.cons (.importFrom (some "helper") [("*", none)] 0 3)
  (.cons (.import_ [("os.path", none), ("json", some "js")] 4)
  (.cons (.classDef "K" [] (.cons (.funcDef false "m" [.name "staticmethod"] (.cons (.funcDef true "inner" [] .nil 7) .nil) 6) .nil) 5)
  .nil))))
example : cleanBlock demo ∧
    rewrite ⟨true, true, []⟩ demo =
      .cons (.importFrom (some "__future__") [("annotations", none)] 0 1)
      (.cons (.importFrom (some "__future__") [("division", none)] 0 2)
      (.cons (.importFrom (some "helper") [("*", none)] 0 3)
      (.cons (.import_ [("os.path", none), ("json", some "js")] 4) (.cons (.reg "os.path") (.cons (.reg "js")
      (.cons (.classDef "K" [] (.cons (.funcDef false "m" [.name "staticmethod", .name "profile"]
        (.cons (.funcDef true "inner" [.name "profile"] .nil 7) .nil) 6) .nil) 5)
      .nil)))))) := by
  refine ⟨by simp [demo, cleanBlock, cleanStmt], by rfl⟩

end LPVerif.Props.C08
