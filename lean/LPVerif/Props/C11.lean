import LPVerif.Model.Channels
/-!
# C11 — saved statistics round-trip and every output channel tells the same story

Channel algebra over `Model.Channels`: every channel renders through `show_text` with a configuration read off its call
site; channels given the same configuration and the same statistics produce the same text; a saved-and-loaded file
renders like the live statistics (under the pickle round-trip law, which K11 tests on real files).  What the
configurations are is tied to the tree by the tables regenerated on every run (`call_sites`).
-/
namespace LPVerif.Props.C11
open LPVerif.Report LPVerif.Channels

/-- the same configuration on the same statistics gives the same text, whichever channel it is -/
theorem channels_same_story {σ υ} (r : Renderer σ υ) (c1 c2 : Cfg υ) (s : σ) (ho : c1.opts = c2.opts) (hu : c1.outputUnit = c2.outputUnit) :
    render r c1 s = render r c2 s := by
  cases c1; cases c2; simp_all

/-- `kernprof -v -u u [-z]` prints what `python -m line_profiler -u u [-z] file` prints … -/
theorem view_equals_viewer {σ υ} (r : Renderer σ υ) (u : υ) (z : Bool) (s : σ) :
    render r (kernprofView u z) s = render r (viewer u z false false) s := rfl

/-- … also from the saved file -/
theorem saved_then_viewed {σ υ β} (r : Renderer σ υ) (cd : Codec σ β) (c : Cfg υ) (s : σ) :
    (cd.load (cd.dump s)).map (render r c) = some (render r c s) := by
  rw [cd.roundtrip]; rfl

/-- the explicit profiler's text files are the viewer's `-z -t -m` rendering in the statistics' own unit, and its stdout
    report is the same selection and order without the per-line details -/
theorem explicit_text_cfg {υ} : (explicitText : Cfg υ).opts = (viewer (υ := Unit) () true true true).opts := rfl
theorem explicit_stdout_same_selection {υ} :
    (explicitStdout : Cfg υ).opts.stripzeros = (explicitText : Cfg υ).opts.stripzeros ∧
    (explicitStdout : Cfg υ).opts.sort = (explicitText : Cfg υ).opts.sort ∧
    (explicitStdout : Cfg υ).opts.summarize = (explicitText : Cfg υ).opts.summarize := ⟨rfl, rfl, rfl⟩

/-- the live report is the viewer's rendering without options, in the statistics' own unit -/
theorem live_cfg {υ} : (live : Cfg υ).opts = (viewer (υ := Unit) () false false false).opts := rfl

/-- the call sites the configurations above transcribe (regenerated from the tree on every run) -/
theorem call_sites :
    Generated.kernprofViewCalls = [[], [("output_unit", "options.unit"), ("stripzeros", "options.skip_zero"), ("rich", "options.rich"), ("stream", "original_stdout")]] ∧
    Generated.viewerShowTextCalls = [[("output_unit", "args.unit"), ("stripzeros", "args.skip_zero"), ("rich", "args.rich"), ("sort", "args.sort"),
      ("summarize", "args.summarize"), ("#0", "lstats.timings"), ("#1", "lstats.unit")]] ∧
    Generated.printStatsShowTextCalls = [[("output_unit", "output_unit"), ("stream", "stream"), ("stripzeros", "stripzeros"), ("details", "details"),
      ("summarize", "summarize"), ("sort", "sort"), ("rich", "rich"), ("#0", "lstats.timings"), ("#1", "lstats.unit")]] ∧
    Generated.explicitPrintStatsCalls = [[("**", "kwargs")], [("stream", "stream"), ("**", "text_kwargs")]] ∧
    Generated.explicitTextOverrides = [("rich", "0"), ("details", "1")] ∧
    Generated.showConfigDefaults = [("sort", 1), ("stripzeros", 1), ("rich", 1), ("details", 0), ("summarize", 1)] ∧
    Generated.printStatsDefaults = [("stream", "None"), ("output_unit", "None"), ("stripzeros", "False"), ("details", "True"), ("summarize", "False"),
      ("sort", "False"), ("rich", "False")] ∧
    Generated.showTextDefaults = [("output_unit", "None"), ("stream", "None"), ("stripzeros", "False"), ("details", "True"), ("summarize", "False"),
      ("sort", "False"), ("rich", "False")] ∧
    Generated.dumpCalls = [[("#0", "lstats"), ("#1", "f"), ("#2", "pickle.HIGHEST_PROTOCOL")]] ∧ Generated.loadCalls = [[("#0", "f")]] := by
  decide +kernel

end LPVerif.Props.C11
