import LPVerif.Generated.KernprofOptions
import LPVerif.Lemmas.Argv
import LPVerif.Bridge.Argv
import LPVerif.Model.ArgFlow
import LPVerif.Generated.ArgFlow
/-!
# C15 — kernprof never takes the program's arguments for its own

Over `Model.Argv.parseCmd` (= `kernprof.main` up to `sys.argv = …`), for **every** option table
(in particular the generated one), every option prefix `o` that decodes, and every list `r` of
program arguments.  `Bridge/Argv.lean` ties `pp` to the code emitted from `kernprof.py`.
-/
namespace LPVerif.Props.C15
open LPVerif.Argv

/-- **module_mode**: after `-m module` every token reaches the program verbatim and in order, whatever it
    looks like (`-l`, `-m`, `--`, `-o` …); kernprof's options are those of the prefix only -/
theorem module_mode (table : List OptSpec) (o r : List String) (m : String) (opts : Opts)
    (ho1 : "-m" ∉ o) (ho2 : "--" ∉ o) (hm : m ≠ "--")
    (hdec : decodeOpts table {} o = .ok (opts, [])) :
    parseCmd table (o ++ "-m" :: m :: r) = .ok { opts := opts, isModule := true, target := m, argv := r } := by
  simp [parseCmd, parseCmdWith, pp_module o r m ho1 ho2 hm, hdec]

/-- **script_plain**: in script mode, arguments without an unshielded `-m` or `--` reach the program verbatim,
    even when they look like kernprof options -/
theorem script_plain (table : List OptSpec) (o r : List String) (s : String) (opts : Opts)
    (ho1 : "-m" ∉ o) (ho2 : "--" ∉ o) (hs1 : s ≠ "-m") (hs2 : s ≠ "--")
    (hr1 : "-m" ∉ r) (hr2 : "--" ∉ r)
    (hdec : decodeOpts table {} (o ++ [s]) = .ok (opts, [s])) :
    parseCmd table (o ++ s :: r) = .ok { opts := opts, isModule := false, target := s, argv := r } := by
  have h1 : "-m" ∉ o ++ s :: r := by
    simp only [List.mem_append, List.mem_cons]; rintro (h | h | h)
    · exact ho1 h
    · exact hs1 h.symm
    · exact hr1 h
  have h2 : "--" ∉ o ++ s :: r := by
    simp only [List.mem_append, List.mem_cons]; rintro (h | h | h)
    · exact ho2 h
    · exact hs2 h.symm
    · exact hr2 h
  have hd := decode_extend table (o ++ [s]) {} opts s [] r hdec
  have e : o ++ [s] ++ r = o ++ s :: r := by simp
  rw [e] at hd
  have hstrip : stripSep r = r := by
    cases r with
    | nil => rfl
    | cons a t =>
      have : a ≠ "--" := fun hh => hr2 (by simp [hh])
      unfold stripSep; split
      · rename_i heq; cases heq; exact absurd rfl this
      · rfl
  simp [parseCmd, parseCmdWith, pp_plain _ h1 h2, hd, hstrip]

/-- **script_shielded**: with the documented `--` directly after the script, *every* list — including `-m`
    and further `--` tokens — reaches the program verbatim -/
theorem script_shielded (table : List OptSpec) (o r : List String) (s : String) (opts : Opts)
    (ho1 : "-m" ∉ o) (ho2 : "--" ∉ o) (hs1 : s ≠ "-m") (hs2 : s ≠ "--")
    (hdec : decodeOpts table {} (o ++ [s]) = .ok (opts, [s])) :
    parseCmd table (o ++ s :: "--" :: r) = .ok { opts := opts, isModule := false, target := s, argv := r } := by
  have hd := decode_extend table (o ++ [s]) {} opts s [] ["--"] hdec
  have e : o ++ [s] ++ ["--"] = o ++ [s, "--"] := by simp
  rw [e] at hd
  simp [parseCmd, parseCmdWith, pp_shielded o r s ho1 ho2 hs1 hs2, hd, stripSep]

/-- **options_only_from_prefix**: profiler type, output file and viewing are functions of the decoded prefix and
    the target alone — two command lines with the same prefix and target but different program arguments agree -/
theorem options_only_from_prefix (table : List OptSpec) (o r r' : List String) (m : String) (opts : Opts)
    (ho1 : "-m" ∉ o) (ho2 : "--" ∉ o) (hm : m ≠ "--")
    (hdec : decodeOpts table {} o = .ok (opts, [])) :
    ∃ c c', parseCmd table (o ++ "-m" :: m :: r) = .ok c ∧ parseCmd table (o ++ "-m" :: m :: r') = .ok c' ∧
      c.opts = c'.opts ∧ c.outfile = c'.outfile ∧ c.opts.lineByLine = c'.opts.lineByLine ∧ c.opts.view = c'.opts.view := by
  refine ⟨_, _, module_mode table o r m opts ho1 ho2 hm hdec, module_mode table o r' m opts ho1 ho2 hm hdec, ?_⟩
  simp [Cmd.outfile]

/-- the emitted `pre_parse_single_arg_directive` is the model `pp`, for every argument list (re-export of the bridge) -/
theorem emitted_pre_parse_is_model (k : Nat) (args : List String) :
    LPVerif.Generated.pre_parse_gen (k + 2) args "-m" "--" = LPVerif.Bridge.conv (pp args) :=
  LPVerif.Bridge.gen_eq_model k args

/-- non-vacuity, on a table with `-l`, `-v` (flags) and `-o` (valued) -/
def exTable : List OptSpec := [⟨"-l", "--line-by-line", .flag⟩, ⟨"-v", "--view", .flag⟩, ⟨"-o", "--outfile", .value⟩]
def okIs (r : Except Err Cmd) (c : Cmd) : Bool := match r with | .ok c' => decide (c' = c) | .error _ => false
theorem example_module :
    okIs (parseCmd exTable ["-l", "-o", "out", "-m", "mod", "-v", "--", "-m", "x"])
      { opts := { flags := ["--line-by-line"], values := [("--outfile", "out")] }, isModule := true,
        target := "mod", argv := ["-v", "--", "-m", "x"] } = true := by decide +kernel
theorem example_shielded :
    okIs (parseCmd exTable ["-l", "s.py", "--", "-m", "x", "--", "-l"])
      { opts := { flags := ["--line-by-line"], values := [] }, isModule := false,
        target := "s.py", argv := ["-m", "x", "--", "-l"] } = true := by decide +kernel

/-- kernprof builds its parsers without abbreviations (read from the tree by the translator) -/
theorem kernprof_no_abbrev : Generated.kernprofAllowAbbrev = false := by decide

/-- … and none of them expands `@file` arguments (`fromfile_prefix_chars`): argparse would do that over the whole command line, the
    program's arguments included -/
theorem kernprof_no_response_files : Generated.kernprofFromfilePrefix = false := by decide

/-- … so the parser kernprof runs is the one the theorems above are about -/
theorem kernprof_parser (args : List String) :
    parseCmdWith Generated.kernprofAllowAbbrev Generated.kernprofOptions args = parseCmd Generated.kernprofOptions args := by
  rw [kernprof_no_abbrev]; rfl

/-! ## the statements that are in the tree now (`Model.ArgFlow`)

`parseCmd` summarises `kernprof._main` up to `sys.argv = …` by hand.  The translator emits, in source order, every statement
of `main` and `_main` that writes `args`, `module`, `post_args`, `options`, `options.args`, `options.script`, `options.outfile` or
`sys.argv` (`Generated.kernprofArgFlow`; a write in a form it does not know is `.unknown`, which has no meaning).  The two
theorems below make the theorems above statements about that sequence: an inserted filter, a reordered `+= post_args`, a dropped
`options.script = module` changes the emitted list and `emitted_flow_is_reference` no longer checks. -/
section flow
open LPVerif.ArgFlow

def resOf (r : Except Err Cmd) : Except Err Result :=
  match r with
  | .ok c => .ok { cmd := c, outfile := c.outfile }
  | .error e => .error e

/-- the statement sequence emitted from the tree is the one the model was written against -/
theorem emitted_flow_is_reference : Generated.kernprofArgFlow = reference := by decide

/-- running the statements one by one — pre-parse, parse, re-attach the cut-off arguments, take the module as the script, default
    the output file, set `sys.argv` — gives, for **every** option table and argument list, exactly what `parseCmdWith` says:
    same error, or same options, target, `sys.argv[1:]` and output file -/
theorem reference_flow_eq_model (abbr : Bool) (table : List OptSpec) (args : List String) :
    run abbr table reference args = some (resOf (parseCmdWith abbr table args)) := by
  unfold run reference parseCmdWith
  simp only [runFrom, exec1]
  rcases hpp : pp args with e | ⟨pre, m, post⟩
  · simp [resOf]
  · simp only []
    rcases hd : decodeOpts table {} pre with e | ⟨o, rest⟩
    · cases m <;> simp [resOf, hd]
    · cases m with
      | some mm =>
        simp [resOf, hd, finish, Cmd.outfile, Opts.outfile]
        rfl
      | none =>
        cases rest with
        | nil => simp [resOf, hd]
        | cons sc rest' =>
          cases ha : (if abbr = true then firstAmbiguous table rest' else none) with
          | some tok => simp [resOf, ha, hd]
          | none =>
            simp [resOf, ha, hd, finish, Cmd.outfile, Opts.outfile]
            try rfl

/-- **the tree's own statements deliver the program's arguments**: what `kernprof.main` as it is now assigns to `sys.argv`, with
    kernprof's own option table and parser settings, is what `parseCmd` computes -/
theorem kernprof_flow (args : List String) :
    run Generated.kernprofAllowAbbrev Generated.kernprofOptions Generated.kernprofArgFlow args
      = some (resOf (parseCmd Generated.kernprofOptions args)) := by
  rw [emitted_flow_is_reference, reference_flow_eq_model, kernprof_parser]

/-- `module_mode`, restated on the emitted statements -/
theorem module_mode_flow (o r : List String) (m : String) (opts : Opts)
    (ho1 : "-m" ∉ o) (ho2 : "--" ∉ o) (hm : m ≠ "--") (hdec : decodeOpts Generated.kernprofOptions {} o = .ok (opts, [])) :
    ∃ f, run Generated.kernprofAllowAbbrev Generated.kernprofOptions Generated.kernprofArgFlow (o ++ "-m" :: m :: r)
      = some (.ok { cmd := { opts := opts, isModule := true, target := m, argv := r }, outfile := f }) := by
  rw [kernprof_flow, module_mode Generated.kernprofOptions o r m opts ho1 ho2 hm hdec]
  exact ⟨_, rfl⟩

/-- an unknown write to one of the tracked names has no meaning: nothing is claimed about such a tree -/
example : run false exTable [.callMain, .unknown, .preParse, .parseArgs, .appendPost, .scriptFromModule, .defaultOutfile, .setArgv] ["x"] = none := by
  decide +kernel
/-- the order matters to the meaning: re-attaching the cut-off arguments before parsing loses them -/
example : run false exTable [.callMain, .defaultArgs, .preParse, .appendPost, .parseArgs, .scriptFromModule, .defaultOutfile, .setArgv] ["-m", "mod", "a"] = none := by
  decide +kernel

end flow

/-- **F-C15a (repaired)**: with argparse's default (`allow_abbrev=True`), on kernprof's own option table, a program argument that is
    an ambiguous prefix of two long options (`--pro`: `--prof-mod`, `--prof-imports`) after a script named without `--` aborted the
    run; the unambiguous `--vie`, the exact `--view`, and the same `--pro` behind `--` or behind `-m mod` reached the program.
    Without abbreviations `--pro` reaches the program too. -/
def argvIs (r : Except Err Cmd) (a : List String) : Bool := match r with | .ok c => decide (c.argv = a) | .error _ => false
def isAmbiguous (r : Except Err Cmd) (t : String) : Bool := match r with | .error (.ambiguous t') => decide (t' = t) | _ => false
theorem ambiguous_prefix_witness :
    isAmbiguous (parseCmdWith true Generated.kernprofOptions ["s.py", "--pro"]) "--pro" = true ∧
    argvIs (parseCmdWith true Generated.kernprofOptions ["s.py", "--vie", "--view"]) ["--vie", "--view"] = true ∧
    argvIs (parseCmdWith true Generated.kernprofOptions ["s.py", "--", "--pro"]) ["--pro"] = true ∧
    argvIs (parseCmdWith true Generated.kernprofOptions ["-m", "mod", "--pro"]) ["--pro"] = true ∧
    argvIs (parseCmd Generated.kernprofOptions ["s.py", "--pro"]) ["--pro"] = true := by
  decide +kernel

end LPVerif.Props.C15
