import LPVerif.Model.Gen
/-! Simulation proofs: the generator wrapper and the coroutine wrapper are observationally the wrapped object. -/
namespace LPVerif.Gen

/-- simulation relation between the wrapper object and the original object -/
inductive Sim {σ} : GS (W σ) → GS σ → Prop
  | fresh : Sim .fresh .fresh
  | susp (s : σ) : Sim (.susp (.wY (.susp s))) (.susp s)
  | done : Sim .done .done

theorem settle_relay_settle {σ} (st : Step σ) :
    (settle (relay (settle st))).1 = (settle st).1 ∧ Sim (settle (relay (settle st))).2 (settle st).2 := by
  cases st with
  | yield v s => exact ⟨rfl, Sim.susp s⟩
  | ret v => exact ⟨rfl, Sim.done⟩
  | raise e => cases e <;> exact ⟨rfl, Sim.done⟩

theorem step_sim {σ} (fl : Flavor) (b : Body σ) (gw : GS (W σ)) (g : GS σ) (h : Sim gw g) (op : Op) :
    (apply fl (wrapGen b) gw op).1 = (apply fl b g op).1 ∧
    Sim (apply fl (wrapGen b) gw op).2 (apply fl b g op).2 := by
  cases h with
  | fresh =>
    cases op with
    | send x =>
      cases x with
      | none => exact settle_relay_settle (b.resume b.init .start)
      | some v => exact ⟨rfl, Sim.fresh⟩
    | throw e => exact ⟨rfl, Sim.done⟩
    | close => exact ⟨rfl, Sim.done⟩
  | done =>
    cases op with
    | send x => exact ⟨rfl, Sim.done⟩
    | throw e => exact ⟨rfl, Sim.done⟩
    | close => exact ⟨rfl, Sim.done⟩
  | susp s =>
    cases op with
    | send x => exact settle_relay_settle (b.resume s (.value x))
    | throw e => exact settle_relay_settle (b.resume s (.throw e))
    | close =>
      have := settle_relay_settle (b.resume s (.throw .genExit))
      simp only [apply, close, wrapGen, wrapGenStep, throw_]
      rcases hst : settle (b.resume s (.throw .genExit)) with ⟨r, g'⟩
      rw [hst] at this
      rcases hw : settle (relay (r, g')) with ⟨rw', gw'⟩
      rw [hw] at this
      obtain ⟨h1, h2⟩ := this
      simp only at h1 h2
      subst h1
      cases rw' with
      | yielded v => exact ⟨rfl, h2⟩
      | stop v => exact ⟨rfl, h2⟩
      | closedOk => exact ⟨rfl, h2⟩
      | raised e => cases e <;> exact ⟨rfl, h2⟩

theorem wrap_bisim {σ} (fl : Flavor) (b : Body σ) (ops : List Op) (gw : GS (W σ)) (g : GS σ) (h : Sim gw g) :
    runOps fl (wrapGen b) gw ops = runOps fl b g ops := by
  induction ops generalizing gw g with
  | nil => rfl
  | cons op r ih =>
    have ⟨h1, h2⟩ := step_sim fl b gw g h op
    simp only [runOps]
    rw [ih _ _ h2, h1]

/-! ## the coroutine wrapper (delegation) -/

/-- the body never answers `GeneratorExit` with another yield / await -/
def Compliant {σ} (b : Body σ) : Prop := ∀ s v s', b.resume s (.throw .genExit) ≠ .yield v s'

theorem step_sim_delegate {σ} (b : Body σ) (hc : Compliant b) (gw : GS (W σ)) (g : GS σ) (h : Sim gw g) (op : Op)
    (hop : op ≠ .throw .genExit) :
    (apply .coro (delegate b) gw op).1 = (apply .coro b g op).1 ∧
    Sim (apply .coro (delegate b) gw op).2 (apply .coro b g op).2 := by
  cases h with
  | fresh =>
    cases op with
    | send x =>
      cases x with
      | none => exact settle_relay_settle (b.resume b.init .start)
      | some v => exact ⟨rfl, Sim.fresh⟩
    | throw e => exact ⟨rfl, Sim.done⟩
    | close => exact ⟨rfl, Sim.done⟩
  | done =>
    cases op with
    | send x => exact ⟨rfl, Sim.done⟩
    | throw e => exact ⟨rfl, Sim.done⟩
    | close => exact ⟨rfl, Sim.done⟩
  | susp s =>
    cases op with
    | send x => exact settle_relay_settle (b.resume s (.value x))
    | throw e =>
      cases e with
      | genExit => exact absurd rfl hop
      | stopIter => exact settle_relay_settle (b.resume s (.throw .stopIter))
      | typeErr => exact settle_relay_settle (b.resume s (.throw .typeErr))
      | runtimeErr => exact settle_relay_settle (b.resume s (.throw .runtimeErr))
      | user n => exact settle_relay_settle (b.resume s (.throw (.user n)))
    | close =>
      simp only [apply, close, delegate]
      cases hst : b.resume s (.throw .genExit) with
      | yield v s' => exact absurd hst (hc s v s')
      | ret v => exact ⟨rfl, Sim.done⟩
      | raise e => cases e <;> exact ⟨rfl, Sim.done⟩

theorem delegate_bisim {σ} (b : Body σ) (hc : Compliant b) (ops : List Op) (hops : ∀ op ∈ ops, op ≠ .throw .genExit)
    (gw : GS (W σ)) (g : GS σ) (h : Sim gw g) :
    runOps .coro (delegate b) gw ops = runOps .coro b g ops := by
  induction ops generalizing gw g with
  | nil => rfl
  | cons op r ih =>
    have ⟨h1, h2⟩ := step_sim_delegate b hc gw g h op (hops op (by simp))
    simp only [runOps]
    rw [ih (fun o ho => hops o (by simp [ho])) _ _ h2, h1]

end LPVerif.Gen
