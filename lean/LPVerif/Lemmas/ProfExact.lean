import LPVerif.Lemmas.Prof
import LPVerif.Lemmas.Core
/-! Hit-count conservation at the level of the profiler object (`Model.Prof`): over any history of registrations, enables,
    disables, by-count calls and trace events. -/
namespace LPVerif.Prof
open LPVerif.Core

/-! ### registration leaves the counters alone -/

theorem regLine_same (code : Code) (acc : Core.ESt × List (Code × List (Blk × Int))) (l : Int) :
    (regLine code acc l).1.abs.hits = acc.1.abs.hits ∧ (regLine code acc l).1.abs.last = acc.1.abs.last ∧
    (regLine code acc l).1.abs.time = acc.1.abs.time := by
  unfold regLine
  split
  · exact ⟨rfl, rfl, rfl⟩
  · simp only [abs_addRegs]; exact ⟨rfl, rfl, rfl⟩

theorem regLines_same (code : Code) (ls : List Int) (acc : Core.ESt × List (Code × List (Blk × Int))) :
    (ls.foldl (regLine code) acc).1.abs.hits = acc.1.abs.hits ∧ (ls.foldl (regLine code) acc).1.abs.last = acc.1.abs.last ∧
    (ls.foldl (regLine code) acc).1.abs.time = acc.1.abs.time := by
  induction ls generalizing acc with
  | nil => exact ⟨rfl, rfl, rfl⟩
  | cons l r ih =>
    have h1 := regLine_same code acc l
    have h2 := ih (regLine code acc l)
    simp only [List.foldl_cons]
    exact ⟨h2.1.trans h1.1, h2.2.1.trans h1.2.1, h2.2.2.trans h1.2.2⟩

theorem addCode_same (s : St) (f : Nat) (code : Code) :
    (s.addCode f code).core.abs.hits = s.core.abs.hits ∧ (s.addCode f code).core.abs.last = s.core.abs.last := by
  unfold St.addCode
  simp only
  have := regLines_same (padStep s.dupes (s.chm.map (·.1)) code).1 (padStep s.dupes (s.chm.map (·.1)) code).1.allLines (s.core, s.chm)
  exact ⟨this.1, this.2.1⟩

theorem closed_congr (s s' : Core.St) (lines : List Int) (b : Blk) (l : Int) (h : s'.hits = s.hits) :
    closed s' lines b l = closed s lines b l := by unfold closed; rw [h]

theorem pend_congr (s s' : Core.St) (threads : List Nat) (b : Blk) (l : Int) (h : s'.last = s.last) :
    pend s' threads b l = pend s threads b l := by unfold pend; rw [h]

/-! ### `disable()` drops exactly the pending slot of its thread -/

theorem pend_clearThread (s : Core.St) (t : Nat) (threads : List Nat) (b : Blk) (l : Int) (ht : t ∈ threads) (hn : threads.Nodup) :
    pend (s.clearThread t) threads b l + (if (s.last t b).map Prod.fst = some l then 1 else 0) = pend s threads b l := by
  unfold pend
  have := filter_len_update threads (fun t' => decide ((s.last t' b).map Prod.fst = some l))
    (fun t' => decide (((s.clearThread t).last t' b).map Prod.fst = some l)) t ht hn
    (by intro x hx; simp only [Core.St.clearThread, if_neg hx])
  simp only [Core.St.clearThread, if_true, Option.map_none, decide_eq_true_eq] at this ⊢
  simp at this
  omega


/-! ### one operation -/

theorem delivered_cons (s : St) (op : Op) (r : List Op) (b : Blk) (l : Int) :
    delivered s (op :: r) b l = delivStep s op b l + delivered (s.step op) r b l := by
  cases op <;> rfl

theorem dropped_cons (s : St) (op : Op) (r : List Op) (b : Blk) (l : Int) :
    dropped s (op :: r) b l = dropStep s op b l + dropped (s.step op) r b l := by
  cases op <;> rfl

/-- stored hits of `(b, l)` plus slots pending at `l` -/
def bal (s : St) (lines : List Int) (threads : List Nat) (b : Blk) (l : Int) : Nat :=
  closed s.core.abs lines b l + pend s.core.abs threads b l

theorem bal_same (s s' : St) (lines threads b l) (hh : s'.core.abs.hits = s.core.abs.hits) (hl : s'.core.abs.last = s.core.abs.last) :
    bal s' lines threads b l = bal s lines threads b l := by
  unfold bal; rw [closed_congr _ _ _ _ _ hh, pend_congr _ _ _ _ _ hl]

theorem bal_disable (s : St) (t : Nat) (lines threads b l) (ht : t ∈ threads) (hn : threads.Nodup) :
    bal (s.disable t) lines threads b l + pendOf s t b l = bal s lines threads b l := by
  unfold bal St.disable pendOf
  simp only [abs_clearThread]
  have h1 : closed (s.core.abs.clearThread t) lines b l = closed s.core.abs lines b l := closed_congr _ _ _ _ _ rfl
  have h2 := pend_clearThread s.core.abs t threads b l ht hn
  omega

theorem step_conservation (s : St) (op : Op) (lines : List Int) (threads : List Nat) (b : Blk) (l : Int)
    (hl : ∀ c, (b, c) ∈ s.core.abs.regs → c ∈ lines) (hln : lines.Nodup)
    (hth : ∀ t, op.thread = some t → t ∈ threads) (htn : threads.Nodup) :
    bal (s.step op) lines threads b l + dropStep s op b l = bal s lines threads b l + delivStep s op b l := by
  cases op with
  | decl f code => simp only [St.step, dropStep, delivStep]; exact congrArg (· + 0) (bal_same _ _ _ _ _ _ rfl rfl)
  | add f =>
    simp only [St.step, dropStep, delivStep, St.addFunction]
    split
    · have := addCode_same s f ‹_›
      rw [bal_same _ _ _ _ _ _ this.1 this.2]
    · rfl
  | enableBC t =>
    simp only [St.step, dropStep, delivStep, St.enableByCount, St.enable]
    by_cases hc : s.count t = 0
    · simp only [hc, if_true]; exact congrArg (· + 0) (bal_same _ _ _ _ _ _ rfl rfl)
    · simp only [hc, if_false]; exact congrArg (· + 0) (bal_same _ _ _ _ _ _ rfl rfl)
  | enable t =>
    simp only [St.step, dropStep, delivStep, St.enable]; exact congrArg (· + 0) (bal_same _ _ _ _ _ _ rfl rfl)
  | disable t =>
    simp only [St.step, dropStep, delivStep]
    have := bal_disable s t lines threads b l (hth t rfl) htn
    omega
  | disableBC t =>
    simp only [St.step, dropStep, delivStep, St.disableByCount]
    by_cases hc : s.count t > 0
    · simp only [hc, if_true]
      by_cases h1 : s.count t = 1
      · have hz : (s.setCount t (s.count t - 1)).count t = 0 := by simp [St.setCount, h1]
        simp only [hz, if_true]
        have := bal_disable (s.setCount t (s.count t - 1)) t lines threads b l (hth t rfl) htn
        have e1 : bal (s.setCount t (s.count t - 1)) lines threads b l = bal s lines threads b l := bal_same _ _ _ _ _ _ rfl rfl
        have e2 : pendOf (s.setCount t (s.count t - 1)) t b l = pendOf s t b l := rfl
        simp only [h1, if_true] at this e1 e2 ⊢
        omega
      · have hz : ¬ (s.setCount t (s.count t - 1)).count t = 0 := by simp [St.setCount]; omega
        simp only [hz, if_false, h1]
        exact congrArg (· + 0) (bal_same _ _ _ _ _ _ rfl rfl)
    · have h1 : ¬ s.count t = 1 := by omega
      simp only [hc, if_false, h1]
  | ev e =>
    simp only [St.step, dropStep, delivStep, St.event]
    by_cases htr : s.tracing e.t
    · simp only [htr, if_true]
      unfold bal
      simp only [abs_ecb]
      have := step_inv s.core.abs e lines threads b l hl hln (hth e.t rfl) htn
      omega
    · simp only [htr]; rfl

/-- **conservation over any history**: what is stored, plus what is still pending, plus what `disable()` threw away, is what was
    there before plus exactly the LINE events delivered to the callback -/
theorem run_conservation (ops : List Op) (s : St) (lines : List Int) (threads : List Nat) (b : Blk) (l : Int)
    (hl : ∀ c, (b, c) ∈ (s.run ops).core.abs.regs → c ∈ lines) (hln : lines.Nodup)
    (hth : ∀ op ∈ ops, ∀ t, op.thread = some t → t ∈ threads) (htn : threads.Nodup) :
    bal (s.run ops) lines threads b l + dropped s ops b l = bal s lines threads b l + delivered s ops b l := by
  induction ops generalizing s with
  | nil => simp [St.run, dropped, delivered]
  | cons op r ih =>
    have hreg : ∀ c, (b, c) ∈ s.core.abs.regs → c ∈ lines := by
      intro c hc
      exact hl c ((run_grows (op :: r) s).regs _ hc)
    have h1 := step_conservation s op lines threads b l hreg hln (hth op (List.mem_cons_self ..)) htn
    have h2 := ih (s.step op) (by simpa [St.run] using hl) (fun o ho => hth o (List.mem_cons_of_mem _ ho))
    rw [delivered_cons, dropped_cons]
    simp only [St.run, List.foldl_cons] at h2 ⊢
    omega

end LPVerif.Prof
