import LPVerif.Model.Report
import Mathlib.Data.Nat.Digits.Defs
/-! Lemmas about the report layout model: row placement, widths, decimal length, stable insertion sort. -/
namespace LPVerif.Report

theorem rowsFrom_length (cands : List Cand) (w : Widths) (start : Nat) (block : List Txt) :
    (rowsFrom cands w start block).length = block.length := by
  induction block generalizing start with
  | nil => rfl
  | cons s r ih => simp [rowsFrom, ih]

theorem rowsFrom_get (cands : List Cand) (w : Widths) (start : Nat) (block : List Txt) (i : Nat) (hi : i < block.length) :
    (rowsFrom cands w start block)[i]? = some (rowText w (natTxt (start + i)) (displayGet cands (start + i)) block[i]) := by
  induction block generalizing start i with
  | nil => simp at hi
  | cons s r ih =>
    cases i with
    | zero => simp [rowsFrom]
    | succ j =>
      simp only [rowsFrom, List.getElem?_cons_succ, List.getElem_cons_succ]
      have := ih (start + 1) j (by simpa using hi)
      rw [this]
      congr 3 <;> omega

theorem find_reverse_nodup (cands : List Cand) (c : Cand) (hc : c ∈ cands) (hn : (cands.map (·.line)).Nodup) :
    cands.reverse.find? (fun x => x.line = c.line) = some c := by
  induction cands with
  | nil => cases hc
  | cons a r ih =>
    simp only [List.map_cons, List.nodup_cons] at hn
    simp only [List.reverse_cons, List.find?_append]
    cases hc with
    | head =>
      have : r.reverse.find? (fun x => decide (x.line = c.line)) = none := by
        rw [List.find?_eq_none]
        intro x hx
        have hx' : x ∈ r := by simpa using hx
        have : x.line ≠ c.line := fun h => hn.1 (List.mem_map.mpr ⟨x, hx', h⟩)
        simp [this]
      simp [this]
    | tail _ h' =>
      rw [ih h' hn.2]; simp

theorem displayGet_of_mem (cands : List Cand) (c : Cand) (hc : c ∈ cands) (hn : (cands.map (·.line)).Nodup) :
    displayGet cands c.line = cellsOf c := by
  unfold displayGet
  rw [find_reverse_nodup cands c hc hn]

theorem displayGet_of_not_mem (cands : List Cand) (l : Nat) (h : ∀ c ∈ cands, c.line ≠ l) :
    displayGet cands l = Cells.empty := by
  unfold displayGet
  have : cands.reverse.find? (fun x => decide (x.line = l)) = none := by
    rw [List.find?_eq_none]
    intro x hx
    have := h x (by simpa using hx)
    simp [this]
  rw [this]

theorem rjust_length (w : Nat) (s : Txt) : (rjust w s).length = max w s.length := by
  unfold rjust
  simp only [List.length_append, List.length_replicate]
  omega

theorem foldl_max_ge (ls : List Txt) (m : Nat) : m ≤ ls.foldl (fun m t => max m t.length) m := by
  induction ls generalizing m with
  | nil => exact Nat.le_refl _
  | cons a r ih => exact Nat.le_trans (Nat.le_max_left _ _) (ih _)

theorem le_maxLen (ls : List Txt) (t : Txt) (ht : t ∈ ls) : t.length ≤ maxLen ls := by
  unfold maxLen
  suffices ∀ m, t.length ≤ ls.foldl (fun m t => max m t.length) m from this 0
  induction ls with
  | nil => cases ht
  | cons a r ih =>
    intro m
    cases ht with
    | head => exact Nat.le_trans (Nat.le_max_right _ _) (foldl_max_ge r _)
    | tail _ h' => exact ih h' _

theorem natTxt_length_le (n e : Nat) (he : 0 < e) (h : n < 10 ^ e) : (natTxt n).length ≤ e := by
  unfold natTxt
  have := Nat.toDigits_length 10 n e he h
  simpa [String.length_toList, Nat.repr] using this

/-! ## stable insertion sort -/

theorem insertBy_perm (le : Func → Func → Bool) (x : Func) (l : List Func) : (insertBy le x l).Perm (x :: l) := by
  induction l with
  | nil => exact List.Perm.refl _
  | cons y r ih =>
    unfold insertBy
    split
    · exact (List.Perm.cons y ih).trans (List.Perm.swap x y r)
    · exact List.Perm.refl _

theorem sortBy_perm (le : Func → Func → Bool) (l : List Func) : (sortBy le l).Perm l := by
  unfold sortBy
  suffices ∀ acc, (l.foldl (fun acc x => insertBy le x acc) acc).Perm (acc ++ l) by simpa using this []
  induction l with
  | nil => intro acc; simp
  | cons a r ih =>
    intro acc
    simp only [List.foldl_cons]
    refine (ih _).trans ?_
    have := insertBy_perm le a acc
    refine (List.Perm.append_right r this).trans ?_
    simp only [List.cons_append]
    exact (List.perm_middle).symm

theorem insertBy_sorted (key : Func → Nat) (x : Func) (l : List Func) (h : l.Pairwise (fun a b => key a ≤ key b)) :
    (insertBy (fun a b => decide (key a ≤ key b)) x l).Pairwise (fun a b => key a ≤ key b) := by
  induction l with
  | nil => simp [insertBy]
  | cons y r ih =>
    unfold insertBy
    have hy := List.pairwise_cons.mp h
    by_cases hle : key y ≤ key x
    · simp only [hle, decide_true, if_true]
      refine List.pairwise_cons.mpr ⟨?_, ih hy.2⟩
      intro z hz
      have hz' := (insertBy_perm _ x r).subset hz
      cases hz' with
      | head => exact hle
      | tail _ h' => exact hy.1 z h'
    · simp only [hle, decide_false, Bool.false_eq_true, if_false]
      refine List.pairwise_cons.mpr ⟨?_, h⟩
      intro z hz
      have hxy : key x ≤ key y := by omega
      cases hz with
      | head => exact hxy
      | tail _ h' => exact Nat.le_trans hxy (hy.1 z h')

theorem sortBy_sorted (key : Func → Nat) (l : List Func) :
    (sortBy (fun a b => decide (key a ≤ key b)) l).Pairwise (fun a b => key a ≤ key b) := by
  unfold sortBy
  suffices ∀ acc : List Func, acc.Pairwise (fun a b => key a ≤ key b) →
      (l.foldl (fun acc x => insertBy (fun a b => decide (key a ≤ key b)) x acc) acc).Pairwise (fun a b => key a ≤ key b) from
    this [] List.Pairwise.nil
  induction l with
  | nil => intro acc h; exact h
  | cons a r ih => intro acc h; exact ih _ (insertBy_sorted key a acc h)

end LPVerif.Report
