import LPVerif.Model.CoreExec
import LPVerif.Lemmas.Core
/-! Refinement: the hash-map machine commutes with `abs` into the functional machine. -/
namespace LPVerif.Core
open Std

@[simp] theorem abs_regs (s : ESt) : s.abs.regs = s.regs := rfl

theorem abs_init (regs) : (ESt.init regs).abs = St.init regs := by
  simp [ESt.init, ESt.abs, St.init, ESt.lastOf]

theorem abs_bump (s : ESt) (b c o dt) : (s.bump b c o dt).abs = s.abs.bump b c o dt := by
  simp only [ESt.bump, ESt.abs, St.bump, ESt.lastOf]
  congr 1
  · funext b' c' o'
    rw [HashMap.getD_insert]
    by_cases h : b' = b ∧ c' = c ∧ o' = o
    · obtain ⟨h1, h2, h3⟩ := h; subst h1 h2 h3; simp
    · have : ((b, c, o) == (b', c', o')) = false := by
        simp only [beq_eq_false_iff_ne, ne_eq, Prod.mk.injEq]
        intro ⟨h1, h2, h3⟩; exact h ⟨h1.symm, h2.symm, h3.symm⟩
      simp [this, h]
  · funext b' c' o'
    rw [HashMap.getD_insert]
    by_cases h : b' = b ∧ c' = c ∧ o' = o
    · obtain ⟨h1, h2, h3⟩ := h; subst h1 h2 h3; simp
    · have : ((b, c, o) == (b', c', o')) = false := by
        simp only [beq_eq_false_iff_ne, ne_eq, Prod.mk.injEq]
        intro ⟨h1, h2, h3⟩; exact h ⟨h1.symm, h2.symm, h3.symm⟩
      simp [this, h]

theorem abs_setLast (s : ESt) (t b v) : (s.setLast t b v).abs = s.abs.setLast t b v := by
  cases v with
  | none =>
    simp only [ESt.setLast, ESt.abs, St.setLast, ESt.lastOf]
    congr 1
    funext t' b'
    rw [HashMap.getD_insert]
    by_cases ht : t = t'
    · subst ht
      simp only [beq_self_eq_true, if_true, HashMap.getElem?_erase, true_and]
      by_cases hb : b' = b
      · subst hb; simp
      · have : (b == b') = false := by simp [beq_eq_false_iff_ne]; exact fun h => hb h.symm
        simp [this, hb]
    · have : (t == t') = false := by simp [ht]
      have ht' : ¬ t' = t := fun h => ht h.symm
      simp [this, ht']
  | some x =>
    simp only [ESt.setLast, ESt.abs, St.setLast, ESt.lastOf]
    congr 1
    funext t' b'
    rw [HashMap.getD_insert]
    by_cases ht : t = t'
    · subst ht
      simp only [beq_self_eq_true, if_true, HashMap.getElem?_insert, true_and]
      by_cases hb : b' = b
      · subst hb; simp
      · have : (b == b') = false := by simp [beq_eq_false_iff_ne]; exact fun h => hb h.symm
        simp [this, hb]
    · have : (t == t') = false := by simp [ht]
      have ht' : ¬ t' = t := fun h => ht h.symm
      simp [this, ht']

theorem abs_closePending (s : ESt) (t b c r) :
    (s.closePending t b c r).abs = s.abs.closePending t b c r := by
  unfold ESt.closePending St.closePending
  have : s.abs.last t b = s.lastOf t b := rfl
  rw [this]
  cases h : s.lastOf t b with
  | none => rfl
  | some p => obtain ⟨old, st⟩ := p; exact abs_bump s b c old (r - st)

/-- **refinement step**: the executable callback simulates the functional one -/
theorem abs_ecb (s : ESt) (e : Ev) : (ecb s e).abs = cb s.abs e := by
  unfold ecb cb
  simp only [abs_regs]
  by_cases h : (e.b, e.l) ∈ s.regs
  · simp only [h, if_true]; rw [abs_setLast, abs_closePending]
  · simp only [h, if_false]

theorem abs_clearThread (s : ESt) (t) : (s.clearThread t).abs = s.abs.clearThread t := by
  simp only [ESt.clearThread, ESt.abs, St.clearThread, ESt.lastOf]
  congr 1
  funext t' b'
  rw [HashMap.getD_insert]
  by_cases ht : t = t'
  · subst ht; simp
  · have : (t == t') = false := by simp [ht]
    have ht' : ¬ t' = t := fun h => ht h.symm
    simp [this, ht']

theorem abs_addRegs (s : ESt) (r) : (s.addRegs r).abs = s.abs.addRegs r := rfl

theorem abs_run (evs : List Ev) (s : ESt) : (evs.foldl ecb s).abs = run s.abs evs := by
  induction evs generalizing s with
  | nil => rfl
  | cons e r ih => simp only [List.foldl_cons, run]; rw [ih, abs_ecb]; rfl

end LPVerif.Core
