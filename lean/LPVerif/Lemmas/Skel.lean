import LPVerif.Model.Skel
/-! Soundness of the abstract interpreter `paths`, and the lifting of a checked-on-all-valuations claim to all environments. -/
namespace LPVerif.Skel

variable {ν : Type} [DecidableEq ν]

theorem mem_allExc (e : Exc) : e ∈ allExc := by cases e <;> simp [allExc]

/-- soundness: whatever the risky leaves do, the real (outcome, log) is among `paths` -/
theorem paths_sound (env : Env ν) (s : Skel ν) (k : Nat) :
    ((exec env s k).1, (exec env s k).2.1) ∈ paths env.cond s := by
  induction s generalizing k with
  | skip => simp [exec, paths]
  | eff n risky =>
    unfold exec paths
    cases risky with
    | false => simp
    | true =>
      cases hr : env.risk k with
      | none => simp
      | some e =>
        have := mem_allExc e
        simp [this]
  | seq a b iha ihb =>
    have ha := iha k
    unfold exec paths
    rcases hra : exec env a k with ⟨o1, l1, k1⟩
    rw [hra] at ha
    simp only at ha
    cases o1 with
    | normal =>
      have hb := ihb k1
      rcases hrb : exec env b k1 with ⟨o2, l2, k2⟩
      rw [hrb] at hb
      simp only [List.mem_flatMap]
      refine ⟨(.normal, l1), ha, ?_⟩
      simp only [if_true, List.mem_map]
      exact ⟨(o2, l2), hb, by simp [hrb]⟩
    | raised e =>
      simp only [List.mem_flatMap]
      exact ⟨(.raised e, l1), ha, by simp⟩
    | returned =>
      simp only [List.mem_flatMap]
      exact ⟨(.returned, l1), ha, by simp⟩
  | ite c t e iht ihe =>
    unfold exec paths
    cases env.cond c <;> simp [iht k, ihe k]
  | tryExcept body catches h el ihb ihh ihe =>
    have hb := ihb k
    unfold exec paths
    rcases hrb : exec env body k with ⟨o1, l1, k1⟩
    rw [hrb] at hb
    simp only at hb
    simp only [List.mem_flatMap]
    cases o1 with
    | normal =>
      refine ⟨(.normal, l1), hb, ?_⟩
      have he := ihe k1
      rcases hre : exec env el k1 with ⟨o2, l2, k2⟩
      rw [hre] at he
      simp only [List.mem_map]
      exact ⟨(o2, l2), he, by simp [hre]⟩
    | returned => exact ⟨(.returned, l1), hb, by simp⟩
    | raised e =>
      refine ⟨(.raised e, l1), hb, ?_⟩
      by_cases hc : e ∈ catches
      · have hh := ihh k1
        rcases hrh : exec env h k1 with ⟨o2, l2, k2⟩
        rw [hrh] at hh
        simp only [hc, if_true, List.mem_map]
        exact ⟨(o2, l2), hh, by simp [hrh]⟩
      · simp [hc]
  | tryFinally body fin ihb ihf =>
    have hb := ihb k
    unfold exec paths
    rcases hrb : exec env body k with ⟨o1, l1, k1⟩
    rw [hrb] at hb
    have hf := ihf k1
    rcases hrf : exec env fin k1 with ⟨o2, l2, k2⟩
    rw [hrf] at hf
    simp only [List.mem_flatMap, List.mem_map]
    exact ⟨(o1, l1), hb, (o2, l2), hf, by simp [hrf]⟩
  | ret => simp [exec, paths]
  | raise_ e => simp [exec, paths]

/-- only the conditions occurring in the skeleton matter -/
theorem paths_congr (c1 c2 : ν → Bool) (s : Skel ν) (h : ∀ n ∈ condNames s, c1 n = c2 n) :
    paths c1 s = paths c2 s := by
  induction s with
  | skip => rfl
  | eff n risky => rfl
  | seq a b iha ihb =>
    simp only [condNames, List.mem_append] at h
    simp only [paths, iha (fun n hn => h n (Or.inl hn)), ihb (fun n hn => h n (Or.inr hn))]
  | ite c t e iht ihe =>
    simp only [condNames, List.mem_cons, List.mem_append] at h
    simp only [paths, h c (Or.inl rfl), iht (fun n hn => h n (Or.inr (Or.inl hn))), ihe (fun n hn => h n (Or.inr (Or.inr hn)))]
  | tryExcept body catches hd el ihb ihh ihe =>
    simp only [condNames, List.mem_append] at h
    simp only [paths, ihb (fun n hn => h n (Or.inl (Or.inl hn))), ihh (fun n hn => h n (Or.inl (Or.inr hn))),
      ihe (fun n hn => h n (Or.inr hn))]
  | tryFinally body fin ihb ihf =>
    simp only [condNames, List.mem_append] at h
    simp only [paths, ihb (fun n hn => h n (Or.inl hn)), ihf (fun n hn => h n (Or.inr hn))]
  | ret => rfl
  | raise_ e => rfl

theorem filter_mem_subsets (names : List ν) (cond : ν → Bool) : names.filter cond ∈ subsets names := by
  induction names with
  | nil => simp [subsets]
  | cons a r ih =>
    simp only [subsets, List.mem_flatMap]
    refine ⟨r.filter cond, ih, ?_⟩
    cases hc : cond a <;> simp [List.filter_cons, hc]

/-- every valuation agrees, on the given names, with the valuation of one of their subsets -/
theorem subsets_complete (names : List ν) (cond : ν → Bool) :
    ∃ ts ∈ subsets names, ∀ n ∈ names, valOf ts n = cond n := by
  refine ⟨names.filter cond, filter_mem_subsets names cond, ?_⟩
  intro n hn
  unfold valOf
  cases hc : cond n
  · simp [List.mem_filter, hc]
  · simp [List.mem_filter, hc, hn]

/-- **Lifting.**  A predicate on (outcome, log) that holds on every path under every valuation of the skeleton's own
    conditions holds for every execution in every environment — every truth value of every condition (option set, run
    mode), every behaviour of every risky leaf (every crash point, every kind of termination). -/
theorem forall_env [BEq ν] [LawfulBEq ν] (s : Skel ν) (P : Out → List ν → Bool)
    (h : ∀ ts ∈ subsets (condNames s).eraseDups, ∀ p ∈ paths (valOf ts) s, P p.1 p.2 = true) (env : Env ν) (k : Nat) :
    P (exec env s k).1 (exec env s k).2.1 = true := by
  obtain ⟨ts, hts, hagree⟩ := subsets_complete (condNames s).eraseDups env.cond
  have hs := paths_sound env s k
  rw [← paths_congr (valOf ts) env.cond s (fun n hn => hagree n (List.mem_eraseDups.mpr hn))] at hs
  exact h ts hts _ hs

/-- Boolean form of the hypothesis of `forall_env` (what `decide` evaluates) -/
def checkAll [BEq ν] (s : Skel ν) (P : Out → List ν → Bool) : Bool :=
  (subsets (condNames s).eraseDups).all fun ts => (paths (valOf ts) s).all fun p => P p.1 p.2

theorem forall_env_of_check [BEq ν] [LawfulBEq ν] (s : Skel ν) (P : Out → List ν → Bool) (h : checkAll s P = true) (env : Env ν) (k : Nat) :
    P (exec env s k).1 (exec env s k).2.1 = true := by
  apply forall_env s P
  intro ts hts p hp
  simp only [checkAll, List.all_eq_true] at h
  exact h ts hts p hp

/-- `checkAll` restricted to the valuations in which every condition in `req` (that the skeleton consults) is true -/
def checkWhen [BEq ν] [LawfulBEq ν] (req : List ν) (s : Skel ν) (P : Out → List ν → Bool) : Bool :=
  (subsets (condNames s).eraseDups).all fun ts =>
    !(req.all fun c => !(decide (c ∈ (condNames s).eraseDups)) || decide (c ∈ ts)) || (paths (valOf ts) s).all fun p => P p.1 p.2

/-- **Lifting under assumptions.**  As `forall_env_of_check`, for the environments in which the conditions `req` hold. -/
theorem forall_env_when [BEq ν] [LawfulBEq ν] (req : List ν) (s : Skel ν) (P : Out → List ν → Bool) (h : checkWhen req s P = true)
    (env : Env ν) (hreq : ∀ c ∈ req, env.cond c = true) (k : Nat) :
    P (exec env s k).1 (exec env s k).2.1 = true := by
  have hts := filter_mem_subsets (condNames s).eraseDups env.cond
  have hagree : ∀ n ∈ (condNames s).eraseDups, valOf ((condNames s).eraseDups.filter env.cond) n = env.cond n := by
    intro n hn
    unfold valOf
    cases hc : env.cond n
    · simp [List.mem_filter, hc]
    · simp [List.mem_filter, hc, hn]
  have hs := paths_sound env s k
  rw [← paths_congr (valOf ((condNames s).eraseDups.filter env.cond)) env.cond s (fun n hn => hagree n (List.mem_eraseDups.mpr hn))] at hs
  simp only [checkWhen, List.all_eq_true] at h
  have h1 := h _ hts
  simp only [Bool.or_eq_true, Bool.not_eq_true', List.all_eq_true] at h1
  rcases h1 with h1 | h1
  · exfalso
    have : (req.all fun c => !(decide (c ∈ (condNames s).eraseDups)) || decide (c ∈ (condNames s).eraseDups.filter env.cond)) = true := by
      simp only [List.all_eq_true]
      intro c hc
      by_cases hm : c ∈ (condNames s).eraseDups
      · simp [hm, List.mem_filter, hreq c hc]
      · simp [hm]
    rw [this] at h1
    exact Bool.noConfusion h1
  · exact h1 _ hs

end LPVerif.Skel
