import LPVerif.Model.FS
/-! Lemmas: per-root lookup = import walk; several roots; the package walk. -/
namespace LPVerif.FS

theorem isValid_cons (root : Entries) (c : String) (r : List String) :
    isValid root (c :: r) =
      (match root.subdir c with
       | some d => d.isPkg && isValid d r
       | none => false) := by
  unfold isValid
  simp only [List.length_cons, List.range_succ_eq_map, List.all_cons, List.all_map]
  cases h : root.subdir c with
  | none => simp [descend, h]
  | some d => simp [descend, h, Function.comp_def]

@[simp] theorem match_none {α β : Type} (o : Option α) :
    (match o with | some _ => (none : Option β) | none => none) = none := by cases o <;> rfl

@[simp] theorem match_false {α : Type} (o : Option α) :
    (match o with | some _ => false | none => false) = false := by cases o <;> rfl

theorem implRoot_cons (root : Entries) (c c' : String) (r : List String) :
    implRoot root (c :: c' :: r) =
      (match root.subdir c with
       | some d => if d.isPkg then implRoot d (c' :: r) else none
       | none => none) := by
  cases hl : (c' :: r).getLast? with
  | none => simp at hl
  | some last =>
    cases h : root.subdir c with
    | none =>
      simp only [implRoot, List.getLast?_cons_cons, hl, List.dropLast_cons₂, descend, h]
      simp
    | some d =>
      cases hi : d.isPkg
      · have hv : isValid root (c :: (c' :: r).dropLast) = false := by
          rw [isValid_cons]; simp [h, hi]
        simp only [implRoot, List.getLast?_cons_cons, hl, List.dropLast_cons₂, hv, Bool.and_false]
        simp only [Bool.false_eq_true, if_false]
        cases descend root (c :: (c' :: r).dropLast) <;> simp [hi]
        all_goals (cases descend root (c :: c' :: r) <;> simp [hi])
      · have hv : isValid root (c :: (c' :: r).dropLast) = isValid d (c' :: r).dropLast := by
          rw [isValid_cons]; simp [h, hi]
        simp only [implRoot, List.getLast?_cons_cons, hl, List.dropLast_cons₂, hv, descend, h]
        simp [hi]

/-- below one search root, lookup and the import walk agree for every dotted name -/
theorem implRoot_eq_specRoot (root : Entries) (cs : List String) : implRoot root cs = specRoot root cs := by
  induction cs generalizing root with
  | nil => simp [implRoot, specRoot]
  | cons c r ih =>
    cases r with
    | nil =>
      simp only [implRoot, specRoot, find1, List.getLast?_singleton, List.dropLast_singleton, descend, isValid]
      cases h : root.subdir c with
      | none => simp
      | some d => cases hi : d.isPkg <;> simp
    | cons c' r' =>
      rw [implRoot_cons, specRoot]
      · cases h : root.subdir c with
        | none => simp
        | some d => simp [ih d]
      · simp

/-- if the whole name is found below a root, its first component is found there too -/
theorem find1_of_specRoot (root : Entries) (c : String) (r : List String) (f : Found) (h : specRoot root (c :: r) = some f) :
    find1 root c ≠ none := by
  cases r with
  | nil => simp [specRoot] at h; simp [h]
  | cons c' r' =>
    rw [specRoot] at h
    · cases hs : root.subdir c with
      | none => simp [hs] at h
      | some d =>
        cases hi : d.isPkg
        · simp [hs, hi] at h
        · simp [find1, hs, hi]
    · simp

theorem lookupFrom_some_iff (i : Nat) (roots : List Entries) (cs : List String) (j : Nat) (f : Found) :
    lookupFrom i roots cs = some (j, f) →
      ∃ k, j = i + k ∧ ∃ r, roots[k]? = some r ∧ implRoot r cs = some f ∧ ∀ k' < k, ∀ r', roots[k']? = some r' → implRoot r' cs = none := by
  induction roots generalizing i with
  | nil => simp [lookupFrom]
  | cons r rest ih =>
    intro h
    unfold lookupFrom at h
    cases hr : implRoot r cs with
    | some f' =>
      simp only [hr, Option.some.injEq, Prod.mk.injEq] at h
      exact ⟨0, by omega, r, by simp, by rw [hr, h.2], by intro k' hk'; omega⟩
    | none =>
      simp only [hr] at h
      obtain ⟨k, hk, r', hr', hf, hbefore⟩ := ih (i + 1) h
      refine ⟨k + 1, by omega, r', by simpa using hr', hf, ?_⟩
      intro k' hk' r'' hr''
      cases k' with
      | zero => simp at hr''; rw [← hr'']; exact hr
      | succ k'' => exact hbefore k'' (by omega) r'' (by simpa using hr'')

/-! ## the package walk -/

theorem inPkg_cons_file (n : String) (r : Entries) (p : List String) :
    InPkg (.cons n .file r) p ↔ ((p = [n] ∧ isModuleFile n = true) ∨ InPkg r p) := by
  constructor
  · intro h
    cases h with
    | modHere _ m hm hmod =>
      simp only [Entries.toList, List.mem_cons, Prod.mk.injEq] at hm
      rcases hm with ⟨h1, _⟩ | hm
      · left; exact ⟨by rw [h1], h1 ▸ hmod⟩
      · right; exact InPkg.modHere r m hm hmod
    | inSub _ d m q hm hd hq =>
      simp only [Entries.toList, List.mem_cons, Prod.mk.injEq] at hm
      rcases hm with ⟨_, h2⟩ | hm
      · cases h2
      · right; exact InPkg.inSub r d m q hm hd hq
  · rintro (⟨hp, hm⟩ | h)
    · subst hp; exact InPkg.modHere _ n (by simp [Entries.toList]) hm
    · cases h with
      | modHere _ m hm hmod => exact InPkg.modHere _ m (by simp [Entries.toList, hm]) hmod
      | inSub _ d m q hm hd hq => exact InPkg.inSub _ d m q (by simp [Entries.toList, hm]) hd hq

theorem inPkg_cons_dir (n : String) (d r : Entries) (p : List String) :
    InPkg (.cons n (.dir d) r) p ↔ ((∃ q, p = n :: q ∧ d.isPkg = true ∧ InPkg d q) ∨ InPkg r p) := by
  constructor
  · intro h
    cases h with
    | modHere _ m hm hmod =>
      simp only [Entries.toList, List.mem_cons, Prod.mk.injEq] at hm
      rcases hm with ⟨_, h2⟩ | hm
      · cases h2
      · right; exact InPkg.modHere r m hm hmod
    | inSub _ d' m q hm hd hq =>
      simp only [Entries.toList, List.mem_cons, Prod.mk.injEq] at hm
      rcases hm with ⟨h1, h2⟩ | hm
      · left
        have : d' = d := by injection h2
        subst this
        exact ⟨q, by rw [h1], hd, hq⟩
      · right; exact InPkg.inSub r d' m q hm hd hq
  · rintro (⟨q, hp, hd, hq⟩ | h)
    · subst hp; exact InPkg.inSub _ d n q (by simp [Entries.toList]) hd hq
    · cases h with
      | modHere _ m hm hmod => exact InPkg.modHere _ m (by simp [Entries.toList, hm]) hmod
      | inSub _ d' m q hm hd hq => exact InPkg.inSub _ d' m q (by simp [Entries.toList, hm]) hd hq

theorem not_inPkg_nil (p : List String) : ¬ InPkg .nil p := by
  intro h
  cases h with
  | modHere _ m hm _ => simp [Entries.toList] at hm
  | inSub _ d m q hm _ _ => simp [Entries.toList] at hm

/-- the walk yields exactly the module files of the package and of its regular sub-packages -/
theorem mem_walkEntries : (es : Entries) → (p : List String) → (p ∈ walkEntries es ↔ InPkg es p)
  | .nil, p => by simp [walkEntries, not_inPkg_nil]
  | .cons n .file r, p => by
    rw [inPkg_cons_file, walkEntries, List.mem_append, mem_walkEntries r p]
    by_cases hm : isModuleFile n = true <;> simp [hm]
  | .cons n (.dir d) r, p => by
    rw [inPkg_cons_dir, walkEntries, List.mem_append, mem_walkEntries r p]
    by_cases hd : d.isPkg = true
    · simp only [hd, if_true, List.mem_map, true_and]
      constructor
      · rintro (⟨q, hq, rfl⟩ | h)
        · left; exact ⟨q, rfl, (mem_walkEntries d q).mp hq⟩
        · right; exact h
      · rintro (⟨q, rfl, hq⟩ | h)
        · left; exact ⟨q, (mem_walkEntries d q).mpr hq, rfl⟩
        · right; exact h
    · simp [hd]

/-! ### the sub-packages the walk passes through (`with_pkg=True`) -/

theorem not_subPkg_nil (p : List String) : ¬ SubPkg .nil p := by
  intro h
  cases h with
  | direct _ d m hm _ => simp [Entries.toList] at hm
  | nested _ d m q hm _ _ => simp [Entries.toList] at hm

theorem subPkg_cons_file (n : String) (r : Entries) (p : List String) : SubPkg (.cons n .file r) p ↔ SubPkg r p := by
  constructor
  · intro h
    cases h with
    | direct _ d m hm hd =>
      simp only [Entries.toList, List.mem_cons, Prod.mk.injEq] at hm
      rcases hm with ⟨_, h2⟩ | hm
      · cases h2
      · exact SubPkg.direct r d m hm hd
    | nested _ d m q hm hd hq =>
      simp only [Entries.toList, List.mem_cons, Prod.mk.injEq] at hm
      rcases hm with ⟨_, h2⟩ | hm
      · cases h2
      · exact SubPkg.nested r d m q hm hd hq
  · intro h
    cases h with
    | direct _ d m hm hd => exact SubPkg.direct _ d m (by simp [Entries.toList, hm]) hd
    | nested _ d m q hm hd hq => exact SubPkg.nested _ d m q (by simp [Entries.toList, hm]) hd hq

theorem subPkg_cons_dir (n : String) (d r : Entries) (p : List String) :
    SubPkg (.cons n (.dir d) r) p ↔ ((d.isPkg = true ∧ (p = [n] ∨ ∃ q, p = n :: q ∧ SubPkg d q)) ∨ SubPkg r p) := by
  constructor
  · intro h
    cases h with
    | direct _ d' m hm hd =>
      simp only [Entries.toList, List.mem_cons, Prod.mk.injEq] at hm
      rcases hm with ⟨h1, h2⟩ | hm
      · have : d' = d := by injection h2
        subst this
        exact Or.inl ⟨hd, Or.inl (by rw [h1])⟩
      · exact Or.inr (SubPkg.direct r d' m hm hd)
    | nested _ d' m q hm hd hq =>
      simp only [Entries.toList, List.mem_cons, Prod.mk.injEq] at hm
      rcases hm with ⟨h1, h2⟩ | hm
      · have : d' = d := by injection h2
        subst this
        exact Or.inl ⟨hd, Or.inr ⟨q, by rw [h1], hq⟩⟩
      · exact Or.inr (SubPkg.nested r d' m q hm hd hq)
  · rintro (⟨hd, hp | ⟨q, hp, hq⟩⟩ | h)
    · subst hp; exact SubPkg.direct _ d n (by simp [Entries.toList]) hd
    · subst hp; exact SubPkg.nested _ d n q (by simp [Entries.toList]) hd hq
    · cases h with
      | direct _ d' m hm hd => exact SubPkg.direct _ d' m (by simp [Entries.toList, hm]) hd
      | nested _ d' m q hm hd hq => exact SubPkg.nested _ d' m q (by simp [Entries.toList, hm]) hd hq

/-- the walk passes through exactly the regular packages nested in regular packages -/
theorem mem_walkPkgEntries : (es : Entries) → (p : List String) → (p ∈ walkPkgEntries es ↔ SubPkg es p)
  | .nil, p => by simp [walkPkgEntries, not_subPkg_nil]
  | .cons n .file r, p => by
    rw [subPkg_cons_file, walkPkgEntries, mem_walkPkgEntries r p]
  | .cons n (.dir d) r, p => by
    rw [subPkg_cons_dir, walkPkgEntries, List.mem_append, mem_walkPkgEntries r p]
    by_cases hd : d.isPkg = true
    · simp only [hd, if_true, List.mem_cons, List.mem_map, true_and]
      constructor
      · rintro ((h | ⟨q, hq, rfl⟩) | h)
        · exact Or.inl (Or.inl h)
        · exact Or.inl (Or.inr ⟨q, rfl, (mem_walkPkgEntries d q).mp hq⟩)
        · exact Or.inr h
      · rintro ((h | ⟨q, rfl, hq⟩) | h)
        · exact Or.inl (Or.inl h)
        · exact Or.inl (Or.inr ⟨q, (mem_walkPkgEntries d q).mpr hq, rfl⟩)
        · exact Or.inr h
    · simp [hd]

end LPVerif.FS
