import LPVerif.Model.Core
/-! Helper lemmas for the callback machine: the hit-count invariant `run_inv` for arbitrary event lists. -/
namespace LPVerif.Core

theorem sum_bump (lines : List Int) (f : Int → Nat) (x : Int) (hx : x ∈ lines) (hn : lines.Nodup) :
    (lines.map (fun c => if c = x then f c + 1 else f c)).sum = (lines.map f).sum + 1 := by
  induction lines with
  | nil => cases hx
  | cons a r ih =>
    simp only [List.nodup_cons] at hn
    simp only [List.map_cons, List.sum_cons]
    by_cases h : a = x
    · subst h
      have : (r.map (fun c => if c = a then f c + 1 else f c)) = r.map f := by
        apply List.map_congr_left
        intro c hc
        have : c ≠ a := fun h => hn.1 (h ▸ hc)
        simp [this]
      simp [this]; omega
    · have hx' : x ∈ r := by
        cases hx with
        | head => exact absurd rfl h
        | tail _ h' => exact h'
      have := ih hx' hn.2
      simp [h, this]; omega

/-- filter length when the predicate changes at exactly one element of a nodup list -/
theorem filter_len_update (ts : List Nat) (p q : Nat → Bool) (t : Nat) (ht : t ∈ ts) (hn : ts.Nodup)
    (hpq : ∀ x, x ≠ t → q x = p x) :
    (ts.filter q).length + (if p t then 1 else 0) = (ts.filter p).length + (if q t then 1 else 0) := by
  induction ts with
  | nil => cases ht
  | cons a r ih =>
    simp only [List.nodup_cons] at hn
    by_cases h : a = t
    · subst h
      have hr : r.filter q = r.filter p := by
        apply List.filter_congr
        intro x hx
        exact hpq x (fun h => hn.1 (h ▸ hx))
      simp only [List.filter_cons, hr]
      cases hp : p a <;> cases hq : q a <;> simp
    · have ht' : t ∈ r := by
        cases ht with
        | head => exact absurd rfl h
        | tail _ h' => exact h'
      have := ih ht' hn.2
      simp only [List.filter_cons, hpq a h]
      cases hp : p a <;> simp <;> omega

@[simp] theorem bump_regs (s : St) (b c o dt) : (s.bump b c o dt).regs = s.regs := rfl
@[simp] theorem bump_last (s : St) (b c o dt) : (s.bump b c o dt).last = s.last := rfl
@[simp] theorem closePending_regs (s : St) (t b c r) : (s.closePending t b c r).regs = s.regs := by
  unfold St.closePending; split <;> rfl
@[simp] theorem closePending_last (s : St) (t b c r) : (s.closePending t b c r).last = s.last := by
  unfold St.closePending; split <;> rfl
theorem setLast_last (s : St) (t b v t' b') :
    (s.setLast t b v).last t' b' = if t' = t ∧ b' = b then v else s.last t' b' := rfl
@[simp] theorem setLast_regs (s : St) (t b v) : (s.setLast t b v).regs = s.regs := rfl
@[simp] theorem setLast_hits (s : St) (t b v) : (s.setLast t b v).hits = s.hits := rfl
@[simp] theorem setLast_time (s : St) (t b v) : (s.setLast t b v).time = s.time := rfl
@[simp] theorem clearThread_regs (s : St) (t) : (s.clearThread t).regs = s.regs := rfl
@[simp] theorem clearThread_hits (s : St) (t) : (s.clearThread t).hits = s.hits := rfl
@[simp] theorem clearThread_time (s : St) (t) : (s.clearThread t).time = s.time := rfl
@[simp] theorem addRegs_hits (s : St) (r) : (s.addRegs r).hits = s.hits := rfl
@[simp] theorem addRegs_time (s : St) (r) : (s.addRegs r).time = s.time := rfl
@[simp] theorem addRegs_last (s : St) (r) : (s.addRegs r).last = s.last := rfl
@[simp] theorem addRegs_regs (s : St) (r) : (s.addRegs r).regs = s.regs ++ r := rfl

@[simp] theorem cb_regs (s : St) (e : Ev) : (cb s e).regs = s.regs := by
  unfold cb; split <;> simp

@[simp] theorem run_regs (evs : List Ev) (s : St) : (run s evs).regs = s.regs := by
  induction evs generalizing s with
  | nil => rfl
  | cons e r ih => simp [run, List.foldl_cons] at ih ⊢; rw [ih]; simp

@[simp] theorem closed_setLast (s : St) (t b' v) (lines : List Int) (b : Blk) (l : Int) :
    closed (s.setLast t b' v) lines b l = closed s lines b l := rfl
@[simp] theorem pend_closePending (s : St) (t b' c r) (threads : List Nat) (b : Blk) (l : Int) :
    pend (s.closePending t b' c r) threads b l = pend s threads b l := by
  simp only [pend, closePending_last]

theorem closed_closePending_same (s : St) (t : Nat) (b : Blk) (cur l r1 : Int) (lines : List Int)
    (hc : cur ∈ lines) (hn : lines.Nodup) :
    closed (s.closePending t b cur r1) lines b l
      = closed s lines b l + (if (s.last t b).map Prod.fst = some l then 1 else 0) := by
  unfold St.closePending
  cases h : s.last t b with
  | none => simp
  | some p =>
    obtain ⟨old, st⟩ := p
    by_cases hol : old = l
    · subst hol
      have e1 : closed (s.bump b cur old (r1 - st)) lines b old
          = (lines.map (fun c => if c = cur then (fun c => s.hits b c old) c + 1
                                 else (fun c => s.hits b c old) c)).sum := by
        unfold closed St.bump
        congr 1; apply List.map_congr_left; intro c _; simp
      simp only [e1, sum_bump lines (fun c => s.hits b c old) cur hc hn]
      simp [closed]
    · have e1 : closed (s.bump b cur old (r1 - st)) lines b l = closed s lines b l := by
        unfold closed St.bump
        congr 1; apply List.map_congr_left; intro c _
        have : ¬ (l = old) := fun h => hol h.symm
        simp [this]
      simp [e1, hol]

theorem closed_closePending_other (s : St) (t : Nat) (b b' : Blk) (cur l r1 : Int) (lines : List Int)
    (hb : b' ≠ b) :
    closed (s.closePending t b' cur r1) lines b l = closed s lines b l := by
  unfold St.closePending
  have hb' : ¬ b = b' := fun h => hb h.symm
  split <;> simp [closed, St.bump, hb']

theorem pend_setLast_same (s : St) (t : Nat) (b : Blk) (v : Option (Int × Int)) (l : Int)
    (threads : List Nat) (ht : t ∈ threads) (htn : threads.Nodup) :
    pend (s.setLast t b v) threads b l + (if (s.last t b).map Prod.fst = some l then 1 else 0)
      = pend s threads b l + (if v.map Prod.fst = some l then 1 else 0) := by
  have := filter_len_update threads (fun t' => decide ((s.last t' b).map Prod.fst = some l))
      (fun t' => decide (((s.setLast t b v).last t' b).map Prod.fst = some l)) t ht htn
      (by intro x hx
          have : (s.setLast t b v).last x b = s.last x b := by simp [setLast_last, hx]
          rw [this])
  have hv : (s.setLast t b v).last t b = v := by simp [setLast_last]
  rw [hv] at this
  simp only [pend]
  simp only [decide_eq_true_eq] at this
  exact this

theorem pend_setLast_other (s : St) (t : Nat) (b b' : Blk) (v : Option (Int × Int)) (l : Int)
    (threads : List Nat) (hb : b' ≠ b) :
    pend (s.setLast t b' v) threads b l = pend s threads b l := by
  have hb' : ¬ b = b' := fun h => hb h.symm
  unfold pend; congr 1; apply List.filter_congr; intro x _
  have : (s.setLast t b' v).last x b = s.last x b := by simp [setLast_last, hb']
  rw [this]

/-- one callback invocation: stored + pending grows by exactly the indicator of "registered LINE event of (b,l)".
    `lines` is any duplicate-free list containing every registered line of `b`. -/
theorem step_inv (s : St) (e : Ev) (lines : List Int) (threads : List Nat) (b : Blk) (l : Int)
    (hl : ∀ c, (b, c) ∈ s.regs → c ∈ lines) (hln : lines.Nodup)
    (ht : e.t ∈ threads) (htn : threads.Nodup) :
    closed (cb s e) lines b l + pend (cb s e) threads b l
      = closed s lines b l + pend s threads b l + ind s.regs e b l := by
  unfold cb
  by_cases hreg : (e.b, e.l) ∈ s.regs
  · simp only [hreg, if_true]
    by_cases hb : e.b = b
    · have hel : e.l ∈ lines := hl e.l (hb ▸ hreg)
      have h1 := closed_closePending_same s e.t b e.l l e.r1 lines hel hln
      have h2 := pend_setLast_same (s.closePending e.t b e.l e.r1) e.t b
        (if e.isLine then some (e.l, e.r2) else none) l threads ht htn
      simp only [closePending_last, pend_closePending] at h2
      rw [hb]; rw [hb] at hreg
      simp only [closed_setLast, h1, ind, hb, hreg, true_and, and_true]
      cases hline : e.isLine <;> simp only [hline] at h2 ⊢
      · simp at h2 ⊢; omega
      · by_cases hell : e.l = l <;> simp [hell] at h2 ⊢ <;> omega
    · rw [closed_setLast, closed_closePending_other s e.t b e.b e.l l e.r1 lines hb,
          pend_setLast_other _ e.t b e.b _ l threads hb, pend_closePending]
      simp [ind, hb]
  · simp [hreg, ind]

theorem opened_cons (regs : List (Blk × Int)) (e : Ev) (r : List Ev) (b : Blk) (l : Int) :
    opened regs (e :: r) b l = ind regs e b l + opened regs r b l := by
  unfold opened ind
  rw [List.filter_cons]
  by_cases h : e.isLine ∧ e.b = b ∧ e.l = l ∧ (e.b, e.l) ∈ regs
  · rw [if_pos (by simpa using h), if_pos h, List.length_cons]; omega
  · rw [if_neg (by simpa using h), if_neg h]; omega

/-- **The hit-count invariant**, for every event list (any threads, any interleaving of frames, no
    well-formedness assumed): stored hits + pending slots = what was there + LINE events delivered. -/
theorem run_inv (evs : List Ev) (s : St) (lines : List Int) (threads : List Nat) (b : Blk) (l : Int)
    (hl : ∀ c, (b, c) ∈ s.regs → c ∈ lines) (hln : lines.Nodup)
    (ht : ∀ e ∈ evs, e.t ∈ threads) (htn : threads.Nodup) :
    closed (run s evs) lines b l + pend (run s evs) threads b l
      = closed s lines b l + pend s threads b l + opened s.regs evs b l := by
  induction evs generalizing s with
  | nil => simp [run, opened]
  | cons e r ih =>
    have hstep := step_inv s e lines threads b l hl hln (ht e (by simp)) htn
    have := ih (cb s e) (by simpa using hl) (fun e' he' => ht e' (by simp [he']))
    simp only [run, List.foldl_cons, cb_regs] at this ⊢
    rw [this, hstep, opened_cons]; omega

theorem closed_init (regs) (lines : List Int) (b : Blk) (l : Int) : closed (St.init regs) lines b l = 0 := by
  simp only [closed, St.init]
  induction lines with
  | nil => rfl
  | cons a r ih => simp [ih]

theorem pend_init (regs) (threads : List Nat) (b : Blk) (l : Int) : pend (St.init regs) threads b l = 0 := by
  simp [pend, St.init]

/-- a callback invocation of another thread commutes with `disable()` of thread `t` -/
theorem cb_clearThread_comm (s : St) (t : Nat) (e : Ev) (h : e.t ≠ t) :
    cb (s.clearThread t) e = (cb s e).clearThread t := by
  unfold cb
  have hl : (s.clearThread t).last e.t e.b = s.last e.t e.b := by simp [St.clearThread, h]
  by_cases hm : (e.b, e.l) ∈ s.regs
  · have hm' : (e.b, e.l) ∈ (s.clearThread t).regs := hm
    rw [if_pos hm, if_pos hm']
    unfold St.closePending
    rw [hl]
    cases hls : s.last e.t e.b with
    | none =>
      simp only [St.setLast, St.clearThread]
      congr 1
      funext t' b'
      by_cases h1 : t' = t
      · subst h1; simp
        intro h2; exact absurd h2.symm h
      · simp [h1]
    | some p =>
      obtain ⟨old, st⟩ := p
      simp only [St.setLast, St.clearThread, St.bump]
      congr 1
      funext t' b'
      by_cases h1 : t' = t
      · subst h1; simp
        intro h2; exact absurd h2.symm h
      · simp [h1]
  · have hm' : (e.b, e.l) ∉ (s.clearThread t).regs := hm
    rw [if_neg hm, if_neg hm']

/-- … and so does any run of events of other threads -/
theorem run_clearThread_comm (evs : List Ev) (s : St) (t : Nat) (h : ∀ e ∈ evs, e.t ≠ t) :
    run (s.clearThread t) evs = (run s evs).clearThread t := by
  induction evs generalizing s with
  | nil => rfl
  | cons e es ih =>
    simp only [run, List.foldl_cons] at ih ⊢
    rw [cb_clearThread_comm s t e (h e (by simp))]
    exact ih (cb s e) (fun e' he' => h e' (by simp [he']))

end LPVerif.Core
