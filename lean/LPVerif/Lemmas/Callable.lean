import LPVerif.Model.Callable
/-! Structural-induction lemmas about `wrap`, `erase`, `underlying`, `invoke` (towers of any depth). -/
namespace LPVerif.Callable

mutual
theorem observable_depth (p : Nat) (c : C) (a : Access) (d d' : Nat) :
    observable (invoke p c a d) = observable (invoke p c a d') := by
  cases c with
  | fn id k => cases a <;> simp [invoke, observable]
  | obj id f => cases a <;> simp [invoke, observable]
  | wrapper q inner =>
    cases a with
    | call args => simp only [invoke]; exact observable_depth p inner _ _ _
    | get i => simp [invoke]
    | set i v => simp [invoke]
    | del i => simp [invoke]
  | classm c => cases a <;> simp only [invoke] <;> first | exact observable_depth p c _ _ _ | rfl
  | staticm c => cases a <;> simp only [invoke] <;> first | exact observable_depth p c _ _ _ | rfl
  | bound c s => cases a <;> simp only [invoke] <;> first | exact observable_depth p c _ _ _ | rfl
  | partial_ c l => cases a <;> simp only [invoke] <;> first | exact observable_depth p c _ _ _ | rfl
  | partialm c l =>
    cases a with
    | call args =>
      cases args with
      | nil => simp [invoke]
      | cons s r => simp only [invoke]; exact observable_depth p c _ _ _
    | get i => simp [invoke]
    | set i v => simp [invoke]
    | del i => simp [invoke]
  | prop g s dl doc name =>
    cases a <;> simp only [invoke] <;> first | exact observableO_depth p _ _ _ _ | rfl
  | cached c at_ => cases a <;> simp only [invoke] <;> first | exact observable_depth p c _ _ _ | rfl
theorem observableO_depth (p : Nat) (c : OC) (a : Access) (d d' : Nat) :
    observable (invokeO p c a d) = observable (invokeO p c a d') := by
  cases c with
  | none => simp [invokeO]
  | some c => simp only [invokeO]; exact observable_depth p c a d d'
end

mutual
theorem observable_wrap (p : Nat) (c : C) (a : Access) (d : Nat) :
    observable (invoke p (wrap p c) a d) = observable (invoke p c a d) := by
  cases c with
  | fn id k => cases a <;> simp [wrap, invoke, observable]
  | obj id f => cases a <;> simp [wrap, invoke, observable]
  | wrapper q inner =>
    simp only [wrap]
    by_cases h : q = p
    · simp [h]
    · simp only [h, if_false]
      cases a with
      | call args => simp only [invoke, if_true]; exact observable_depth p _ _ _ _
      | get i => simp [invoke]
      | set i v => simp [invoke]
      | del i => simp [invoke]
  | classm c => cases a <;> simp only [wrap, invoke] <;> first | exact observable_wrap p c _ _ | rfl
  | staticm c => cases a <;> simp only [wrap, invoke] <;> first | exact observable_wrap p c _ _ | rfl
  | bound c s => cases a <;> simp only [wrap, invoke] <;> first | exact observable_wrap p c _ _ | rfl
  | partial_ c l => cases a <;> simp only [wrap, invoke] <;> first | exact observable_wrap p c _ _ | rfl
  | partialm c l =>
    cases a with
    | call args =>
      cases args with
      | nil => simp [wrap, invoke]
      | cons s r => simp only [wrap, invoke]; exact observable_wrap p c _ _
    | get i => simp [wrap, invoke]
    | set i v => simp [wrap, invoke]
    | del i => simp [wrap, invoke]
  | prop g s dl doc name =>
    cases a <;> simp only [wrap, invoke] <;> first | exact observableO_wrap p _ _ _ | rfl
  | cached c at_ => cases a <;> simp only [wrap, invoke] <;> first | exact observable_wrap p c _ _ | rfl
theorem observableO_wrap (p : Nat) (c : OC) (a : Access) (d : Nat) :
    observable (invokeO p (wrapO p c) a d) = observable (invokeO p c a d) := by
  cases c with
  | none => simp [wrapO, invokeO]
  | some c => simp only [wrapO, invokeO]; exact observable_wrap p c a d
end

mutual
theorem erase_wrap (p : Nat) (c : C) : erase p (wrap p c) = erase p c := by
  cases c with
  | fn id k => simp [wrap, erase]
  | obj id f => simp [wrap, erase]
  | wrapper q inner =>
    simp only [wrap]
    by_cases h : q = p
    · simp [h]
    · simp [h, erase]
  | classm c => simp only [wrap, erase, erase_wrap p c]
  | staticm c => simp only [wrap, erase, erase_wrap p c]
  | bound c s => simp only [wrap, erase, erase_wrap p c]
  | partial_ c l => simp only [wrap, erase, erase_wrap p c]
  | partialm c l => simp only [wrap, erase, erase_wrap p c]
  | prop g s dl doc name => simp only [wrap, erase, eraseO_wrap p g, eraseO_wrap p s, eraseO_wrap p dl]
  | cached c at_ => simp only [wrap, erase, erase_wrap p c]
theorem eraseO_wrap (p : Nat) (c : OC) : eraseO p (wrapO p c) = eraseO p c := by
  cases c with
  | none => rfl
  | some c => simp only [wrapO, eraseO, erase_wrap p c]
end

mutual
theorem wrap_wrap (p : Nat) (c : C) : wrap p (wrap p c) = wrap p c := by
  cases c with
  | fn id k => simp [wrap]
  | obj id f => simp [wrap]
  | wrapper q inner =>
    by_cases h : q = p
    · simp [wrap, h]
    · simp [wrap, h]
  | classm c => simp only [wrap, wrap_wrap p c]
  | staticm c => simp only [wrap, wrap_wrap p c]
  | bound c s => simp only [wrap, wrap_wrap p c]
  | partial_ c l => simp only [wrap, wrap_wrap p c]
  | partialm c l => simp only [wrap, wrap_wrap p c]
  | prop g s dl doc name => simp only [wrap, wrapO_wrapO p g, wrapO_wrapO p s, wrapO_wrapO p dl]
  | cached c at_ => simp only [wrap, wrap_wrap p c]
theorem wrapO_wrapO (p : Nat) (c : OC) : wrapO p (wrapO p c) = wrapO p c := by
  cases c with
  | none => rfl
  | some c => simp only [wrapO, wrap_wrap p c]
end

/-- every run event happens with at least `lo` brackets of `p` open (errors carry no code) -/
def DepthGE (lo : Nat) (evs : List Ev) : Prop := ∀ ev ∈ evs, ∀ f args dep, ev = .run f args dep → lo ≤ dep
def DepthEQ (n : Nat) (evs : List Ev) : Prop := ∀ ev ∈ evs, ∀ f args dep, ev = .run f args dep → dep = n

mutual
theorem invoke_depth_ge (p : Nat) (c : C) (a : Access) (d : Nat) : DepthGE d (invoke p c a d) := by
  cases c with
  | fn id k => cases a <;> simp [invoke, DepthGE]
  | obj id f => cases a <;> simp [invoke, DepthGE]
  | wrapper q inner =>
    cases a with
    | call args =>
      simp only [invoke]
      intro ev hev f args' dep hrun
      have := invoke_depth_ge p inner (.call args) (if q = p then d + 1 else d) ev hev f args' dep hrun
      split at this <;> omega
    | get i => simp [invoke, DepthGE]
    | set i v => simp [invoke, DepthGE]
    | del i => simp [invoke, DepthGE]
  | classm c => cases a <;> simp only [invoke] <;> first | exact invoke_depth_ge p c _ _ | simp [DepthGE]
  | staticm c => cases a <;> simp only [invoke] <;> first | exact invoke_depth_ge p c _ _ | simp [DepthGE]
  | bound c s => cases a <;> simp only [invoke] <;> first | exact invoke_depth_ge p c _ _ | simp [DepthGE]
  | partial_ c l => cases a <;> simp only [invoke] <;> first | exact invoke_depth_ge p c _ _ | simp [DepthGE]
  | partialm c l =>
    cases a with
    | call args =>
      cases args with
      | nil => simp [invoke, DepthGE]
      | cons s r => simp only [invoke]; exact invoke_depth_ge p c _ _
    | get i => simp [invoke, DepthGE]
    | set i v => simp [invoke, DepthGE]
    | del i => simp [invoke, DepthGE]
  | prop g s dl doc name =>
    cases a <;> simp only [invoke] <;> first | exact invokeO_depth_ge p _ _ _ | simp [DepthGE]
  | cached c at_ => cases a <;> simp only [invoke] <;> first | exact invoke_depth_ge p c _ _ | simp [DepthGE]
theorem invokeO_depth_ge (p : Nat) (c : OC) (a : Access) (d : Nat) : DepthGE d (invokeO p c a d) := by
  cases c with
  | none => simp [invokeO, DepthGE]
  | some c => simp only [invokeO]; exact invoke_depth_ge p c a d
end

mutual
/-- after wrapping, every underlying function runs inside at least one more bracket of `p` -/
theorem wrap_covered (p : Nat) (c : C) (a : Access) (d : Nat) : DepthGE (d + 1) (invoke p (wrap p c) a d) := by
  cases c with
  | fn id k => cases a <;> simp [wrap, invoke, DepthGE]
  | obj id f => cases a <;> simp [wrap, invoke, DepthGE]
  | wrapper q inner =>
    simp only [wrap]
    by_cases h : q = p
    · simp only [h, if_true]
      cases a with
      | call args =>
        simp only [invoke, if_true]
        exact invoke_depth_ge p inner _ _
      | get i => simp [invoke, DepthGE]
      | set i v => simp [invoke, DepthGE]
      | del i => simp [invoke, DepthGE]
    · simp only [h, if_false]
      cases a with
      | call args =>
        simp only [invoke, if_true, h, if_false]
        exact invoke_depth_ge p inner _ _
      | get i => simp [invoke, DepthGE]
      | set i v => simp [invoke, DepthGE]
      | del i => simp [invoke, DepthGE]
  | classm c => cases a <;> simp only [wrap, invoke] <;> first | exact wrap_covered p c _ _ | simp [DepthGE]
  | staticm c => cases a <;> simp only [wrap, invoke] <;> first | exact wrap_covered p c _ _ | simp [DepthGE]
  | bound c s => cases a <;> simp only [wrap, invoke] <;> first | exact wrap_covered p c _ _ | simp [DepthGE]
  | partial_ c l => cases a <;> simp only [wrap, invoke] <;> first | exact wrap_covered p c _ _ | simp [DepthGE]
  | partialm c l =>
    cases a with
    | call args =>
      cases args with
      | nil => simp [wrap, invoke, DepthGE]
      | cons s r => simp only [wrap, invoke]; exact wrap_covered p c _ _
    | get i => simp [wrap, invoke, DepthGE]
    | set i v => simp [wrap, invoke, DepthGE]
    | del i => simp [wrap, invoke, DepthGE]
  | prop g s dl doc name =>
    cases a <;> simp only [wrap, invoke] <;> first | exact wrapO_covered p _ _ _ | simp [DepthGE]
  | cached c at_ => cases a <;> simp only [wrap, invoke] <;> first | exact wrap_covered p c _ _ | simp [DepthGE]
theorem wrapO_covered (p : Nat) (c : OC) (a : Access) (d : Nat) : DepthGE (d + 1) (invokeO p (wrapO p c) a d) := by
  cases c with
  | none => simp [wrapO, invokeO, DepthGE]
  | some c => simp only [wrapO, invokeO]; exact wrap_covered p c a d
end

mutual
/-- an object without wrappers of `p` runs its functions at the depth it is entered with -/
theorem raw_depth_eq (p : Nat) (c : C) (a : Access) (d : Nat) (h : raw p c = true) : DepthEQ d (invoke p c a d) := by
  cases c with
  | fn id k => cases a <;> simp [invoke, DepthEQ]
  | obj id f => cases a <;> simp [invoke, DepthEQ]
  | wrapper q inner =>
    simp only [raw, Bool.and_eq_true, decide_eq_true_eq] at h
    cases a with
    | call args =>
      simp only [invoke, h.1, if_false]
      exact raw_depth_eq p inner _ _ h.2
    | get i => simp [invoke, DepthEQ]
    | set i v => simp [invoke, DepthEQ]
    | del i => simp [invoke, DepthEQ]
  | classm c => simp only [raw] at h; cases a <;> simp only [invoke] <;> first | exact raw_depth_eq p c _ _ h | simp [DepthEQ]
  | staticm c => simp only [raw] at h; cases a <;> simp only [invoke] <;> first | exact raw_depth_eq p c _ _ h | simp [DepthEQ]
  | bound c s => simp only [raw] at h; cases a <;> simp only [invoke] <;> first | exact raw_depth_eq p c _ _ h | simp [DepthEQ]
  | partial_ c l => simp only [raw] at h; cases a <;> simp only [invoke] <;> first | exact raw_depth_eq p c _ _ h | simp [DepthEQ]
  | partialm c l =>
    simp only [raw] at h
    cases a with
    | call args =>
      cases args with
      | nil => simp [invoke, DepthEQ]
      | cons s r => simp only [invoke]; exact raw_depth_eq p c _ _ h
    | get i => simp [invoke, DepthEQ]
    | set i v => simp [invoke, DepthEQ]
    | del i => simp [invoke, DepthEQ]
  | prop g s dl doc name =>
    simp only [raw, Bool.and_eq_true] at h
    cases a <;> simp only [invoke] <;>
      first | exact rawO_depth_eq p _ _ _ h.1.1 | exact rawO_depth_eq p _ _ _ h.1.2 | exact rawO_depth_eq p _ _ _ h.2 | simp [DepthEQ]
  | cached c at_ => simp only [raw] at h; cases a <;> simp only [invoke] <;> first | exact raw_depth_eq p c _ _ h | simp [DepthEQ]
theorem rawO_depth_eq (p : Nat) (c : OC) (a : Access) (d : Nat) (h : rawO p c = true) : DepthEQ d (invokeO p c a d) := by
  cases c with
  | none => simp [invokeO, DepthEQ]
  | some c => simp only [invokeO]; exact raw_depth_eq p c a d (by simpa [rawO] using h)
end

mutual
/-- wrapping an object that has no wrapper of `p` yet puts every underlying function under exactly one bracket -/
theorem wrap_once (p : Nat) (c : C) (a : Access) (d : Nat) (h : raw p c = true) :
    DepthEQ (d + 1) (invoke p (wrap p c) a d) := by
  cases c with
  | fn id k => cases a <;> simp [wrap, invoke, DepthEQ]
  | obj id f => cases a <;> simp [wrap, invoke, DepthEQ]
  | wrapper q inner =>
    simp only [raw, Bool.and_eq_true, decide_eq_true_eq] at h
    simp only [wrap, h.1, if_false]
    cases a with
    | call args =>
      simp only [invoke, if_true, h.1, if_false]
      exact raw_depth_eq p inner _ _ h.2
    | get i => simp [invoke, DepthEQ]
    | set i v => simp [invoke, DepthEQ]
    | del i => simp [invoke, DepthEQ]
  | classm c => simp only [raw] at h; cases a <;> simp only [wrap, invoke] <;> first | exact wrap_once p c _ _ h | simp [DepthEQ]
  | staticm c => simp only [raw] at h; cases a <;> simp only [wrap, invoke] <;> first | exact wrap_once p c _ _ h | simp [DepthEQ]
  | bound c s => simp only [raw] at h; cases a <;> simp only [wrap, invoke] <;> first | exact wrap_once p c _ _ h | simp [DepthEQ]
  | partial_ c l => simp only [raw] at h; cases a <;> simp only [wrap, invoke] <;> first | exact wrap_once p c _ _ h | simp [DepthEQ]
  | partialm c l =>
    simp only [raw] at h
    cases a with
    | call args =>
      cases args with
      | nil => simp [wrap, invoke, DepthEQ]
      | cons s r => simp only [wrap, invoke]; exact wrap_once p c _ _ h
    | get i => simp [wrap, invoke, DepthEQ]
    | set i v => simp [wrap, invoke, DepthEQ]
    | del i => simp [wrap, invoke, DepthEQ]
  | prop g s dl doc name =>
    simp only [raw, Bool.and_eq_true] at h
    cases a <;> simp only [wrap, invoke] <;>
      first | exact wrapO_once p _ _ _ h.1.1 | exact wrapO_once p _ _ _ h.1.2 | exact wrapO_once p _ _ _ h.2 | simp [DepthEQ]
  | cached c at_ => simp only [raw] at h; cases a <;> simp only [wrap, invoke] <;> first | exact wrap_once p c _ _ h | simp [DepthEQ]
theorem wrapO_once (p : Nat) (c : OC) (a : Access) (d : Nat) (h : rawO p c = true) :
    DepthEQ (d + 1) (invokeO p (wrapO p c) a d) := by
  cases c with
  | none => simp [wrapO, invokeO, DepthEQ]
  | some c => simp only [wrapO, invokeO]; exact wrap_once p c a d (by simpa [rawO] using h)
end

mutual
theorem underlying_plain (c : C) (h : plainTower c = true) : underlying c = leaves c := by
  cases c with
  | fn id k => rfl
  | obj id f => rfl
  | wrapper q inner => simp [plainTower] at h
  | classm c => simp only [plainTower] at h; simp only [underlying, leaves, underlying_plain c h]
  | staticm c => simp only [plainTower] at h; simp only [underlying, leaves, underlying_plain c h]
  | bound c s => simp only [plainTower] at h; simp only [underlying, leaves, underlying_plain c h]
  | partial_ c l => simp only [plainTower] at h; simp only [underlying, leaves, underlying_plain c h]
  | partialm c l => simp only [plainTower] at h; simp only [underlying, leaves, underlying_plain c h]
  | prop g s dl doc name =>
    simp only [plainTower, Bool.and_eq_true] at h
    simp only [underlying, leaves, underlyingO_plain g h.1.1, underlyingO_plain s h.1.2, underlyingO_plain dl h.2]
  | cached c at_ => simp only [plainTower] at h; simp only [underlying, leaves, underlying_plain c h]
theorem underlyingO_plain (c : OC) (h : plainTowerO c = true) : underlyingO c = leavesO c := by
  cases c with
  | none => rfl
  | some c => simp only [underlyingO, leavesO]; exact underlying_plain c (by simpa [plainTowerO] using h)
end

mutual
theorem leaves_not_wrapper (p : Nat) (c : C) : ∀ f ∈ leaves c, isWrapperOf p f = false := by
  cases c with
  | fn id k => simp [leaves, isWrapperOf]
  | obj id f => simp [leaves, isWrapperOf]
  | wrapper q inner => simp only [leaves]; exact leaves_not_wrapper p inner
  | classm c => simp only [leaves]; exact leaves_not_wrapper p c
  | staticm c => simp only [leaves]; exact leaves_not_wrapper p c
  | bound c s => simp only [leaves]; exact leaves_not_wrapper p c
  | partial_ c l => simp only [leaves]; exact leaves_not_wrapper p c
  | partialm c l => simp only [leaves]; exact leaves_not_wrapper p c
  | prop g s dl doc name =>
    simp only [leaves, List.mem_append]
    intro f hf
    rcases hf with (hf | hf) | hf
    · exact leavesO_not_wrapper p g f hf
    · exact leavesO_not_wrapper p s f hf
    · exact leavesO_not_wrapper p dl f hf
  | cached c at_ => simp only [leaves]; exact leaves_not_wrapper p c
theorem leavesO_not_wrapper (p : Nat) (c : OC) : ∀ f ∈ leavesO c, isWrapperOf p f = false := by
  cases c with
  | none => simp [leavesO]
  | some c => simp only [leavesO]; exact leaves_not_wrapper p c
end

mutual
theorem underlying_wrap_wrappers (p : Nat) (c : C) : ∀ f ∈ underlying (wrap p c), isWrapperOf p f = true := by
  cases c with
  | fn id k => simp [wrap, underlying, isWrapperOf]
  | obj id f => simp [wrap, underlying, isWrapperOf]
  | wrapper q inner =>
    by_cases h : q = p
    · simp [wrap, h, underlying, isWrapperOf]
    · simp [wrap, h, underlying, isWrapperOf]
  | classm c => simp only [wrap, underlying]; exact underlying_wrap_wrappers p c
  | staticm c => simp only [wrap, underlying]; exact underlying_wrap_wrappers p c
  | bound c s => simp only [wrap, underlying]; exact underlying_wrap_wrappers p c
  | partial_ c l => simp only [wrap, underlying]; exact underlying_wrap_wrappers p c
  | partialm c l => simp only [wrap, underlying]; exact underlying_wrap_wrappers p c
  | prop g s dl doc name =>
    simp only [wrap, underlying, List.mem_append]
    intro f hf
    rcases hf with (hf | hf) | hf
    · exact underlyingO_wrap_wrappers p g f hf
    · exact underlyingO_wrap_wrappers p s f hf
    · exact underlyingO_wrap_wrappers p dl f hf
  | cached c at_ => simp only [wrap, underlying]; exact underlying_wrap_wrappers p c
theorem underlyingO_wrap_wrappers (p : Nat) (c : OC) : ∀ f ∈ underlyingO (wrapO p c), isWrapperOf p f = true := by
  cases c with
  | none => simp [wrapO, underlyingO]
  | some c => simp only [wrapO, underlyingO]; exact underlying_wrap_wrappers p c
end

end LPVerif.Callable
