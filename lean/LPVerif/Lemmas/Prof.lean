import LPVerif.Model.Prof
import LPVerif.Lemmas.CoreExec
/-! Lemmas about `get_stats` (`Model.Prof`): entries are sorted, unique per line, have at least one hit; reported hits never
    decrease under any operation. -/
namespace LPVerif.Prof
open LPVerif.Core

/-! ## padding (repair of F-C04b): the padded bytecode is new -/

theorem findFree_ge (taken : List Blk) (base : Nat) (fuel p : Nat) : p ≤ findFree taken base p fuel := by
  induction fuel generalizing p with
  | zero => exact Nat.le_refl _
  | succ k ih =>
    unfold findFree
    split
    · exact Nat.le_trans (Nat.le_succ p) (ih (p + 1))
    · exact Nat.le_refl _

theorem le_maxPad (taken : List Blk) (b : Blk) (h : b ∈ taken) : b.pad ≤ maxPad taken := by
  induction taken with
  | nil => cases h
  | cons a r ih =>
    unfold maxPad
    cases h with
    | head => exact Nat.le_max_left _ _
    | tail _ h' => exact Nat.le_trans (ih h') (Nat.le_max_right _ _)

/-- with enough fuel the loop ends on a bytecode that is not registered -/
theorem findFree_fresh (taken : List Blk) (base : Nat) (fuel p : Nat) (hf : maxPad taken < p + fuel) :
    (⟨base, findFree taken base p fuel⟩ : Blk) ∉ taken := by
  induction fuel generalizing p with
  | zero =>
    intro h
    have := le_maxPad taken _ h
    simp only [findFree] at this
    omega
  | succ k ih =>
    unfold findFree
    split
    · exact ih (p + 1) (by omega)
    · assumption

/-- **a duplicate's padded bytecode differs from every registered bytecode** -/
theorem padStep_fresh (dupes : List (Blk × Nat)) (codes : List Code) (code : Code)
    (h : (alookup code.blk dupes).isSome = true ∨ clashes codes code = true) : (padStep dupes codes code).1.blk ∉ codes.map (·.blk) := by
  unfold padStep
  cases hd : alookup code.blk dupes with
  | some n => exact findFree_fresh _ _ _ _ (by omega)
  | none =>
    rcases h with h | h
    · rw [hd] at h; cases h
    · simp only [h, if_true]
      exact findFree_fresh _ _ _ _ (by omega)

/-! ## the entries of one label -/

theorem insertSorted_perm (x : Int × Nat × Int) (l : List (Int × Nat × Int)) : (insertSorted x l).Perm (x :: l) := by
  induction l with
  | nil => exact List.Perm.refl _
  | cons y r ih =>
    unfold insertSorted
    split
    · exact List.Perm.refl _
    · exact (List.Perm.cons y ih).trans (List.Perm.swap x y r)

theorem sortEntries_perm (l : List (Int × Nat × Int)) : (sortEntries l).Perm l := by
  induction l with
  | nil => exact List.Perm.refl _
  | cons x r ih =>
    simp only [sortEntries, List.foldr_cons]
    exact (insertSorted_perm x _).trans (List.Perm.cons x ih)

theorem insertSorted_sorted (x : Int × Nat × Int) (l : List (Int × Nat × Int)) (h : l.Pairwise (fun a b => a.1 ≤ b.1)) :
    (insertSorted x l).Pairwise (fun a b => a.1 ≤ b.1) := by
  induction l with
  | nil => simp [insertSorted]
  | cons y r ih =>
    have hy := List.pairwise_cons.mp h
    unfold insertSorted
    by_cases hle : x.1 ≤ y.1
    · simp only [hle, if_true]
      refine List.pairwise_cons.mpr ⟨?_, h⟩
      intro z hz
      cases hz with
      | head => exact hle
      | tail _ h' => exact Int.le_trans hle (hy.1 z h')
    · simp only [hle, if_false]
      refine List.pairwise_cons.mpr ⟨?_, ih hy.2⟩
      intro z hz
      have hz' := (insertSorted_perm x r).subset hz
      cases hz' with
      | head => omega
      | tail _ h' => exact hy.1 z h'

theorem sortEntries_sorted (l : List (Int × Nat × Int)) : (sortEntries l).Pairwise (fun a b => a.1 ≤ b.1) := by
  induction l with
  | nil => exact List.Pairwise.nil
  | cons x r ih => simp only [sortEntries, List.foldr_cons]; exact insertSorted_sorted x _ ih

/-- the unsorted entries of a label: one per candidate line with at least one hit -/
def rawEntries (core : Core.St) (cs : List (Code × List (Blk × Int))) (cand : List Int) : List (Int × Nat × Int) :=
  cand.filterMap fun l =>
    let n := sumHits core cs l
    if n > 0 then some (l, n, sumTime core cs l) else none

theorem rawEntries_lines (core : Core.St) (cs : List (Code × List (Blk × Int))) (cand : List Int) :
    (rawEntries core cs cand).map (·.1) = cand.filter (fun l => sumHits core cs l > 0) := by
  induction cand with
  | nil => rfl
  | cons l r ih =>
    simp only [rawEntries, List.filterMap_cons, List.filter_cons] at ih ⊢
    by_cases h : sumHits core cs l > 0
    · simp [h, ih]
    · simp [h, ih]

theorem rawEntries_pos (core : Core.St) (cs : List (Code × List (Blk × Int))) (cand : List Int) :
    ∀ e ∈ rawEntries core cs cand, e.2.1 ≥ 1 ∧ e.2.1 = sumHits core cs e.1 ∧ e.2.2 = sumTime core cs e.1 := by
  intro e he
  simp only [rawEntries, List.mem_filterMap] at he
  obtain ⟨l, _, hl⟩ := he
  by_cases h : sumHits core cs l > 0
  · simp only [h, if_true, Option.some.injEq] at hl
    subst hl
    exact ⟨h, rfl, rfl⟩
  · simp [h] at hl

theorem labelEntries_eq (core : Core.St) (chm : List (Code × List (Blk × Int))) (lab : Nat) :
    labelEntries core chm lab =
      sortEntries (rawEntries core (chm.filter (fun p => p.1.label = lab))
        ((chm.filter (fun p => p.1.label = lab)).flatMap fun p => candLines core.regs p.1.blk).eraseDups) := rfl

/-! ## reported hits never decrease -/

/-- hits reported for line `l` under label `lab` -/
def reportedHits (s : St) (lab : Nat) (l : Int) : Nat :=
  sumHits s.core.abs (s.chm.filter (fun p => p.1.label = lab)) l

theorem closed_mono_state (s s' : Core.St) (lines : List Int) (b : Blk) (l : Int)
    (h : ∀ c, s.hits b c l ≤ s'.hits b c l) : closed s lines b l ≤ closed s' lines b l := by
  unfold closed
  induction lines with
  | nil => exact Nat.le_refl _
  | cons a r ih => simp only [List.map_cons, List.sum_cons]; have := h a; omega

theorem sumHits_mono_state (s s' : Core.St) (cs : List (Code × List (Blk × Int))) (l : Int)
    (h : ∀ b c, s.hits b c l ≤ s'.hits b c l) : sumHits s cs l ≤ sumHits s' cs l := by
  unfold sumHits
  induction cs with
  | nil => exact Nat.le_refl _
  | cons p r ih =>
    simp only [List.map_cons, List.sum_cons]
    have := closed_mono_state s s' (p.2.map Prod.snd) p.1.blk l (fun c => h p.1.blk c)
    omega

theorem ecb_hits_mono (s : ESt) (e : Ev) (b : Blk) (c o : Int) : s.abs.hits b c o ≤ (ecb s e).abs.hits b c o := by
  rw [abs_ecb]
  unfold cb
  split
  · simp only [setLast_hits]
    unfold Core.St.closePending Core.St.bump
    split
    · simp only; split <;> omega
    · exact Nat.le_refl _
  · exact Nat.le_refl _


theorem ecb_regs (s : ESt) (e : Ev) : (ecb s e).abs.regs = s.abs.regs := by
  rw [abs_ecb]; unfold cb; split
  · unfold Core.St.setLast Core.St.closePending Core.St.bump; split <;> rfl
  · rfl

/-! ### `aappend` only extends -/

theorem closed_append (s : Core.St) (a b : List Int) (blk : Blk) (l : Int) :
    closed s (a ++ b) blk l = closed s a blk l + closed s b blk l := by
  simp [closed, List.map_append, List.sum_append]

theorem sumHits_cons (core : Core.St) (p : Code × List (Blk × Int)) (r) (l : Int) :
    sumHits core (p :: r) l = closed core (p.2.map Prod.snd) p.1.blk l + sumHits core r l := by
  simp [sumHits]

/-- registering one more key never lowers what a label reports -/
theorem sumHits_aappend (core : Core.St) (P : Code → Bool) (code : Code) (key : Blk × Int)
    (chm : List (Code × List (Blk × Int))) (l : Int) :
    sumHits core (chm.filter (fun p => P p.1)) l ≤ sumHits core ((aappend code key chm).filter (fun p => P p.1)) l := by
  induction chm with
  | nil =>
    simp only [aappend, List.filter_nil]
    unfold sumHits; simp
  | cons q r ih =>
    obtain ⟨k', v'⟩ := q
    unfold aappend
    by_cases hk : k' = code
    · subst hk
      simp only [if_true, List.filter_cons]
      by_cases hp : P k'
      · simp only [hp, if_true, sumHits_cons, List.map_append, closed_append]
        omega
      · simp [hp]
    · simp only [hk, if_false, List.filter_cons]
      by_cases hp : P k'
      · simp only [hp, if_true, sumHits_cons]; omega
      · simpa [hp] using ih

/-- the keys of `code_hash_map` (code objects) never disappear -/
theorem aappend_keys (code : Code) (key : Blk × Int) (chm : List (Code × List (Blk × Int))) (c : Code) :
    c ∈ chm.map Prod.fst → c ∈ (aappend code key chm).map Prod.fst := by
  induction chm with
  | nil => intro h; simp at h
  | cons q r ih =>
    obtain ⟨k', v'⟩ := q
    intro h
    unfold aappend
    by_cases hk : k' = code
    · subst hk; simpa using h
    · simp only [hk, if_false, List.map_cons, List.mem_cons] at h ⊢
      rcases h with h | h
      · exact Or.inl h
      · exact Or.inr (ih h)

/-! ### one `add_function` -/

/-- what the registration loop preserves: hits are untouched, registered keys and code objects only grow,
    reported sums never decrease -/
structure Grows (a b : Core.ESt × List (Code × List (Blk × Int))) : Prop where
  hits : ∀ blk c o, a.1.abs.hits blk c o ≤ b.1.abs.hits blk c o
  regs : ∀ k, k ∈ a.1.abs.regs → k ∈ b.1.abs.regs
  keys : ∀ c, c ∈ a.2.map Prod.fst → c ∈ b.2.map Prod.fst
  sums : ∀ (P : Code → Bool) (l : Int),
    sumHits a.1.abs (a.2.filter (fun p => P p.1)) l ≤ sumHits b.1.abs (b.2.filter (fun p => P p.1)) l

theorem Grows.refl (a) : Grows a a := ⟨fun _ _ _ => Nat.le_refl _, fun _ h => h, fun _ h => h, fun _ _ => Nat.le_refl _⟩

theorem sumHits_congr_hits (s s' : Core.St) (cs : List (Code × List (Blk × Int))) (l : Int) (h : s'.hits = s.hits) :
    sumHits s' cs l = sumHits s cs l := by
  unfold sumHits closed; rw [h]

theorem Grows.trans {a b c} (h1 : Grows a b) (h2 : Grows b c) : Grows a c :=
  ⟨fun b c o => Nat.le_trans (h1.hits b c o) (h2.hits b c o), fun k h => h2.regs k (h1.regs k h), fun k h => h2.keys k (h1.keys k h),
   fun P l => Nat.le_trans (h1.sums P l) (h2.sums P l)⟩

theorem regLine_grows (code : Code) (acc : Core.ESt × List (Code × List (Blk × Int))) (l : Int) :
    Grows acc (regLine code acc l) := by
  unfold regLine
  split
  · exact Grows.refl _
  · refine ⟨?_, ?_, ?_, ?_⟩
    · intro b c o; simp only [abs_addRegs]; exact Nat.le_refl _
    · intro k hk; simp only [abs_addRegs, Core.St.addRegs]; exact List.mem_append_left _ hk
    · intro c hc; exact aappend_keys _ _ _ c hc
    · intro P l'
      have h := sumHits_aappend acc.1.abs P code (code.blk, l) acc.2 l'
      have e : sumHits (acc.1.addRegs [(code.blk, l)]).abs
          ((aappend code (code.blk, l) acc.2).filter (fun p => P p.1)) l' =
          sumHits acc.1.abs ((aappend code (code.blk, l) acc.2).filter (fun p => P p.1)) l' :=
        sumHits_congr_hits _ _ _ _ (by simp only [abs_addRegs]; rfl)
      rw [e]; exact h

theorem regLines_grows (code : Code) (ls : List Int) (acc : Core.ESt × List (Code × List (Blk × Int))) :
    Grows acc (ls.foldl (regLine code) acc) := by
  induction ls generalizing acc with
  | nil => exact Grows.refl _
  | cons l r ih => exact (regLine_grows code acc l).trans (ih _)

/-- the state pair the snapshot reads -/
def St.view (s : St) : Core.ESt × List (Code × List (Blk × Int)) := (s.core, s.chm)

theorem addCode_grows (s : St) (f : Nat) (code : Code) : Grows s.view (s.addCode f code).view := by
  unfold St.addCode St.view
  simp only
  exact regLines_grows _ _ _

theorem clearThread_grows (s : St) (t : Nat) : Grows s.view ((s.disable t).view) := by
  unfold St.disable St.view
  refine ⟨?_, ?_, fun _ h => h, ?_⟩
  · intro b c o; simp only [abs_clearThread]; exact Nat.le_refl _
  · intro k hk; simp only [abs_clearThread]; exact hk
  · intro P l
    exact Nat.le_of_eq (sumHits_congr_hits _ _ _ _ (by simp only [abs_clearThread]; rfl)).symm

theorem setCount_view (s : St) (t n : Nat) : (s.setCount t n).view = s.view := rfl

theorem enable_view (s s' : St) (t : Nat) (h : s.enable t = .ok s') : s'.view = s.view := by
  unfold St.enable at h; cases h; rfl

theorem event_grows (s : St) (e : Ev) : Grows s.view (s.event e).view := by
  unfold St.event
  split
  · refine ⟨?_, ?_, fun _ h => h, ?_⟩
    · intro b c o; exact ecb_hits_mono s.core e b c o
    · intro k hk; simpa only [St.view, ecb_regs] using hk
    · intro P l
      exact sumHits_mono_state _ _ _ _ (fun b c => ecb_hits_mono s.core e b c l)
  · exact Grows.refl _


theorem step_grows (s : St) (op : Op) : Grows s.view (s.step op).view := by
  cases op with
  | decl f code => exact Grows.refl _
  | add f =>
    simp only [St.step, St.addFunction]
    split
    · exact addCode_grows s f _
    · exact Grows.refl _
  | enableBC t =>
    simp only [St.step, St.enableByCount, St.enable]
    by_cases hc : s.count t = 0
    · simp only [hc, if_true]; exact Grows.refl _
    · simp only [hc, if_false]; exact Grows.refl _
  | disableBC t =>
    simp only [St.step, St.disableByCount]
    split
    · split
      · exact clearThread_grows _ t
      · exact Grows.refl _
    · exact Grows.refl _
  | enable t => simp only [St.step, St.enable]; exact Grows.refl _
  | disable t => exact clearThread_grows s t
  | ev e => exact event_grows s e

theorem run_grows (ops : List Op) (s : St) : Grows s.view (s.run ops).view := by
  induction ops generalizing s with
  | nil => exact Grows.refl _
  | cons op r ih => exact (step_grows s op).trans (ih _)

/-! ### membership in a snapshot -/

theorem eraseDups_nodup : ∀ (n : Nat) (l : List Int), l.length ≤ n → l.eraseDups.Nodup
  | _, [], _ => by simp
  | 0, _ :: _, h => by simp at h
  | n + 1, a :: as, h => by
    rw [List.eraseDups_cons, List.nodup_cons]
    refine ⟨?_, eraseDups_nodup n _ ?_⟩
    · intro hm
      rw [List.mem_eraseDups, List.mem_filter] at hm
      simp at hm
    · have := List.length_filter_le (fun b => !b == a) as
      simp only [List.length_cons] at h
      omega

/-- candidate lines of a label: lines of registered keys of the label's code objects -/
def cands (v : Core.ESt × List (Code × List (Blk × Int))) (lab : Nat) : List Int :=
  ((v.2.filter (fun p => p.1.label = lab)).flatMap fun p => candLines v.1.abs.regs p.1.blk).eraseDups

theorem mem_cands (v : Core.ESt × List (Code × List (Blk × Int))) (lab : Nat) (l : Int) :
    l ∈ cands v lab ↔ ∃ c ∈ v.2.map Prod.fst, c.label = lab ∧ (c.blk, l) ∈ v.1.abs.regs := by
  unfold cands candLines
  simp only [List.mem_eraseDups, List.mem_flatMap, List.mem_filter, List.mem_map, decide_eq_true_eq]
  constructor
  · rintro ⟨p, ⟨hp, hl⟩, ⟨k, ⟨hk, hb⟩, rfl⟩⟩
    refine ⟨p.1, ⟨p, hp, rfl⟩, hl, ?_⟩
    have : k = (p.1.blk, k.2) := by rw [← hb]
    rw [← this]; exact hk
  · rintro ⟨c, ⟨p, hp, rfl⟩, hl, hr⟩
    exact ⟨p, ⟨hp, hl⟩, (p.1.blk, l), ⟨hr, rfl⟩, rfl⟩

theorem cands_mono {a b} (h : Grows a b) (lab : Nat) (l : Int) : l ∈ cands a lab → l ∈ cands b lab := by
  rw [mem_cands, mem_cands]
  rintro ⟨c, hc, hl, hr⟩
  exact ⟨c, h.keys c hc, hl, h.regs _ hr⟩

/-- the snapshot of one label, as a function of the pair the snapshot reads -/
def entries (v : Core.ESt × List (Code × List (Blk × Int))) (lab : Nat) : List (Int × Nat × Int) :=
  labelEntries v.1.abs v.2 lab

theorem mem_entries (v : Core.ESt × List (Code × List (Blk × Int))) (lab : Nat) (e : Int × Nat × Int) :
    e ∈ entries v lab ↔ e.1 ∈ cands v lab ∧ e.2.1 ≥ 1 ∧
      e.2.1 = sumHits v.1.abs (v.2.filter (fun p => p.1.label = lab)) e.1 ∧
      e.2.2 = sumTime v.1.abs (v.2.filter (fun p => p.1.label = lab)) e.1 := by
  unfold entries
  rw [labelEntries_eq, (sortEntries_perm _).mem_iff]
  constructor
  · intro he
    obtain ⟨h1, h2, h3⟩ := rawEntries_pos _ _ _ e he
    refine ⟨?_, h1, h2, h3⟩
    have : e.1 ∈ (rawEntries v.1.abs (v.2.filter (fun p => p.1.label = lab)) (cands v lab)).map (·.1) :=
      List.mem_map.mpr ⟨e, he, rfl⟩
    rw [rawEntries_lines] at this
    exact (List.mem_filter.mp this).1
  · rintro ⟨hc, h1, h2, h3⟩
    simp only [rawEntries, List.mem_filterMap]
    refine ⟨e.1, hc, ?_⟩
    have hpos : sumHits v.1.abs (v.2.filter (fun p => p.1.label = lab)) e.1 > 0 := by omega
    simp only [hpos, if_true, Option.some.injEq]
    obtain ⟨l, n, t⟩ := e
    simp only at h2 h3 ⊢
    rw [← h2, ← h3]

/-- lines of a snapshot are pairwise distinct -/
theorem entries_nodup (v : Core.ESt × List (Code × List (Blk × Int))) (lab : Nat) :
    ((entries v lab).map (·.1)).Nodup := by
  unfold entries
  rw [labelEntries_eq]
  refine ((sortEntries_perm _).map _).nodup_iff.mpr ?_
  rw [rawEntries_lines]
  exact List.Nodup.sublist List.filter_sublist (eraseDups_nodup _ _ (Nat.le_refl _))

theorem entries_sorted (v : Core.ESt × List (Code × List (Blk × Int))) (lab : Nat) :
    (entries v lab).Pairwise (fun a b => a.1 ≤ b.1) := by
  unfold entries; rw [labelEntries_eq]; exact sortEntries_sorted _

/-- labels never disappear -/
theorem labels_mono {a b} (h : Grows a b) (lab : Nat) : lab ∈ labelsOf a.2 → lab ∈ labelsOf b.2 := by
  unfold labelsOf
  simp only [List.mem_eraseDups, List.mem_map]
  rintro ⟨p, hp, rfl⟩
  have := h.keys p.1 (List.mem_map.mpr ⟨p, hp, rfl⟩)
  obtain ⟨q, hq, hqe⟩ := List.mem_map.mp this
  exact ⟨q, hq, by rw [hqe]⟩

/-- **an entry of a snapshot persists, with at least as many hits, in every later snapshot** -/
theorem entry_persists {a b} (h : Grows a b) (lab : Nat) (e : Int × Nat × Int) (he : e ∈ entries a lab) :
    ∃ e' ∈ entries b lab, e'.1 = e.1 ∧ e.2.1 ≤ e'.2.1 := by
  obtain ⟨hc, h1, h2, _⟩ := (mem_entries a lab e).mp he
  have hs := h.sums (fun c => c.label = lab) e.1
  refine ⟨(e.1, sumHits b.1.abs (b.2.filter (fun p => p.1.label = lab)) e.1,
           sumTime b.1.abs (b.2.filter (fun p => p.1.label = lab)) e.1), ?_, rfl, ?_⟩
  · rw [mem_entries]
    refine ⟨cands_mono h lab e.1 hc, ?_, rfl, rfl⟩
    simp only at hs ⊢; omega
  · simp only at hs ⊢; omega

/-! ### every registered line is a line of a registered code object with that bytecode -/

/-- `(b, l)` registered ⇒ some code object in `code_hash_map` has bytecode `b` and an instruction on line `l` -/
def Spanned (v : Core.ESt × List (Code × List (Blk × Int))) : Prop :=
  ∀ k ∈ v.1.abs.regs, ∃ c ∈ v.2.map Prod.fst, c.blk = k.1 ∧ k.2 ∈ c.allLines

theorem aappend_has_key (code : Code) (key : Blk × Int) (chm : List (Code × List (Blk × Int))) :
    code ∈ (aappend code key chm).map Prod.fst := by
  induction chm with
  | nil => simp [aappend]
  | cons q r ih =>
    obtain ⟨k', v'⟩ := q
    unfold aappend
    by_cases hk : k' = code
    · subst hk; simp
    · simp only [hk, if_false, List.map_cons, List.mem_cons]; exact Or.inr ih

theorem regLine_spanned (code : Code) (acc : Core.ESt × List (Code × List (Blk × Int))) (l : Int) (hl : l ∈ code.allLines)
    (h : Spanned acc) : Spanned (regLine code acc l) := by
  unfold regLine
  split
  · exact h
  · intro k hk
    simp only [abs_addRegs, Core.St.addRegs, List.mem_append, List.mem_singleton] at hk
    rcases hk with hk | hk
    · obtain ⟨c, hc, h1, h2⟩ := h k hk
      exact ⟨c, aappend_keys _ _ _ c hc, h1, h2⟩
    · subst hk
      exact ⟨code, aappend_has_key _ _ _, rfl, hl⟩

theorem regLines_spanned (code : Code) (ls : List Int) (acc : Core.ESt × List (Code × List (Blk × Int)))
    (hl : ∀ l ∈ ls, l ∈ code.allLines) (h : Spanned acc) : Spanned (ls.foldl (regLine code) acc) := by
  induction ls generalizing acc with
  | nil => exact h
  | cons l r ih =>
    exact ih _ (fun x hx => hl x (List.mem_cons_of_mem _ hx)) (regLine_spanned code acc l (hl l (List.mem_cons_self ..)) h)

theorem step_spanned (s : St) (op : Op) (h : Spanned s.view) : Spanned (s.step op).view := by
  cases op with
  | decl f code => exact h
  | add f =>
    simp only [St.step, St.addFunction]
    split
    · unfold St.addCode St.view; simp only
      exact regLines_spanned _ _ _ (fun _ hx => hx) h
    · exact h
  | enableBC t =>
    simp only [St.step, St.enableByCount, St.enable]
    by_cases hc : s.count t = 0
    · simp only [hc, if_true]; exact h
    · simp only [hc, if_false]; exact h
  | disableBC t =>
    simp only [St.step, St.disableByCount]
    split
    · split
      · intro k hk; simp only [St.view, St.disable, abs_clearThread] at hk ⊢; exact h k hk
      · exact h
    · exact h
  | enable t => simp only [St.step, St.enable]; exact h
  | disable t => intro k hk; simp only [St.step, St.view, St.disable, abs_clearThread] at hk ⊢; exact h k hk
  | ev e =>
    simp only [St.step, St.event]
    split
    · intro k hk; simp only [St.view, ecb_regs] at hk ⊢; exact h k hk
    · exact h

theorem run_spanned (ops : List Op) (s : St) (h : Spanned s.view) : Spanned (s.run ops).view := by
  induction ops generalizing s with
  | nil => exact h
  | cons op r ih => exact ih _ (step_spanned s op h)

theorem init_spanned : Spanned St.init.view := by
  intro k hk
  simp [St.view, St.init, abs_init, Core.St.init] at hk

end LPVerif.Prof
