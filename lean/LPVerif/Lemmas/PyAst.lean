import LPVerif.Model.PyAst
/-! Lemmas about the auto-profiling rewrite: it only adds registration statements and appended decorators. -/
namespace LPVerif.PyAst

def isReg : Stmt → Bool
  | .reg _ => true
  | _ => false

theorem regsFor_all_reg (ns seen : List String) : ∀ s ∈ (regsFor ns seen).1, isReg s = true := by
  induction ns generalizing seen with
  | nil => simp [regsFor]
  | cons n r ih =>
    unfold regsFor
    split
    · exact ih seen
    · intro s hs
      simp only [List.mem_cons] at hs
      rcases hs with rfl | hs
      · rfl
      · exact ih _ s hs

theorem er_prepend (ss : List Stmt) (k : Block) (h : ∀ s ∈ ss, isReg s = true) : erBlock (prepend ss k) = erBlock k := by
  induction ss with
  | nil => rfl
  | cons s r ih =>
    have hs := h s (by simp)
    cases s <;> simp [isReg] at hs
    simp only [prepend, erBlock]
    exact ih (fun x hx => h x (by simp [hx]))

/-- the `after` component of `rwStmt` consists of registration calls only -/
theorem rwStmt_after_reg (pi : Bool) (s : Stmt) (seen : List String) : ∀ x ∈ (rwStmt pi s seen).2.1, isReg x = true := by
  cases s with
  | funcDef a n d b l => simp [rwStmt]
  | classDef n d b l => simp [rwStmt]
  | compound k bs l => simp [rwStmt]
  | simple i l => simp [rwStmt]
  | reg n => simp [rwStmt]
  | import_ names l =>
    unfold rwStmt
    cases pi
    · simp
    · simp only [if_true]; exact regsFor_all_reg _ _
  | importFrom m names lv l =>
    unfold rwStmt
    by_cases h : (pi && !isFuture m) = true
    · simp only [h, if_true]; exact regsFor_all_reg _ _
    · simp [h]

theorem not_deco_self (d : List Deco) : ¬ d = d ++ [profileDeco] := by
  intro he; have := congrArg List.length he; simp at this

theorem erBlock_cons_nonreg (s : Stmt) (r : Block) (h : isReg s = false) : erBlock (.cons s r) = .cons (erStmt s) (erBlock r) := by
  cases s <;> simp [isReg] at h <;> rfl

theorem rwStmt_isReg (pi : Bool) (s : Stmt) (seen : List String) : isReg (rwStmt pi s seen).1 = isReg s := by
  cases s with
  | funcDef a n d b l => simp [rwStmt, isReg]
  | classDef n d b l => simp [rwStmt, isReg]
  | compound k bs l => simp [rwStmt, isReg]
  | simple i l => simp [rwStmt, isReg]
  | reg n => simp [rwStmt, isReg]
  | import_ names l => unfold rwStmt; cases pi <;> simp [isReg]
  | importFrom m names lv l => unfold rwStmt; by_cases h : (pi && !isFuture m) = true <;> simp [h, isReg]

mutual
theorem undec_er_rwStmt (pi : Bool) (s : Stmt) (seen : List String) :
    undecStmt (erStmt s) (erStmt (rwStmt pi s seen).1) = erStmt s := by
  cases s with
  | funcDef a n d b l =>
    simp only [rwStmt, erStmt, undecStmt]
    rw [undec_er_rwBlock pi b seen]
    by_cases hp : profileDeco ∈ d
    · simp [hp, not_deco_self]
    · simp [hp]
  | classDef n d b l =>
    simp only [rwStmt, erStmt, undecStmt]
    rw [undec_er_rwBlock pi b seen]
  | compound k bs l =>
    simp only [rwStmt, erStmt, undecStmt]
    rw [undec_er_rwBlocks pi bs seen]
  | import_ names l => unfold rwStmt; cases pi <;> simp [erStmt, undecStmt]
  | importFrom m names lv l =>
    unfold rwStmt
    by_cases h : (pi && !isFuture m) = true <;> simp [h, erStmt, undecStmt]
  | simple i l => simp [rwStmt, erStmt, undecStmt]
  | reg n => simp [rwStmt, erStmt, undecStmt]
theorem undec_er_rwBlock (pi : Bool) (b : Block) (seen : List String) :
    undecBlock (erBlock b) (erBlock (rwBlock pi b seen).1) = erBlock b := by
  cases b with
  | nil => simp [rwBlock, erBlock, undecBlock]
  | cons s r =>
    simp only [rwBlock]
    have hafter := rwStmt_after_reg pi s seen
    have hs := undec_er_rwStmt pi s seen
    have hr := undec_er_rwBlock pi r (rwStmt pi s seen).2.2
    cases hreg : isReg s
    · -- an original statement: it stays, followed by registration calls only
      have h1 : isReg (rwStmt pi s seen).1 = false := by rw [rwStmt_isReg, hreg]
      rw [erBlock_cons_nonreg _ _ h1, erBlock_cons_nonreg _ _ hreg, er_prepend _ _ hafter]
      simp only [undecBlock]
      rw [hs, hr]
    · -- a registration call inserted by step 1: untouched, erased on both sides
      cases s <;> simp [isReg] at hreg
      simp only [rwStmt, prepend, erBlock] at hr ⊢
      exact hr
theorem undec_er_rwBlocks (pi : Bool) (bs : Blocks) (seen : List String) :
    undecBlocks (erBlocks bs) (erBlocks (rwBlocks pi bs seen).1) = erBlocks bs := by
  cases bs with
  | nil => simp [rwBlocks, erBlocks, undecBlocks]
  | cons b r =>
    simp only [rwBlocks, erBlocks, undecBlocks]
    rw [undec_er_rwBlock pi b seen, undec_er_rwBlocks pi r (rwBlock pi b seen).2]
end

mutual
theorem undecStmt_self (s : Stmt) : undecStmt s s = s := by
  cases s with
  | funcDef a n d b l => simp only [undecStmt]; rw [undecBlock_self b]; simp [not_deco_self]
  | classDef n d b l => simp only [undecStmt]; rw [undecBlock_self b]
  | compound k bs l => simp only [undecStmt]; rw [undecBlocks_self bs]
  | import_ names l => rfl
  | importFrom m names lv l => rfl
  | simple i l => rfl
  | reg n => rfl
theorem undecBlock_self (b : Block) : undecBlock b b = b := by
  cases b with
  | nil => rfl
  | cons s r => simp only [undecBlock]; rw [undecStmt_self s, undecBlock_self r]
theorem undecBlocks_self (bs : Blocks) : undecBlocks bs bs = bs := by
  cases bs with
  | nil => rfl
  | cons b r => simp only [undecBlocks]; rw [undecBlock_self b, undecBlocks_self r]
end

mutual
theorem er_clean_stmt (s : Stmt) (h : cleanStmt s) : erStmt s = s := by
  cases s with
  | funcDef a n d b l => simp only [erStmt]; rw [er_clean_block b (by simpa [cleanStmt] using h)]
  | classDef n d b l => simp only [erStmt]; rw [er_clean_block b (by simpa [cleanStmt] using h)]
  | compound k bs l => simp only [erStmt]; rw [er_clean_blocks bs (by simpa [cleanStmt] using h)]
  | import_ names l => rfl
  | importFrom m names lv l => rfl
  | simple i l => rfl
  | reg n => simp [cleanStmt] at h
theorem er_clean_block (b : Block) (h : cleanBlock b) : erBlock b = b := by
  cases b with
  | nil => rfl
  | cons s r =>
    have hs := er_clean_stmt s h.1
    have hr := er_clean_block r h.2
    cases s with
    | reg n => simp [cleanBlock, cleanStmt] at h
    | funcDef a n d b' l => simp only [erBlock]; rw [hs, hr]
    | classDef n d b' l => simp only [erBlock]; rw [hs, hr]
    | compound k bs l => simp only [erBlock]; rw [hs, hr]
    | import_ names l => simp only [erBlock]; rw [hs, hr]
    | importFrom m names lv l => simp only [erBlock]; rw [hs, hr]
    | simple i l => simp only [erBlock]; rw [hs, hr]
theorem er_clean_blocks (bs : Blocks) (h : cleanBlocks bs) : erBlocks bs = bs := by
  cases bs with
  | nil => rfl
  | cons b r => simp only [erBlocks]; rw [er_clean_block b h.1, er_clean_blocks r h.2]
end

theorem regsAt_all_reg (matched : List (Nat × String)) (i : Nat) : ∀ s ∈ regsAt matched i, isReg s = true := by
  intro s hs
  simp only [regsAt, List.mem_map] at hs
  obtain ⟨p, _, rfl⟩ := hs
  rfl

theorem er_insertMatched (matched : List (Nat × String)) : (i : Nat) → (m : Block) → cleanBlock m →
    erBlock (insertMatched matched i m) = m
  | _, .nil, _ => rfl
  | i, .cons s r, h => by
    have hs := er_clean_stmt s h.1
    have hr := er_insertMatched matched (i + 1) r h.2
    have hreg : isReg s = false := by
      cases s <;> first | rfl | (simp [cleanBlock, cleanStmt] at h)
    unfold insertMatched
    rw [erBlock_cons_nonreg _ _ hreg, hs, er_prepend _ _ (regsAt_all_reg matched i), hr]

theorem allDecorated_prepend (ss : List Stmt) (k : Block) (h : ∀ s ∈ ss, isReg s = true) (hk : allDecoratedB k) :
    allDecoratedB (prepend ss k) := by
  induction ss with
  | nil => exact hk
  | cons s r ih =>
    have hs := h s (by simp)
    cases s <;> simp [isReg] at hs
    exact ⟨trivial, ih (fun x hx => h x (by simp [hx]))⟩

mutual
theorem rwStmt_decorated (pi : Bool) (s : Stmt) (seen : List String) : allDecorated (rwStmt pi s seen).1 := by
  cases s with
  | funcDef a n d b l =>
    simp only [rwStmt, allDecorated]
    refine ⟨?_, rwBlock_decorated pi b seen⟩
    by_cases hp : profileDeco ∈ d <;> simp [hp]
  | classDef n d b l => simp only [rwStmt, allDecorated]; exact rwBlock_decorated pi b seen
  | compound k bs l => simp only [rwStmt, allDecorated]; exact rwBlocks_decorated pi bs seen
  | import_ names l => unfold rwStmt; cases pi <;> simp [allDecorated]
  | importFrom m names lv l => unfold rwStmt; by_cases h : (pi && !isFuture m) = true <;> simp [h, allDecorated]
  | simple i l => simp [rwStmt, allDecorated]
  | reg n => simp [rwStmt, allDecorated]
theorem rwBlock_decorated (pi : Bool) (b : Block) (seen : List String) : allDecoratedB (rwBlock pi b seen).1 := by
  cases b with
  | nil => simp [rwBlock, allDecoratedB]
  | cons s r =>
    simp only [rwBlock, allDecoratedB]
    exact ⟨rwStmt_decorated pi s seen,
      allDecorated_prepend _ _ (rwStmt_after_reg pi s seen) (rwBlock_decorated pi r (rwStmt pi s seen).2.2)⟩
theorem rwBlocks_decorated (pi : Bool) (bs : Blocks) (seen : List String) : allDecoratedBs (rwBlocks pi bs seen).1 := by
  cases bs with
  | nil => simp [rwBlocks, allDecoratedBs]
  | cons b r =>
    simp only [rwBlocks, allDecoratedBs]
    exact ⟨rwBlock_decorated pi b seen, rwBlocks_decorated pi r (rwBlock pi b seen).2⟩
end

mutual
theorem clean_abs_stmt (resolve : Nat → Option String → String) (s : Stmt) (h : cleanStmt s) : cleanStmt (absStmt resolve s) := by
  cases s with
  | funcDef a n d b l => simp only [absStmt, cleanStmt] at h ⊢; exact clean_abs_block resolve b h
  | classDef n d b l => simp only [absStmt, cleanStmt] at h ⊢; exact clean_abs_block resolve b h
  | compound k bs l => simp only [absStmt, cleanStmt] at h ⊢; exact clean_abs_blocks resolve bs h
  | import_ names l => simp [absStmt, cleanStmt]
  | importFrom m names lv l => unfold absStmt; split <;> simp [cleanStmt]
  | simple i l => simp [absStmt, cleanStmt]
  | reg n => simp [cleanStmt] at h
theorem clean_abs_block (resolve : Nat → Option String → String) (b : Block) (h : cleanBlock b) : cleanBlock (absBlock resolve b) := by
  cases b with
  | nil => simp [absBlock, cleanBlock]
  | cons s r => simp only [absBlock, cleanBlock]; exact ⟨clean_abs_stmt resolve s h.1, clean_abs_block resolve r h.2⟩
theorem clean_abs_blocks (resolve : Nat → Option String → String) (bs : Blocks) (h : cleanBlocks bs) : cleanBlocks (absBlocks resolve bs) := by
  cases bs with
  | nil => simp [absBlocks, cleanBlocks]
  | cons b r => simp only [absBlocks, cleanBlocks]; exact ⟨clean_abs_block resolve b h.1, clean_abs_blocks resolve r h.2⟩
end

end LPVerif.PyAst
