import LPVerif.Lemmas.Core
/-!
# Time accounting of the callback machine

`spent regs evs b l` is a *specification-level* reading of an event list: every delivered LINE event of
`(b,l)` is charged the clock value first read by the next callback invocation that touches the same
`(thread, block)` slot, minus the clock value read last by the LINE event itself.  `time_inv` proves
that this is exactly what the machine stores (`closedT`), for every event list and from every state.
-/
namespace LPVerif.Core

/-- first clock read (`r1`) of the next callback invocation that touches slot `(t,b)` -/
def nextClose (regs : List (Blk × Int)) : List Ev → Nat → Blk → Option Int
  | [], _, _ => none
  | e :: r, t, b => if e.t = t ∧ e.b = b ∧ (e.b, e.l) ∈ regs then some e.r1 else nextClose regs r t b

/-- what a pending entry with start time `st` is going to be charged by the events `evs` -/
def due (regs : List (Blk × Int)) (evs : List Ev) (t : Nat) (b : Blk) (st : Int) : Int :=
  match nextClose regs evs t b with
  | some r1 => r1 - st
  | none => 0

/-- charge of one event to line `(b,l)` given the rest of the trace -/
def spentTerm (regs : List (Blk × Int)) (e : Ev) (r : List Ev) (b : Blk) (l : Int) : Int :=
  if e.isLine ∧ e.b = b ∧ e.l = l ∧ (e.b, e.l) ∈ regs then due regs r e.t b e.r2 else 0

/-- ticks charged to line `(b,l)` by the trace `evs` (specification) -/
def spent (regs : List (Blk × Int)) : List Ev → Blk → Int → Int
  | [], _, _ => 0
  | e :: r, b, l => spentTerm regs e r b l + spent regs r b l

/-- what thread `t`'s pending slot for `b` (if it is at line `l`) will still be charged by `evs` -/
def pterm (s : St) (evs : List Ev) (b : Blk) (l : Int) (t : Nat) : Int :=
  match s.last t b with
  | some (l', st) => if l' = l then due s.regs evs t b st else 0
  | none => 0

def pendDue (s : St) (threads : List Nat) (evs : List Ev) (b : Blk) (l : Int) : Int :=
  (threads.map (pterm s evs b l)).sum

/-! ## list-sum helpers over `Int` -/

theorem sum_const_zero {α : Type} (l : List α) : (l.map (fun _ => (0 : Int))).sum = 0 := by
  induction l with
  | nil => rfl
  | cons a r ih => simp [ih]

theorem sum_bump_int (lines : List Int) (f : Int → Int) (x : Int) (d : Int) (hx : x ∈ lines) (hn : lines.Nodup) :
    (lines.map (fun c => if c = x then f c + d else f c)).sum = (lines.map f).sum + d := by
  induction lines with
  | nil => cases hx
  | cons a r ih =>
    simp only [List.nodup_cons] at hn
    simp only [List.map_cons, List.sum_cons]
    by_cases h : a = x
    · subst h
      have : (r.map (fun c => if c = a then f c + d else f c)) = r.map f := by
        apply List.map_congr_left
        intro c hc
        have : c ≠ a := fun h => hn.1 (h ▸ hc)
        simp [this]
      simp [this]; omega
    · have hx' : x ∈ r := by
        cases hx with
        | head => exact absurd rfl h
        | tail _ h' => exact h'
      have := ih hx' hn.2
      simp [h, this]; omega

/-- changing a summand at exactly one element of a duplicate-free list -/
theorem sum_update_int (ts : List Nat) (f g : Nat → Int) (t : Nat) (ht : t ∈ ts) (hn : ts.Nodup)
    (hfg : ∀ x, x ≠ t → g x = f x) :
    (ts.map g).sum + f t = (ts.map f).sum + g t := by
  induction ts with
  | nil => cases ht
  | cons a r ih =>
    simp only [List.nodup_cons] at hn
    simp only [List.map_cons, List.sum_cons]
    by_cases h : a = t
    · subst h
      have hr : r.map g = r.map f := by
        apply List.map_congr_left
        intro x hx
        exact hfg x (fun h => hn.1 (h ▸ hx))
      rw [hr]; omega
    · have ht' : t ∈ r := by
        cases ht with
        | head => exact absurd rfl h
        | tail _ h' => exact h'
      have := ih ht' hn.2
      rw [hfg a h]; omega

theorem sum_congr_int (ts : List Nat) (f g : Nat → Int) (h : ∀ x ∈ ts, g x = f x) :
    (ts.map g).sum = (ts.map f).sum := by
  congr 1; exact List.map_congr_left h

/-! ## one callback invocation -/

@[simp] theorem closedT_setLast (s : St) (t b' v) (lines : List Int) (b : Blk) (l : Int) :
    closedT (s.setLast t b' v) lines b l = closedT s lines b l := rfl

theorem closedT_closePending_other (s : St) (t : Nat) (b b' : Blk) (cur l r1 : Int) (lines : List Int)
    (hb : b' ≠ b) :
    closedT (s.closePending t b' cur r1) lines b l = closedT s lines b l := by
  unfold St.closePending
  have hb' : ¬ b = b' := fun h => hb h.symm
  split <;> simp [closedT, St.bump, hb']

/-- the amount the closing of `(t,b)`'s slot adds to line `l` when the next event reads `r1` -/
def closeAmt (s : St) (t : Nat) (b : Blk) (l : Int) (r1 : Int) : Int :=
  match s.last t b with
  | some (l', st) => if l' = l then r1 - st else 0
  | none => 0

theorem closedT_closePending_same (s : St) (t : Nat) (b : Blk) (cur l r1 : Int) (lines : List Int)
    (hc : cur ∈ lines) (hn : lines.Nodup) :
    closedT (s.closePending t b cur r1) lines b l = closedT s lines b l + closeAmt s t b l r1 := by
  unfold St.closePending closeAmt
  cases h : s.last t b with
  | none => simp
  | some p =>
    obtain ⟨old, st⟩ := p
    by_cases hol : old = l
    · subst hol
      have e1 : closedT (s.bump b cur old (r1 - st)) lines b old
          = (lines.map (fun c => if c = cur then (fun c => s.time b c old) c + (r1 - st)
                                 else (fun c => s.time b c old) c)).sum := by
        unfold closedT St.bump
        congr 1; apply List.map_congr_left; intro c _; simp
      simp only [e1, sum_bump_int lines (fun c => s.time b c old) cur (r1 - st) hc hn]
      simp [closedT]
    · have e1 : closedT (s.bump b cur old (r1 - st)) lines b l = closedT s lines b l := by
        unfold closedT St.bump
        congr 1; apply List.map_congr_left; intro c _
        have : ¬ (l = old) := fun h => hol h.symm
        simp [this]
      simp [e1, hol]

theorem nextClose_cons_skip (regs : List (Blk × Int)) (e : Ev) (r : List Ev) (t : Nat) (b : Blk)
    (h : ¬ (e.t = t ∧ e.b = b ∧ (e.b, e.l) ∈ regs)) :
    nextClose regs (e :: r) t b = nextClose regs r t b := by
  simp only [nextClose, h, if_false]

theorem nextClose_cons_hit (regs : List (Blk × Int)) (e : Ev) (r : List Ev) (t : Nat) (b : Blk)
    (h : e.t = t ∧ e.b = b ∧ (e.b, e.l) ∈ regs) :
    nextClose regs (e :: r) t b = some e.r1 := by
  unfold nextClose; rw [if_pos h]

theorem cb_last_hit (s : St) (e : Ev) (hreg : (e.b, e.l) ∈ s.regs) :
    (cb s e).last e.t e.b = (if e.isLine then some (e.l, e.r2) else none) := by
  unfold cb; rw [if_pos hreg, setLast_last, if_pos ⟨rfl, rfl⟩]

theorem cb_last_other (s : St) (e : Ev) (t' : Nat) (b' : Blk) (h : ¬ (t' = e.t ∧ b' = e.b)) :
    (cb s e).last t' b' = s.last t' b' := by
  unfold cb
  split
  · rw [setLast_last, if_neg h, closePending_last]
  · rfl

theorem cb_closedT_same (s : St) (e : Ev) (lines : List Int) (l : Int)
    (hreg : (e.b, e.l) ∈ s.regs) (hc : e.l ∈ lines) (hn : lines.Nodup) :
    closedT (cb s e) lines e.b l = closedT s lines e.b l + closeAmt s e.t e.b l e.r1 := by
  unfold cb; rw [if_pos hreg, closedT_setLast, closedT_closePending_same s e.t e.b e.l l e.r1 lines hc hn]

theorem cb_closedT_other (s : St) (e : Ev) (lines : List Int) (b : Blk) (l : Int) (hb : e.b ≠ b) :
    closedT (cb s e) lines b l = closedT s lines b l := by
  unfold cb
  split
  · rw [closedT_setLast, closedT_closePending_other s e.t b e.b e.l l e.r1 lines hb]
  · rfl

theorem step_time (s : St) (e : Ev) (r : List Ev) (lines : List Int) (threads : List Nat) (b : Blk) (l : Int)
    (hl : ∀ c, (b, c) ∈ s.regs → c ∈ lines) (hln : lines.Nodup)
    (ht : e.t ∈ threads) (htn : threads.Nodup) :
    closedT (cb s e) lines b l + pendDue (cb s e) threads r b l
      = closedT s lines b l + pendDue s threads (e :: r) b l + spentTerm s.regs e r b l := by
  by_cases hreg : (e.b, e.l) ∈ s.regs
  · by_cases hb : e.b = b
    · -- the event touches slot (e.t, b)
      subst hb
      have hel : e.l ∈ lines := hl e.l hreg
      have h1 := cb_closedT_same s e lines l hreg hel hln
      have hf : pterm s (e :: r) e.b l e.t = closeAmt s e.t e.b l e.r1 := by
        unfold pterm closeAmt due
        rw [nextClose_cons_hit s.regs e r e.t e.b ⟨rfl, rfl, hreg⟩]
      have hg : pterm (cb s e) r e.b l e.t = spentTerm s.regs e r e.b l := by
        unfold pterm spentTerm
        rw [cb_last_hit s e hreg, cb_regs]
        cases hline : e.isLine
        · simp
        · by_cases hell : e.l = l
          · subst hell; simp [hreg]
          · simp [hell]
      have hother : ∀ x, x ≠ e.t → pterm (cb s e) r e.b l x = pterm s (e :: r) e.b l x := by
        intro x hx
        unfold pterm due
        rw [cb_last_other s e x e.b (fun h => hx h.1), cb_regs,
            nextClose_cons_skip s.regs e r x e.b (fun h => hx h.1.symm)]
      have hsum := sum_update_int threads (pterm s (e :: r) e.b l) (pterm (cb s e) r e.b l) e.t ht htn hother
      rw [hf, hg] at hsum
      unfold pendDue
      omega
    · -- another block
      have hsame : ∀ x ∈ threads, pterm (cb s e) r b l x = pterm s (e :: r) b l x := by
        intro x _
        unfold pterm due
        rw [cb_last_other s e x b (fun h => hb h.2.symm), cb_regs,
            nextClose_cons_skip s.regs e r x b (fun h => hb h.2.1)]
      unfold pendDue
      rw [sum_congr_int threads _ _ hsame, cb_closedT_other s e lines b l hb]
      simp [spentTerm, hb]
  · -- the callback ignores the event
    have hcb : cb s e = s := by unfold cb; rw [if_neg hreg]
    have hsame : ∀ x ∈ threads, pterm s r b l x = pterm s (e :: r) b l x := by
      intro x _
      unfold pterm due
      rw [nextClose_cons_skip s.regs e r x b (fun h => hreg h.2.2)]
    unfold pendDue
    rw [hcb, sum_congr_int threads _ _ hsame]
    simp [spentTerm, hreg]

/-- **The time invariant**, for every event list and every start state: what is stored for `(b,l)` after the
    run = what was stored + what the slots pending at `l` were still due + the specification `spent`. -/
theorem time_inv (evs : List Ev) (s : St) (lines : List Int) (threads : List Nat) (b : Blk) (l : Int)
    (hl : ∀ c, (b, c) ∈ s.regs → c ∈ lines) (hln : lines.Nodup)
    (ht : ∀ e ∈ evs, e.t ∈ threads) (htn : threads.Nodup) :
    closedT (run s evs) lines b l
      = closedT s lines b l + pendDue s threads evs b l + spent s.regs evs b l := by
  induction evs generalizing s with
  | nil =>
    have : pendDue s threads [] b l = 0 := by
      unfold pendDue
      have : ∀ x ∈ threads, pterm s [] b l x = (fun _ => (0 : Int)) x := by
        intro x _; unfold pterm due nextClose
        cases s.last x b with
        | none => rfl
        | some p => obtain ⟨l', st⟩ := p; simp
      rw [sum_congr_int threads _ _ this]
      exact sum_const_zero threads
    simp [run, spent, this]
  | cons e r ih =>
    have hstep := step_time s e r lines threads b l hl hln (ht e (by simp)) htn
    have := ih (cb s e) (by simpa using hl) (fun e' he' => ht e' (by simp [he']))
    simp only [run, List.foldl_cons, cb_regs] at this ⊢
    rw [this]
    simp only [spent]
    omega

theorem closedT_init (regs) (lines : List Int) (b : Blk) (l : Int) : closedT (St.init regs) lines b l = 0 := by
  simp only [closedT, St.init]
  induction lines with
  | nil => rfl
  | cons a r ih => simp [ih]

theorem pendDue_none (s : St) (threads : List Nat) (evs : List Ev) (b : Blk) (l : Int)
    (h : ∀ t ∈ threads, s.last t b = none) : pendDue s threads evs b l = 0 := by
  unfold pendDue
  have : ∀ x ∈ threads, pterm s evs b l x = (fun _ => (0 : Int)) x := by
    intro x hx; unfold pterm; rw [h x hx]
  rw [sum_congr_int threads _ _ this]
  exact sum_const_zero threads

/-! ## monotone clock ⇒ non-negative, conserved -/

/-- the clock values read by successive callback invocations never decrease -/
def ClockMono (evs : List Ev) : Prop :=
  (∀ e ∈ evs, e.r1 ≤ e.r2) ∧ evs.Pairwise (fun a b => a.r2 ≤ b.r1)

theorem ClockMono.tail {e : Ev} {r : List Ev} (h : ClockMono (e :: r)) : ClockMono r :=
  ⟨fun e' he' => h.1 e' (by simp [he']), (List.pairwise_cons.mp h.2).2⟩

theorem nextClose_mem (regs : List (Blk × Int)) (r : List Ev) (t : Nat) (b : Blk) (x : Int)
    (h : nextClose regs r t b = some x) : ∃ e' ∈ r, e'.r1 = x := by
  induction r with
  | nil => simp [nextClose] at h
  | cons a r ih =>
    unfold nextClose at h
    split at h
    · exact ⟨a, by simp, by simpa using h⟩
    · obtain ⟨e', he', hx⟩ := ih h
      exact ⟨e', by simp [he'], hx⟩

theorem due_nonneg (regs : List (Blk × Int)) (e : Ev) (r : List Ev) (t : Nat) (b : Blk)
    (h : ClockMono (e :: r)) : 0 ≤ due regs r t b e.r2 := by
  unfold due
  cases hn : nextClose regs r t b with
  | none => simp
  | some x =>
    obtain ⟨e', he', hx⟩ := nextClose_mem regs r t b x hn
    have := (List.pairwise_cons.mp h.2).1 e' he'
    simp only; omega

theorem spent_nonneg (regs : List (Blk × Int)) (evs : List Ev) (b : Blk) (l : Int) (h : ClockMono evs) :
    0 ≤ spent regs evs b l := by
  induction evs with
  | nil => simp [spent]
  | cons e r ih =>
    have h1 := ih h.tail
    have h2 := due_nonneg regs e r e.t b h
    simp only [spent, spentTerm]
    split <;> omega

/-- total charge to *all* lines of block `b` -/
def spentAll (regs : List (Blk × Int)) : List Ev → Blk → Int
  | [], _ => 0
  | e :: r, b => (if e.isLine ∧ e.b = b ∧ (e.b, e.l) ∈ regs then due regs r e.t b e.r2 else 0) + spentAll regs r b

theorem sum_indicator (lines : List Int) (x : Int) (d : Int) (hx : x ∈ lines) (hn : lines.Nodup) :
    (lines.map (fun l => if x = l then d else 0)).sum = d := by
  have := sum_bump_int lines (fun _ => 0) x d hx hn
  have h0 : (lines.map (fun _ : Int => (0 : Int))).sum = 0 := sum_const_zero lines
  rw [h0] at this
  simp only [Int.zero_add] at this
  refine Eq.trans ?_ this
  congr 1; apply List.map_congr_left; intro c _
  by_cases h : c = x
  · rw [if_pos h.symm, if_pos h]
  · rw [if_neg (fun h' => h h'.symm), if_neg h]

theorem sum_add_int (lines : List Int) (f g : Int → Int) :
    (lines.map (fun l => f l + g l)).sum = (lines.map f).sum + (lines.map g).sum := by
  induction lines with
  | nil => rfl
  | cons a r ih => simp only [List.map_cons, List.sum_cons, ih]; omega

theorem sum_zero_int (lines : List Int) : (lines.map (fun _ : Int => (0 : Int))).sum = 0 :=
  sum_const_zero lines

/-- the per-line charges of a block add up to the block's total -/
theorem spent_sum (regs : List (Blk × Int)) (evs : List Ev) (b : Blk) (lines : List Int)
    (hl : ∀ c, (b, c) ∈ regs → c ∈ lines) (hln : lines.Nodup) :
    (lines.map (fun l => spent regs evs b l)).sum = spentAll regs evs b := by
  induction evs with
  | nil => simp [spent, spentAll, sum_zero_int]
  | cons e r ih =>
    simp only [spent, spentAll]
    rw [sum_add_int lines (fun l => spentTerm regs e r b l) (fun l => spent regs r b l), ih]
    congr 1
    by_cases h : e.isLine ∧ e.b = b ∧ (e.b, e.l) ∈ regs
    · have hel : e.l ∈ lines := hl e.l (h.2.1 ▸ h.2.2)
      rw [if_pos h]
      have : (lines.map (fun l => spentTerm regs e r b l))
           = lines.map (fun l => if e.l = l then due regs r e.t b e.r2 else 0) := by
        apply List.map_congr_left; intro c _
        unfold spentTerm
        by_cases hc : e.l = c
        · subst hc; rw [if_pos ⟨h.1, h.2.1, rfl, h.2.2⟩, if_pos rfl]
        · have : ¬ (e.isLine ∧ e.b = b ∧ e.l = c ∧ (e.b, e.l) ∈ regs) := fun h' => hc h'.2.2.1
          rw [if_neg this, if_neg hc]
      rw [this, sum_indicator lines e.l _ hel hln]
    · rw [if_neg h]
      have : (lines.map (fun l => spentTerm regs e r b l)) = lines.map (fun _ => (0 : Int)) := by
        apply List.map_congr_left; intro c _
        unfold spentTerm
        have : ¬ (e.isLine ∧ e.b = b ∧ e.l = c ∧ (e.b, e.l) ∈ regs) := fun h' => h ⟨h'.1, h'.2.1, h'.2.2.2⟩
        rw [if_neg this]
      rw [this, sum_zero_int]

/-- single thread, monotone clock bounded by `hi`: the block's total charge plus the time of its first
    pending close never exceeds `hi` — the charged intervals are pairwise disjoint (one slot per block) -/
theorem spentAll_bound (regs : List (Blk × Int)) (evs : List Ev) (t : Nat) (b : Blk) (hi : Int)
    (hthr : ∀ e ∈ evs, e.t = t) (hm : ClockMono evs) (hhi : ∀ e ∈ evs, e.r2 ≤ hi) :
    spentAll regs evs b + (nextClose regs evs t b).getD hi ≤ hi := by
  induction evs with
  | nil => simp [spentAll, nextClose]
  | cons e r ih =>
    have ih' := ih (fun e' he' => hthr e' (by simp [he'])) hm.tail (fun e' he' => hhi e' (by simp [he']))
    have het : e.t = t := hthr e (by simp)
    have he12 : e.r1 ≤ e.r2 := hm.1 e (by simp)
    have he2 : e.r2 ≤ hi := hhi e (by simp)
    -- the next close, if any, is not earlier than e.r2
    have hnc : e.r2 ≤ (nextClose regs r t b).getD hi := by
      cases hn : nextClose regs r t b with
      | none => simpa using he2
      | some x =>
        obtain ⟨e', he', hx⟩ := nextClose_mem regs r t b x hn
        have := (List.pairwise_cons.mp hm.2).1 e' he'
        simp only [Option.getD_some]; omega
    simp only [spentAll]
    by_cases hreg : e.b = b ∧ (e.b, e.l) ∈ regs
    · rw [nextClose_cons_hit regs e r t b ⟨het, hreg.1, hreg.2⟩]
      simp only [Option.getD_some]
      by_cases hline : e.isLine
      · rw [if_pos ⟨hline, hreg.1, hreg.2⟩, het]
        unfold due
        cases hn : nextClose regs r t b with
        | none => simp only [hn, Option.getD_none] at ih' hnc ⊢; omega
        | some x => simp only [hn, Option.getD_some] at ih' hnc ⊢; omega
      · have : ¬ (e.isLine ∧ e.b = b ∧ (e.b, e.l) ∈ regs) := fun h => hline h.1
        rw [if_neg this]; omega
    · have h1 : ¬ (e.isLine ∧ e.b = b ∧ (e.b, e.l) ∈ regs) := fun h => hreg ⟨h.2.1, h.2.2⟩
      have h2 : ¬ (e.t = t ∧ e.b = b ∧ (e.b, e.l) ∈ regs) := fun h => hreg ⟨h.2.1, h.2.2⟩
      rw [if_neg h1, nextClose_cons_skip regs e r t b h2]; omega

/-! ## per-invocation (inclusive) accounting -/

/-- `r1` of the next delivered event of frame `f` -/
def nextOfFrame (regs : List (Blk × Int)) : List Ev → Nat → Option Int
  | [], _ => none
  | e :: r, f => if e.f = f ∧ (e.b, e.l) ∈ regs then some e.r1 else nextOfFrame regs r f

/-- the per-invocation reading of the property: a line runs from its LINE event to the *same frame's* next
    event (next line, return, yield, raise) — callees included, suspension excluded -/
def inclusive (regs : List (Blk × Int)) : List Ev → Blk → Int → Int
  | [], _, _ => 0
  | e :: r, b, l =>
    (if e.isLine ∧ e.b = b ∧ e.l = l ∧ (e.b, e.l) ∈ regs then
       (match nextOfFrame regs r e.f with | some x => x - e.r2 | none => 0) else 0)
    + inclusive regs r b l

/-- no re-entrancy: after a delivered LINE event of frame φ, the next event on φ's `(thread, block)` slot is
    φ's own (no other invocation of the same bytecode runs in that thread in between) -/
def NoReentry (regs : List (Blk × Int)) : List Ev → Prop
  | [] => True
  | e :: r => (e.isLine ∧ (e.b, e.l) ∈ regs → nextClose regs r e.t e.b = nextOfFrame regs r e.f) ∧ NoReentry regs r

instance decNoReentry (regs : List (Blk × Int)) : (evs : List Ev) → Decidable (NoReentry regs evs)
  | [] => isTrue trivial
  | e :: r =>
    have : Decidable (NoReentry regs r) := decNoReentry regs r
    by unfold NoReentry; exact inferInstance

instance (evs : List Ev) : Decidable (ClockMono evs) := by unfold ClockMono; exact inferInstance

theorem spent_eq_inclusive (regs : List (Blk × Int)) (evs : List Ev) (b : Blk) (l : Int)
    (h : NoReentry regs evs) : spent regs evs b l = inclusive regs evs b l := by
  induction evs with
  | nil => rfl
  | cons e r ih =>
    simp only [spent, inclusive, spentTerm, ih h.2]
    congr 1
    by_cases hc : e.isLine ∧ e.b = b ∧ e.l = l ∧ (e.b, e.l) ∈ regs
    · rw [if_pos hc, if_pos hc]
      unfold due
      rw [← hc.2.1, h.1 ⟨hc.1, hc.2.2.2⟩]
    · rw [if_neg hc, if_neg hc]

end LPVerif.Core
