import LPVerif.Lemmas.ProfExact
/-! Ownership of the hit buckets: in every state reachable from a fresh profiler (functions declared with unpadded bytecode),
    each registered key belongs to exactly one code object of `code_hash_map`, and a code object owns all keys of its bytecode.
    Consequence: what `get_stats` sums for a label is the full bucket row of each of the label's bytecodes. -/
namespace LPVerif.Prof
open LPVerif.Core

/-! ## buckets of unregistered lines stay empty -/

def ZeroUnreg (s : Core.St) : Prop := ∀ b c o, (b, c) ∉ s.regs → s.hits b c o = 0

theorem cb_zeroUnreg (s : Core.St) (e : Ev) (h : ZeroUnreg s) : ZeroUnreg (cb s e) := by
  intro b c o hn
  unfold cb at hn ⊢
  by_cases hreg : (e.b, e.l) ∈ s.regs
  · simp only [hreg, if_true, setLast_regs, closePending_regs, setLast_hits] at hn ⊢
    unfold Core.St.closePending
    split
    · simp only [Core.St.bump]
      split
      · rename_i hcond
        obtain ⟨hb, hc, _⟩ := hcond
        subst hb; subst hc
        exact absurd hreg hn
      · exact h b c o hn
    · exact h b c o hn
  · simp only [hreg, if_false] at hn ⊢
    exact h b c o hn

theorem sum_filter_zero (f : Int → Nat) (p : Int → Bool) (B : List Int) (hz : ∀ x, p x = false → f x = 0) :
    (B.map f).sum = ((B.filter p).map f).sum := by
  induction B with
  | nil => rfl
  | cons x r ih =>
    simp only [List.map_cons, List.sum_cons, List.filter_cons]
    cases hp : p x
    · simp only [Bool.false_eq_true, if_false]; rw [hz x hp, ih]; omega
    · simp only [if_true, List.map_cons, List.sum_cons, ih]

/-- sum of `f` over a duplicate-free list that contains the duplicate-free `A`, when `f` vanishes outside `A` -/
theorem sum_superset (f : Int → Nat) (A B : List Int) (hA : A.Nodup) (hB : B.Nodup) (hsub : ∀ x ∈ A, x ∈ B)
    (hz : ∀ x, x ∉ A → f x = 0) : (B.map f).sum = (A.map f).sum := by
  rw [sum_filter_zero f (fun x => decide (x ∈ A)) B (by intro x hx; exact hz x (by simpa using hx))]
  have hperm : (B.filter (fun x => decide (x ∈ A))).Perm A := by
    rw [List.perm_ext_iff_of_nodup (hB.sublist List.filter_sublist) hA]
    intro a
    simp only [List.mem_filter, decide_eq_true_eq]
    exact ⟨fun h => h.2, fun h => ⟨hsub a h, h⟩⟩
  exact (hperm.map f).sum_nat

/-! ## `aappend` in detail -/

abbrev Chm := List (Code × List (Blk × Int))

theorem mem_aappend (code : Code) (key : Blk × Int) (chm : Chm) (p : Code × List (Blk × Int))
    (hp : p ∈ aappend code key chm) :
    p ∈ chm ∨ (p.1 = code ∧ ∃ v, (code, v) ∈ chm ∧ p.2 = v ++ [key]) ∨ (p = (code, [key]) ∧ code ∉ chm.map Prod.fst) := by
  induction chm with
  | nil =>
    simp only [aappend, List.mem_singleton] at hp
    exact Or.inr (Or.inr ⟨hp, by simp⟩)
  | cons q r ih =>
    obtain ⟨k', v'⟩ := q
    unfold aappend at hp
    by_cases hk : k' = code
    · subst hk
      simp only [if_true, List.mem_cons] at hp
      rcases hp with hp | hp
      · subst hp; exact Or.inr (Or.inl ⟨rfl, v', List.mem_cons_self .., rfl⟩)
      · exact Or.inl (List.mem_cons_of_mem _ hp)
    · simp only [hk, if_false, List.mem_cons] at hp
      rcases hp with hp | hp
      · subst hp; exact Or.inl (List.mem_cons_self ..)
      · rcases ih hp with h | ⟨h1, v, hv, h2⟩ | ⟨h1, h2⟩
        · exact Or.inl (List.mem_cons_of_mem _ h)
        · exact Or.inr (Or.inl ⟨h1, v, List.mem_cons_of_mem _ hv, h2⟩)
        · refine Or.inr (Or.inr ⟨h1, ?_⟩)
          simp only [List.map_cons, List.mem_cons, not_or]
          exact ⟨fun h => hk h.symm, h2⟩

/-- every old entry survives, possibly longer; and the new key is in an entry of `code` -/
theorem aappend_keeps (code : Code) (key : Blk × Int) (chm : Chm) (q : Code × List (Blk × Int)) (hq : q ∈ chm) :
    ∃ q' ∈ aappend code key chm, q'.1 = q.1 ∧ ∀ k ∈ q.2, k ∈ q'.2 := by
  induction chm with
  | nil => cases hq
  | cons a r ih =>
    obtain ⟨k', v'⟩ := a
    unfold aappend
    by_cases hk : k' = code
    · subst hk
      simp only [if_true]
      cases hq with
      | head => exact ⟨(k', v' ++ [key]), List.mem_cons_self .., rfl, fun k hk => List.mem_append_left _ hk⟩
      | tail _ h => exact ⟨q, List.mem_cons_of_mem _ h, rfl, fun _ h => h⟩
    · simp only [hk, if_false]
      cases hq with
      | head => exact ⟨(k', v'), List.mem_cons_self .., rfl, fun _ h => h⟩
      | tail _ h =>
        obtain ⟨q', hq', h1, h2⟩ := ih h
        exact ⟨q', List.mem_cons_of_mem _ hq', h1, h2⟩

theorem aappend_has (code : Code) (key : Blk × Int) (chm : Chm) :
    ∃ q' ∈ aappend code key chm, q'.1 = code ∧ key ∈ q'.2 := by
  induction chm with
  | nil => exact ⟨(code, [key]), by simp [aappend], rfl, by simp⟩
  | cons a r ih =>
    obtain ⟨k', v'⟩ := a
    unfold aappend
    by_cases hk : k' = code
    · subst hk
      simp only [if_true]
      exact ⟨(k', v' ++ [key]), List.mem_cons_self .., rfl, by simp⟩
    · simp only [hk, if_false]
      obtain ⟨q', hq', h1, h2⟩ := ih
      exact ⟨q', List.mem_cons_of_mem _ hq', h1, h2⟩

theorem aappend_codes (code : Code) (key : Blk × Int) (chm : Chm) :
    (aappend code key chm).map Prod.fst = if code ∈ chm.map Prod.fst then chm.map Prod.fst else chm.map Prod.fst ++ [code] := by
  induction chm with
  | nil => simp [aappend]
  | cons a r ih =>
    obtain ⟨k', v'⟩ := a
    unfold aappend
    by_cases hk : k' = code
    · subst hk; simp
    · simp only [hk, if_false, List.map_cons, ih, List.mem_cons]
      have : ¬ code = k' := fun h => hk h.symm
      by_cases hm : code ∈ r.map Prod.fst
      · simp [hm]
      · simp [hm, this]

/-! ## the ownership invariant of `(callback state, code_hash_map)` -/

structure OwnV (v : Core.ESt × Chm) : Prop where
  zero : ZeroUnreg v.1.abs
  keyBlk : ∀ p ∈ v.2, ∀ k ∈ p.2, k.1 = p.1.blk ∧ k ∈ v.1.abs.regs
  keysNodup : ∀ p ∈ v.2, p.2.Nodup
  cover : ∀ k ∈ v.1.abs.regs, ∃ p ∈ v.2, k ∈ p.2
  codesNodup : (v.2.map Prod.fst).Nodup
  blkUnique : ∀ p ∈ v.2, ∀ q ∈ v.2, p.1.blk = q.1.blk → p.1 = q.1

/-- no *other* code object with the bytecode of `code` is in the map -/
def NoOther (code : Code) (chm : Chm) : Prop := ∀ p ∈ chm, p.1.blk = code.blk → p.1 = code

theorem entry_unique {chm : Chm} (hn : (chm.map Prod.fst).Nodup) {a b : Code × List (Blk × Int)} (ha : a ∈ chm) (hb : b ∈ chm)
    (h : a.1 = b.1) : a = b := by
  induction chm with
  | nil => cases ha
  | cons x r ih =>
    simp only [List.map_cons, List.nodup_cons] at hn
    cases ha with
    | head =>
      cases hb with
      | head => rfl
      | tail _ hb' => exact absurd (List.mem_map.mpr ⟨b, hb', h.symm⟩) hn.1
    | tail _ ha' =>
      cases hb with
      | head => exact absurd (List.mem_map.mpr ⟨a, ha', h⟩) hn.1
      | tail _ hb' => exact ih hn.2 ha' hb'

theorem regLine_own (code : Code) (acc : Core.ESt × Chm) (l : Int) (h : OwnV acc) (hno : NoOther code acc.2) :
    OwnV (regLine code acc l) ∧ NoOther code (regLine code acc l).2 := by
  unfold regLine
  split
  · exact ⟨h, hno⟩
  · rename_i hnew
    have hregs : (acc.1.addRegs [(code.blk, l)]).abs.regs = acc.1.abs.regs ++ [(code.blk, l)] := rfl
    have hhits : (acc.1.addRegs [(code.blk, l)]).abs.hits = acc.1.abs.hits := rfl
    have hnew' : (code.blk, l) ∉ acc.1.abs.regs := hnew
    refine ⟨⟨?_, ?_, ?_, ?_, ?_, ?_⟩, ?_⟩
    · intro b c o hn
      rw [hhits]
      exact h.zero b c o (fun hm => hn (by rw [hregs]; exact List.mem_append_left _ hm))
    · intro p hp k hk
      simp only at hp
      rw [hregs]
      rcases mem_aappend _ _ _ p hp with hp' | ⟨h1, v, hv, h2⟩ | ⟨h1, _⟩
      · have := h.keyBlk p hp' k hk
        exact ⟨this.1, List.mem_append_left _ this.2⟩
      · rw [h2] at hk
        rcases List.mem_append.mp hk with hk | hk
        · have := h.keyBlk (code, v) hv k hk
          exact ⟨by rw [h1]; exact this.1, List.mem_append_left _ this.2⟩
        · simp only [List.mem_singleton] at hk
          subst hk
          exact ⟨by rw [h1], List.mem_append_right _ (List.mem_singleton.mpr rfl)⟩
      · subst h1
        simp only [List.mem_singleton] at hk
        subst hk
        exact ⟨rfl, List.mem_append_right _ (List.mem_singleton.mpr rfl)⟩
    · intro p hp
      simp only at hp
      rcases mem_aappend _ _ _ p hp with hp' | ⟨_, v, hv, h2⟩ | ⟨h1, _⟩
      · exact h.keysNodup p hp'
      · rw [h2]
        refine List.nodup_append.mpr ⟨h.keysNodup _ hv, by simp, ?_⟩
        intro a ha b hb
        simp only [List.mem_singleton] at hb
        subst hb
        intro heq; subst heq
        exact hnew' (h.keyBlk _ hv _ ha).2
      · subst h1; simp
    · intro k hk
      rw [hregs] at hk
      rcases List.mem_append.mp hk with hk | hk
      · obtain ⟨p, hp, hkp⟩ := h.cover k hk
        obtain ⟨q', hq', _, h2⟩ := aappend_keeps code (code.blk, l) acc.2 p hp
        exact ⟨q', hq', h2 k hkp⟩
      · simp only [List.mem_singleton] at hk
        subst hk
        obtain ⟨q', hq', _, h2⟩ := aappend_has code (code.blk, l) acc.2
        exact ⟨q', hq', h2⟩
    · simp only [aappend_codes]
      split
      · exact h.codesNodup
      · rename_i hnm
        refine List.nodup_append.mpr ⟨h.codesNodup, by simp, ?_⟩
        intro a ha b hb
        simp only [List.mem_singleton] at hb
        subst hb
        intro heq; subst heq
        exact hnm ha
    · -- blkUnique: every entry of the new map has a code of the old map, or `code`
      have hcode : ∀ p ∈ aappend code (code.blk, l) acc.2, p.1 ∈ acc.2.map Prod.fst ∨ p.1 = code := by
        intro p hp
        rcases mem_aappend _ _ _ p hp with hp' | ⟨h1, _⟩ | ⟨h1, _⟩
        · exact Or.inl (List.mem_map.mpr ⟨p, hp', rfl⟩)
        · exact Or.inr h1
        · exact Or.inr (by rw [h1])
      intro p hp q hq hb
      simp only at hp hq
      rcases hcode p hp with hp' | hp' <;> rcases hcode q hq with hq' | hq'
      · obtain ⟨p0, hp0, e0⟩ := List.mem_map.mp hp'
        obtain ⟨q0, hq0, e1⟩ := List.mem_map.mp hq'
        have := h.blkUnique p0 hp0 q0 hq0 (by rw [e0, e1]; exact hb)
        rw [e0, e1] at this; exact this
      · obtain ⟨p0, hp0, e0⟩ := List.mem_map.mp hp'
        have := hno p0 hp0 (by rw [e0, hb, hq'])
        rw [e0] at this; rw [this, hq']
      · obtain ⟨q0, hq0, e1⟩ := List.mem_map.mp hq'
        have := hno q0 hq0 (by rw [e1, ← hb, hp'])
        rw [e1] at this; rw [this, hp']
      · rw [hp', hq']
    · intro p hp hb
      simp only at hp
      rcases mem_aappend _ _ _ p hp with hp' | ⟨h1, _⟩ | ⟨h1, _⟩
      · exact hno p hp' hb
      · exact h1
      · rw [h1]

theorem regLines_own (code : Code) (ls : List Int) (acc : Core.ESt × Chm) (h : OwnV acc) (hno : NoOther code acc.2) :
    OwnV (ls.foldl (regLine code) acc) := by
  induction ls generalizing acc with
  | nil => exact h
  | cons l r ih =>
    have := regLine_own code acc l h hno
    exact ih _ this.1 this.2

/-! ## association-list facts -/

theorem alookup_aset_self {α β} [DecidableEq α] (k : α) (v : β) (l : List (α × β)) : alookup k (aset k v l) = some v := by
  induction l with
  | nil => simp [aset, alookup]
  | cons a r ih =>
    obtain ⟨k', v'⟩ := a
    unfold aset
    by_cases h : k' = k
    · simp [h, alookup]
    · simp [h, alookup, ih]

theorem alookup_aset_other {α β} [DecidableEq α] (k k2 : α) (v : β) (l : List (α × β)) (hne : k2 ≠ k) :
    alookup k2 (aset k v l) = alookup k2 l := by
  induction l with
  | nil => simp [aset, alookup, Ne.symm hne]
  | cons a r ih =>
    obtain ⟨k', v'⟩ := a
    unfold aset
    by_cases h : k' = k
    · subst h
      have : ¬ k' = k2 := fun e => hne e.symm
      simp [alookup, this]
    · by_cases h2 : k' = k2
      · subst h2; simp [h, alookup]
      · simp [h, alookup, h2, ih]

theorem alookup_aset_isSome {α β} [DecidableEq α] (k k2 : α) (v : β) (l : List (α × β)) (h : (alookup k2 l).isSome) :
    (alookup k2 (aset k v l)).isSome := by
  by_cases e : k2 = k
  · subst e; simp [alookup_aset_self]
  · rw [alookup_aset_other _ _ _ _ e]; exact h

theorem alookup_append_isSome {α β} [DecidableEq α] (k : α) (l r : List (α × β)) (h : (alookup k l).isSome) :
    (alookup k (l ++ r)).isSome := by
  induction l with
  | nil => simp [alookup] at h
  | cons a t ih =>
    obtain ⟨k', v'⟩ := a
    simp only [List.cons_append, alookup] at h ⊢
    by_cases e : k' = k
    · simp [e]
    · simp only [e, if_false] at h ⊢; exact ih h

theorem alookup_append_new {α β} [DecidableEq α] (k : α) (v : β) (l : List (α × β)) : (alookup k (l ++ [(k, v)])).isSome := by
  induction l with
  | nil => simp [alookup]
  | cons a t ih =>
    obtain ⟨k', v'⟩ := a
    simp only [List.cons_append, alookup]
    by_cases e : k' = k
    · simp [e]
    · simp only [e, if_false]; exact ih

/-! ## the fold of one `add_function` -/

theorem regLines_noop (code : Code) (ls : List Int) (acc : Core.ESt × Chm) (h : ∀ l ∈ ls, (code.blk, l) ∈ acc.1.regs) :
    ls.foldl (regLine code) acc = acc := by
  induction ls generalizing acc with
  | nil => rfl
  | cons l r ih =>
    have h1 : regLine code acc l = acc := by
      unfold regLine; simp [h l (List.mem_cons_self ..)]
    simp only [List.foldl_cons, h1]
    exact ih acc (fun x hx => h x (List.mem_cons_of_mem _ hx))

theorem regLine_regs_mono (code : Code) (acc : Core.ESt × Chm) (l : Int) (k : Blk × Int) (h : k ∈ acc.1.regs) :
    k ∈ (regLine code acc l).1.regs := by
  unfold regLine; split
  · exact h
  · exact List.mem_append_left _ h

theorem regLines_regs_mono (code : Code) (ls : List Int) (acc : Core.ESt × Chm) (k : Blk × Int) (h : k ∈ acc.1.regs) :
    k ∈ (ls.foldl (regLine code) acc).1.regs := by
  induction ls generalizing acc with
  | nil => exact h
  | cons l r ih => exact ih _ (regLine_regs_mono code acc l k h)

/-- after the loop every line of the code object is registered -/
theorem regLines_registers (code : Code) (ls : List Int) (acc : Core.ESt × Chm) :
    ∀ l ∈ ls, (code.blk, l) ∈ (ls.foldl (regLine code) acc).1.regs := by
  induction ls generalizing acc with
  | nil => intro l hl; cases hl
  | cons a r ih =>
    intro l hl
    simp only [List.foldl_cons]
    cases hl with
    | head =>
      apply regLines_regs_mono
      unfold regLine; split
      · assumption
      · exact List.mem_append_right _ (List.mem_singleton.mpr rfl)
    | tail _ h => exact ih _ l h

theorem regLine_codes (code : Code) (acc : Core.ESt × Chm) (l : Int) :
    ∀ p ∈ (regLine code acc l).2, p.1 ∈ acc.2.map Prod.fst ∨ p.1 = code := by
  intro p hp
  unfold regLine at hp
  split at hp
  · exact Or.inl (List.mem_map.mpr ⟨p, hp, rfl⟩)
  · rcases mem_aappend _ _ _ p hp with hp' | ⟨h1, _⟩ | ⟨h1, _⟩
    · exact Or.inl (List.mem_map.mpr ⟨p, hp', rfl⟩)
    · exact Or.inr h1
    · exact Or.inr (by rw [h1])

theorem regLines_codes (code : Code) (ls : List Int) (acc : Core.ESt × Chm) :
    ∀ p ∈ (ls.foldl (regLine code) acc).2, p.1 ∈ acc.2.map Prod.fst ∨ p.1 = code := by
  induction ls generalizing acc with
  | nil => intro p hp; exact Or.inl (List.mem_map.mpr ⟨p, hp, rfl⟩)
  | cons l r ih =>
    intro p hp
    rcases ih (regLine code acc l) p hp with h | h
    · obtain ⟨q, hq, e⟩ := List.mem_map.mp h
      rcases regLine_codes code acc l q hq with h' | h'
      · exact Or.inl (e ▸ h')
      · exact Or.inr (e ▸ h')
    · exact Or.inr h

/-! ## the invariant of the whole profiler object -/

structure Own (s : St) : Prop where
  ownV : OwnV s.view

theorem init_own : Own St.init := by
  refine ⟨⟨?_, ?_, ?_, ?_, ?_, ?_⟩⟩
  · intro b c o _; simp [St.view, St.init, abs_init, Core.St.init]
  · intro p hp; cases hp
  · intro p hp; cases hp
  · intro k hk; simp [St.view, St.init, abs_init, Core.St.init] at hk
  · simp [St.view, St.init]
  · intro p hp; cases hp

/-- the code object that `add_function` ends up registering has a bytecode no *other* registered code object has: a duplicate
    (known to `dupes_map`, or clashing with a registered code object) is padded to a fresh bytecode, anything else was checked
    against every registered code object — whatever bytecode the function arrived with (no assumption that it is unpadded) -/
theorem padStep_noOther (s : St) (code : Code) : NoOther (padStep s.dupes (s.chm.map (·.1)) code).1 s.chm := by
  by_cases hdup : (alookup code.blk s.dupes).isSome = true ∨ clashes (s.chm.map (·.1)) code = true
  · have hfresh := padStep_fresh s.dupes (s.chm.map (·.1)) code hdup
    intro p hp hb
    refine absurd ?_ hfresh
    rw [← hb]
    exact List.mem_map.mpr ⟨p.1, List.mem_map.mpr ⟨p, hp, rfl⟩, rfl⟩
  · have h1 : alookup code.blk s.dupes = none := by
      cases hd : alookup code.blk s.dupes with
      | none => rfl
      | some n => exact absurd (Or.inl (by rw [hd]; rfl)) hdup
    have h2 : clashes (s.chm.map (·.1)) code = false := by
      cases hc : clashes (s.chm.map (·.1)) code with
      | false => rfl
      | true => exact absurd (Or.inr hc) hdup
    have he : (padStep s.dupes (s.chm.map (·.1)) code).1 = code := by
      simp [padStep, h1, h2]
    rw [he]
    intro p hp hb
    unfold clashes at h2
    rw [List.any_eq_false] at h2
    have := h2 p.1 (List.mem_map.mpr ⟨p, hp, rfl⟩)
    simp only [Bool.and_eq_true, decide_eq_true_eq, not_and] at this
    exact Decidable.byContradiction fun hne => this hne hb

theorem addCode_own (s : St) (f : Nat) (code : Code) (h : Own s) : Own (s.addCode f code) := by
  have hno := padStep_noOther s code
  have hown := regLines_own (padStep s.dupes (s.chm.map (·.1)) code).1 (padStep s.dupes (s.chm.map (·.1)) code).1.allLines (s.core, s.chm) h.ownV hno
  exact ⟨hown⟩

theorem ownV_of_same (v v' : Core.ESt × Chm) (hz : ZeroUnreg v'.1.abs) (hr : v'.1.abs.regs = v.1.abs.regs) (hc : v'.2 = v.2)
    (h : OwnV v) : OwnV v' :=
  ⟨hz, fun p hp k hk => by rw [hc] at hp; rw [hr]; exact h.keyBlk p hp k hk, fun p hp => by rw [hc] at hp; exact h.keysNodup p hp,
   fun k hk => by rw [hr] at hk; rw [hc]; exact h.cover k hk, by rw [hc]; exact h.codesNodup,
   fun p hp q hq => by rw [hc] at hp hq; exact h.blkUnique p hp q hq⟩

theorem disable_own (s : St) (t : Nat) (h : Own s) : Own (s.disable t) := by
  refine ⟨ownV_of_same s.view _ ?_ ?_ rfl h.ownV⟩
  · intro b c o hn
    simp only [St.view, St.disable, abs_clearThread] at hn ⊢
    exact h.ownV.zero b c o hn
  · simp only [St.view, St.disable, abs_clearThread]; rfl

theorem step_own (s : St) (op : Op) (h : Own s) : Own (s.step op) := by
  cases op with
  | decl f code => exact ⟨h.ownV⟩
  | add f =>
    simp only [St.step, St.addFunction]
    cases hf : alookup f s.funcs with
    | none => exact h
    | some code => exact addCode_own s f code h
  | enableBC t =>
    simp only [St.step, St.enableByCount, St.enable]
    by_cases hc : s.count t = 0
    · simp only [hc, if_true]; exact ⟨h.ownV⟩
    · simp only [hc, if_false]; exact ⟨h.ownV⟩
  | disableBC t =>
    simp only [St.step, St.disableByCount]
    split
    · split
      · exact disable_own _ t ⟨h.ownV⟩
      · exact ⟨h.ownV⟩
    · exact h
  | enable t => simp only [St.step, St.enable]; exact ⟨h.ownV⟩
  | disable t => exact disable_own s t h
  | ev e =>
    simp only [St.step, St.event]
    split
    · refine ⟨ownV_of_same s.view _ ?_ ?_ rfl h.ownV⟩
      · simp only [St.view, abs_ecb]; exact cb_zeroUnreg _ e h.ownV.zero
      · simp only [St.view, ecb_regs]
    · exact h

/-- the ownership invariant holds after **any** history: functions may arrive with any bytecode (padded by an earlier profiler or not) -/
theorem run_own (ops : List Op) (s : St) (h : Own s) : Own (s.run ops) := by
  induction ops generalizing s with
  | nil => exact h
  | cons op r ih => exact ih (s.step op) (step_own s op h)

/-! ## what `get_stats` sums for a code object is the whole bucket row of its bytecode -/

theorem keys_lines_nodup (v : Core.ESt × Chm) (h : OwnV v) (p : Code × List (Blk × Int)) (hp : p ∈ v.2) :
    (p.2.map Prod.snd).Nodup := by
  have hk := h.keyBlk p hp
  have hn := h.keysNodup p hp
  generalize p.2 = ks at hk hn
  induction ks with
  | nil => simp
  | cons a r ih =>
    simp only [List.nodup_cons] at hn
    simp only [List.map_cons, List.nodup_cons]
    refine ⟨?_, ih (fun k hk' => hk k (List.mem_cons_of_mem _ hk')) hn.2⟩
    intro hm
    obtain ⟨b, hb, e⟩ := List.mem_map.mp hm
    have h1 := (hk a (List.mem_cons_self ..)).1
    have h2 := (hk b (List.mem_cons_of_mem _ hb)).1
    have : b = a := Prod.ext (by rw [h1, h2]) e
    exact hn.1 (this ▸ hb)

/-- for an entry of `code_hash_map`, summing its own keys' buckets is summing over *any* duplicate-free list that contains
    the registered lines of its bytecode -/
theorem entry_closed_full (v : Core.ESt × Chm) (h : OwnV v) (p : Code × List (Blk × Int)) (hp : p ∈ v.2)
    (lines : List Int) (hln : lines.Nodup) (hl : ∀ c, (p.1.blk, c) ∈ v.1.abs.regs → c ∈ lines) (l : Int) :
    closed v.1.abs (p.2.map Prod.snd) p.1.blk l = closed v.1.abs lines p.1.blk l := by
  unfold closed
  symm
  apply sum_superset (fun c => v.1.abs.hits p.1.blk c l) (p.2.map Prod.snd) lines (keys_lines_nodup v h p hp) hln
  · intro c hc
    obtain ⟨k, hk, e⟩ := List.mem_map.mp hc
    have := h.keyBlk p hp k hk
    apply hl
    have hk' : k = (p.1.blk, c) := Prod.ext this.1 e
    rw [← hk']; exact this.2
  · intro c hc
    by_cases hreg : (p.1.blk, c) ∈ v.1.abs.regs
    · exfalso
      obtain ⟨q, hq, hkq⟩ := h.cover _ hreg
      have hb := (h.keyBlk q hq _ hkq).1
      have hcode := h.blkUnique q hq p hp hb.symm
      have hqp : q = p := entry_unique h.codesNodup hq hp hcode
      subst hqp
      exact hc (List.mem_map.mpr ⟨_, hkq, rfl⟩)
    · exact h.zero _ _ _ hreg

theorem candLines_nodup (regs : List (Blk × Int)) (b : Blk) : (candLines regs b).Nodup :=
  eraseDups_nodup _ _ (Nat.le_refl _)

theorem mem_candLines (regs : List (Blk × Int)) (b : Blk) (c : Int) (h : (b, c) ∈ regs) : c ∈ candLines regs b := by
  unfold candLines
  rw [List.mem_eraseDups, List.mem_map]
  exact ⟨(b, c), List.mem_filter.mpr ⟨h, by simp⟩, rfl⟩

/-- the hits `get_stats` reports for line `l` of the code objects `cs ⊆ code_hash_map`: the full rows of their bytecodes -/
theorem sumHits_full (v : Core.ESt × Chm) (h : OwnV v) (cs : Chm) (hcs : ∀ p ∈ cs, p ∈ v.2) (l : Int) :
    sumHits v.1.abs cs l = (cs.map fun p => closed v.1.abs (candLines v.1.abs.regs p.1.blk) p.1.blk l).sum := by
  unfold sumHits
  congr 1
  apply List.map_congr_left
  intro p hp
  exact entry_closed_full v h p (hcs p hp) _ (candLines_nodup _ _) (fun c hc => mem_candLines _ _ _ hc) l

end LPVerif.Prof
