import LPVerif.Model.Timer
/-! Invariants of the `RepeatedTimer` machine, for every well-formed program and every schedule. -/
namespace LPVerif.Timer

theorem mem_allCore (c : Core) : c ∈ allCore := by
  obtain ⟨r, st, cur⟩ := c
  cases r <;> cases st <;> cases cur <;> decide

/-! ## what one instruction can do to the timer objects -/

/-- one statement: live timers + leaks afterwards ≤ live timers before + timers it creates; and a leak needs a live timer
    before or an earlier creation -/
theorem applyAct_count (c : Core) (a : Act) :
    (applyAct c a).1.cur.liveN + (applyAct c a).2.1 ≤ c.cur.liveN + a.news ∧
    ((applyAct c a).2.1 = 0 ∨ (applyAct c a).2.1 + 1 ≤ a.news + c.cur.liveN) := by
  obtain ⟨r, st, cur⟩ := c
  cases a <;> cases cur <;> simp [applyAct, TS.liveN, TS.live, Act.news]

def actsNews (l : List Act) : Nat := (l.map Act.news).sum

theorem applyActs_count (c : Core) (l : List Act) :
    (applyActs c l).1.cur.liveN + (applyActs c l).2.1 ≤ c.cur.liveN + actsNews l ∧
    ((applyActs c l).2.1 = 0 ∨ (applyActs c l).2.1 + 1 ≤ actsNews l + c.cur.liveN) := by
  induction l generalizing c with
  | nil => simp [applyActs, actsNews]
  | cons a r ih =>
    have h1 := applyAct_count c a
    have h2 := ih (applyAct c a).1
    simp only [applyActs, actsNews, List.map_cons, List.sum_cons] at h2 ⊢
    refine ⟨by omega, ?_⟩
    rcases h1.2 with h | h <;> rcases h2.2 with h' | h' <;> omega

def groupsNews (gs : List (List Cond × List Act)) : Nat := (gs.map fun g => actsNews g.2).sum

theorem applyGroup_count (c : Core) (g : List Cond × List Act) :
    (applyGroup c g).1.cur.liveN + (applyGroup c g).2.1 ≤ c.cur.liveN + actsNews g.2 ∧
    ((applyGroup c g).2.1 = 0 ∨ (applyGroup c g).2.1 + 1 ≤ actsNews g.2 + c.cur.liveN) := by
  unfold applyGroup
  split
  · exact applyActs_count c g.2
  · simp

theorem applyGroups_count (c : Core) (gs : List (List Cond × List Act)) :
    (applyGroups c gs).1.cur.liveN + (applyGroups c gs).2.1 ≤ c.cur.liveN + groupsNews gs ∧
    ((applyGroups c gs).2.1 = 0 ∨ (applyGroups c gs).2.1 + 1 ≤ groupsNews gs + c.cur.liveN) := by
  induction gs generalizing c with
  | nil => simp [applyGroups, groupsNews]
  | cons g r ih =>
    have h1 := applyGroup_count c g
    have h2 := ih (applyGroup c g).1
    simp only [applyGroups, groupsNews, List.map_cons, List.sum_cons] at h2 ⊢
    refine ⟨by omega, ?_⟩
    rcases h1.2 with h | h <;> rcases h2.2 with h' | h' <;> omega

theorem instr_news_atomic (gs) : (Instr.atomic gs).news = groupsNews gs := rfl

theorem execCore_count (c : Core) (i : Instr) :
    (execCore c i).1.cur.liveN + (execCore c i).2.1 ≤ c.cur.liveN + i.news ∧
    ((execCore c i).2.1 = 0 ∨ (execCore c i).2.1 + 1 ≤ i.news + c.cur.liveN) := by
  cases i with
  | act a => simpa [execCore, Instr.news] using applyAct_count c a
  | test conds k => simp [execCore, Instr.news]
  | atomic gs => simpa [execCore, instr_news_atomic] using applyGroups_count c gs

theorem news_drop_le (l : List Instr) (k : Nat) : news (l.drop k) ≤ news l := by
  induction l generalizing k with
  | nil => simp [news]
  | cons a r ih =>
    cases k with
    | zero => simp
    | succ k => simp only [List.drop_succ_cons]; have := ih k; simp only [news, List.map_cons, List.sum_cons] at this ⊢; omega

theorem news_cons (i : Instr) (r : List Instr) : news (i :: r) = i.news + news r := by simp [news]

/-! ## the invariant -/

def runsNews (rs : List (List Instr)) : Nat := (rs.map news).sum

/-- every instruction a thread may still execute -/
def St.pending (s : St) : List Instr := s.mainC ++ s.mainS ++ s.runs.flatten

structure Inv (s : St) : Prop where
  /-- live timer objects plus creations still to come: at most one -/
  count   : s.sh.core.cur.liveN + s.sh.leaked + news s.mainC + news s.mainS + runsNews s.runs ≤ 1
  noLeak  : s.sh.leaked = 0
  /-- once stopped, no live timer -/
  sealed  : s.sh.core.stopped = true → s.sh.core.cur.live = false
  safe    : ∀ i ∈ s.pending, i.safe = true
  /-- `stop()` has no unlocked `if`, and its sealing instruction is still ahead unless `_stopped` already holds -/
  stopPlain : ∀ i ∈ s.mainS, i.isTest = false
  willSeal  : s.sh.core.stopped = true ∨ ∃ i ∈ s.mainS, i.seals = true

theorem safe_spec (i : Instr) (h : i.safe = true) (c : Core) :
    (c.stopped = true → (execCore c i).1.stopped = true) ∧
    ((c.stopped = true → c.cur.live = false) → (execCore c i).1.stopped = true → (execCore c i).1.cur.live = false) ∧
    (c.stopped = true → (execCore c i).2.2.1 = 0) := by
  unfold Instr.safe at h
  have := List.all_eq_true.mp h c (mem_allCore c)
  simp only [Bool.and_eq_true, Bool.or_eq_true, Bool.not_eq_true', beq_iff_eq] at this
  obtain ⟨⟨h1, h2⟩, h3⟩ := this
  refine ⟨?_, ?_, ?_⟩
  · intro hs
    rcases h1 with h1 | h1
    · rw [hs] at h1; cases h1
    · exact h1
  · intro hpre hs'
    rcases h2 with h2 | h2
    · -- the precondition fails: impossible
      simp only [Bool.not_eq_false', Bool.or_eq_false_iff, Bool.not_eq_false'] at h2
      have := hpre (by simpa using h2.1)
      rw [this] at h2
      simp at h2
    · rcases h2 with h2 | h2
      · rw [hs'] at h2; cases h2
      · exact h2
  · intro hs
    rcases h3 with h3 | h3
    · rw [hs] at h3; cases h3
    · exact h3

theorem seals_spec (i : Instr) (h : i.seals = true) (c : Core) : (execCore c i).1.stopped = true ∧ i.isTest = false := by
  unfold Instr.seals at h
  simp only [Bool.and_eq_true, Bool.not_eq_true'] at h
  exact ⟨List.all_eq_true.mp h.2 c (mem_allCore c), h.1⟩

theorem execCore_skip_nontest (c : Core) (i : Instr) (h : i.isTest = false) : (execCore c i).2.2.2 = 0 := by
  cases i with
  | act a => rfl
  | test _ _ => simp [Instr.isTest] at h
  | atomic _ => rfl

theorem init_inv (P : Prog) (h : P.wf = true) : Inv (init P) := by
  unfold Prog.wf at h
  simp only [Bool.and_eq_true, decide_eq_true_eq, List.all_eq_true, List.any_eq_true, Bool.not_eq_true'] at h
  obtain ⟨⟨⟨⟨hsafe, _⟩, hn⟩, hplain⟩, hseal⟩ := h
  refine ⟨?_, rfl, ?_, ?_, ?_, ?_⟩
  · simp only [init, runsNews, List.map_nil, List.sum_nil, TS.liveN, TS.live]; simp; omega
  · intro h; cases h
  · intro i hi
    simp only [St.pending, init, List.flatten_nil, List.append_nil] at hi
    have : i ∈ P.ctor ++ P.run ++ P.stop := by
      rcases List.mem_append.mp hi with h | h
      · exact List.mem_append_left _ (List.mem_append_left _ h)
      · exact List.mem_append_right _ h
    exact (hsafe i this).1
  · intro i hi; exact hplain i hi
  · exact Or.inr hseal


/-! ## one instruction executed by some thread -/

theorem thread_step (c : Core) (leaked others : Nat) (i : Instr) (rest : List Instr)
    (hcount : c.cur.liveN + leaked + news (i :: rest) + others ≤ 1) (hleak : leaked = 0)
    (hsealed : c.stopped = true → c.cur.live = false) (hsafe : i.safe = true) :
    (execCore c i).1.cur.liveN + (leaked + (execCore c i).2.1) + news (rest.drop (execCore c i).2.2.2) + others ≤ 1 ∧
    leaked + (execCore c i).2.1 = 0 ∧
    ((execCore c i).1.stopped = true → (execCore c i).1.cur.live = false) ∧
    (c.stopped = true → (execCore c i).1.stopped = true) := by
  have hc := execCore_count c i
  have hs := safe_spec i hsafe c
  have hd := news_drop_le rest (execCore c i).2.2.2
  rw [news_cons] at hcount
  have hl : (execCore c i).2.1 = 0 := by
    rcases hc.2 with h | h
    · exact h
    · omega
  refine ⟨?_, by omega, hs.2.1 hsealed, hs.1⟩
  have := hc.1
  omega

theorem setNth_runsNews (runs : List (List Instr)) (k : Nat) (old new : List Instr) (h : runs[k]? = some old) :
    runsNews (setNth runs k new) + news old = runsNews runs + news new := by
  induction runs generalizing k with
  | nil => simp at h
  | cons a r ih =>
    cases k with
    | zero =>
      simp only [List.getElem?_cons_zero, Option.some.injEq] at h
      subst h
      simp only [setNth, runsNews, List.map_cons, List.sum_cons]; omega
    | succ k =>
      simp only [List.getElem?_cons_succ] at h
      have := ih k h
      simp only [setNth, runsNews, List.map_cons, List.sum_cons] at this ⊢; omega

theorem mem_flatten_setNth (runs : List (List Instr)) (k : Nat) (old new : List Instr) (h : runs[k]? = some old)
    (hsub : ∀ i ∈ new, i ∈ old) (i : Instr) (hi : i ∈ (setNth runs k new).flatten) : i ∈ runs.flatten := by
  induction runs generalizing k with
  | nil => simp [setNth] at hi
  | cons a r ih =>
    cases k with
    | zero =>
      simp only [List.getElem?_cons_zero, Option.some.injEq] at h
      subst h
      simp only [setNth, List.flatten_cons, List.mem_append] at hi ⊢
      rcases hi with hi | hi
      · exact Or.inl (hsub i hi)
      · exact Or.inr hi
    | succ k =>
      simp only [List.getElem?_cons_succ] at h
      simp only [setNth, List.flatten_cons, List.mem_append] at hi ⊢
      rcases hi with hi | hi
      · exact Or.inl hi
      · exact Or.inr (ih k h hi)

theorem mem_flatten_of_getElem? (runs : List (List Instr)) (k : Nat) (old : List Instr) (h : runs[k]? = some old)
    (i : Instr) (hi : i ∈ old) : i ∈ runs.flatten := by
  have := List.mem_of_getElem? h
  exact List.mem_flatten.mpr ⟨old, this, hi⟩

theorem setNth_length {α} (l : List α) (k : Nat) (x : α) : (setNth l k x).length = l.length := by
  induction l generalizing k with
  | nil => rfl
  | cons a r ih => cases k <;> simp [setNth, ih]


theorem mem_drop {α} (l : List α) (k : Nat) (x : α) (h : x ∈ l.drop k) : x ∈ l := List.mem_of_mem_drop h

structure WF (P : Prog) : Prop where
  safe : ∀ i ∈ P.ctor ++ P.run ++ P.stop, i.safe = true
  runNews : news P.run ≤ 1

theorem wf_spec (P : Prog) (h : P.wf = true) : WF P := by
  unfold Prog.wf at h
  simp only [Bool.and_eq_true, decide_eq_true_eq, List.all_eq_true, List.any_eq_true, Bool.not_eq_true'] at h
  exact ⟨fun i hi => (h.1.1.1.1 i hi).1, h.1.1.1.2⟩

theorem step_inv (P : Prog) (hP : WF P) (s : St) (hI : Inv s) (c : Choice) : Inv (step P s c) := by
  obtain ⟨hcount, hleak, hsealed, hsafe, hplain, hseal⟩ := hI
  cases c with
  | main =>
    unfold step
    cases hC : s.mainC with
    | cons i rest =>
      simp only
      have hsi : i.safe = true := hsafe i (by simp [St.pending, hC])
      have ht := thread_step s.sh.core s.sh.leaked (news s.mainS + runsNews s.runs) i rest
        (by rw [hC] at hcount; omega) hleak hsealed hsi
      refine ⟨?_, ht.2.1, ht.2.2.1, ?_, hplain, ?_⟩
      · simp only [execInstr]; have := ht.1; omega
      · intro j hj
        apply hsafe j
        simp only [St.pending, execInstr, List.mem_append] at hj ⊢
        rcases hj with (hj | hj) | hj
        · rw [hC]; exact Or.inl (Or.inl (List.mem_cons_of_mem _ (mem_drop _ _ _ hj)))
        · exact Or.inl (Or.inr hj)
        · exact Or.inr hj
      · rcases hseal with h | h
        · exact Or.inl (ht.2.2.2 h)
        · exact Or.inr h
    | nil =>
      simp only
      cases hS : s.mainS with
      | nil => simp only; exact ⟨hcount, hleak, hsealed, hsafe, hplain, hseal⟩
      | cons i rest =>
        simp only
        have hsi : i.safe = true := hsafe i (by simp [St.pending, hS])
        have hnt : i.isTest = false := hplain i (by simp [hS])
        have hk := execCore_skip_nontest s.sh.core i hnt
        have hn0 : news ([] : List Instr) = 0 := rfl
        have ht := thread_step s.sh.core s.sh.leaked (news s.mainC + runsNews s.runs) i rest
          (by rw [hS] at hcount; omega) hleak hsealed hsi
        rw [hC] at ht hcount
        rw [hk, List.drop_zero] at ht
        refine ⟨?_, ht.2.1, ht.2.2.1, ?_, ?_, ?_⟩
        · simp only [execInstr, hk, List.drop_zero]; have := ht.1; omega
        · intro j hj
          apply hsafe j
          simp only [St.pending, execInstr, hk, List.drop_zero, List.mem_append] at hj ⊢
          rcases hj with (hj | hj) | hj
          · cases hj
          · rw [hS]; exact Or.inl (Or.inr (List.mem_cons_of_mem _ hj))
          · exact Or.inr hj
        · intro j hj
          simp only [execInstr, hk, List.drop_zero] at hj
          exact hplain j (by rw [hS]; exact List.mem_cons_of_mem _ hj)
        · rcases hseal with h | ⟨j, hj, hjs⟩
          · exact Or.inl (ht.2.2.2 h)
          · rw [hS] at hj
            cases hj with
            | head => exact Or.inl (seals_spec i hjs s.sh.core).1
            | tail _ hj' => exact Or.inr ⟨j, by simp only [execInstr, hk, List.drop_zero]; exact hj', hjs⟩
  | run k =>
    simp only [step]
    split
    · rename_i i rest hR
      have hmem : ∀ j ∈ i :: rest, j ∈ s.runs.flatten := fun j hj => mem_flatten_of_getElem? s.runs k _ hR j hj
      have hsi : i.safe = true := hsafe i (by simp only [St.pending, List.mem_append]; exact Or.inr (hmem i (List.mem_cons_self ..)))
      have hsplit := setNth_runsNews s.runs k (i :: rest) (rest.drop (execCore s.sh.core i).2.2.2) hR
      have hsplit0 := setNth_runsNews s.runs k (i :: rest) [] hR
      have hn0 : news ([] : List Instr) = 0 := rfl
      have ht := thread_step s.sh.core s.sh.leaked (news s.mainC + news s.mainS + (runsNews s.runs - news (i :: rest))) i rest
        (by omega) hleak hsealed hsi
      refine ⟨?_, ht.2.1, ht.2.2.1, ?_, hplain, ?_⟩
      · simp only [execInstr]; have := ht.1; omega
      · intro j hj
        apply hsafe j
        simp only [St.pending, execInstr, List.mem_append] at hj ⊢
        rcases hj with hj | hj
        · exact Or.inl hj
        · refine Or.inr (mem_flatten_setNth s.runs k (i :: rest) _ hR ?_ j hj)
          intro x hx; exact List.mem_cons_of_mem _ (mem_drop _ _ _ hx)
      · rcases hseal with h | h
        · exact Or.inl (ht.2.2.2 h)
        · exact Or.inr h
    · exact ⟨hcount, hleak, hsealed, hsafe, hplain, hseal⟩
  | fireCur =>
    simp only [step]
    split
    · rename_i harm
      refine ⟨?_, hleak, ?_, ?_, hplain, hseal⟩
      · have hr := hP.runNews
        simp only [runsNews, List.map_append, List.sum_append, List.map_cons, List.map_nil, List.sum_cons, List.sum_nil] at hcount ⊢
        rw [harm] at hcount
        simp only [TS.liveN, TS.live] at hcount ⊢
        simp at hcount ⊢
        omega
      · intro _; rfl
      · intro j hj
        simp only [St.pending, List.flatten_append, List.mem_append, List.flatten_cons, List.flatten_nil, List.append_nil] at hj
        rcases hj with (hj | hj) | (hj | hj)
        · exact hsafe j (by simp only [St.pending, List.mem_append]; exact Or.inl (Or.inl hj))
        · exact hsafe j (by simp only [St.pending, List.mem_append]; exact Or.inl (Or.inr hj))
        · exact hsafe j (by simp only [St.pending, List.mem_append]; exact Or.inr hj)
        · exact hP.safe j (List.mem_append_left _ (List.mem_append_right _ hj))
    · exact ⟨hcount, hleak, hsealed, hsafe, hplain, hseal⟩
  | fireLeaked =>
    simp only [step]
    split
    · rename_i h; omega
    · exact ⟨hcount, hleak, hsealed, hsafe, hplain, hseal⟩

theorem exec_inv (P : Prog) (hP : WF P) (sched : List Choice) (s : St) (hI : Inv s) : Inv (exec P s sched) := by
  induction sched generalizing s with
  | nil => exact hI
  | cons c r ih => exact ih _ (step_inv P hP s hI c)

end LPVerif.Timer
