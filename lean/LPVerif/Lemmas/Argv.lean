import LPVerif.Model.Argv
namespace LPVerif.Argv

theorem splitAt_none (x : String) (l : List String) (h : x ∉ l) : splitAt x l = none := by
  induction l with
  | nil => rfl
  | cons a r ih =>
    have ha : a ≠ x := fun e => h (by simp [e])
    have hr : x ∉ r := fun e => h (by simp [e])
    simp [splitAt, ha, ih hr]

theorem splitAt_append (x : String) (o r : List String) (h : x ∉ o) :
    splitAt x (o ++ x :: r) = some (o, r) := by
  induction o with
  | nil => simp [splitAt]
  | cons a o ih =>
    have ha : a ≠ x := fun e => h (by simp [e])
    have ho : x ∉ o := fun e => h (by simp [e])
    simp [splitAt, ha, ih ho]

/-- first occurrence of `x` in `l`, as a decomposition -/
theorem splitAt_some (x : String) (l : List String) (h : x ∈ l) :
    ∃ p q, l = p ++ x :: q ∧ x ∉ p ∧ splitAt x l = some (p, q) := by
  induction l with
  | nil => cases h
  | cons a r ih =>
    by_cases ha : a = x
    · exact ⟨[], r, by simp [ha], by simp, by simp [splitAt, ha]⟩
    · have hr : x ∈ r := by
        cases h with
        | head => exact absurd rfl ha
        | tail _ h' => exact h'
      obtain ⟨p, q, e, hp, hs⟩ := ih hr
      refine ⟨a :: p, q, by simp [e], ?_, by simp [splitAt, ha, hs]⟩
      intro hm
      cases hm with
      | head => exact ha rfl
      | tail _ h' => exact hp h'

theorem ppFlag_module (o r : List String) (m : String) (ho : "-m" ∉ o) :
    ppFlag (o ++ "-m" :: m :: r) = .ok (o, some m, r) := by
  simp [ppFlag, splitAt_append "-m" o (m :: r) ho]

/-- module mode: whatever follows `-m mod` is cut off verbatim -/
theorem pp_module (o r : List String) (m : String)
    (ho1 : "-m" ∉ o) (ho2 : "--" ∉ o) (hm : m ≠ "--") :
    pp (o ++ "-m" :: m :: r) = .ok (o, some m, r) := by
  by_cases hr : "--" ∈ r
  · obtain ⟨p, q, e, hp, _⟩ := splitAt_some "--" r hr
    have hsep : "--" ∉ o ++ "-m" :: m :: p := by
      simp only [List.mem_append, List.mem_cons]
      rintro (h | h | h | h)
      · exact ho2 h
      · exact absurd h (by decide)
      · exact hm h.symm
      · exact hp h
    have : o ++ "-m" :: m :: r = (o ++ "-m" :: m :: p) ++ "--" :: q := by simp [e]
    rw [this]
    simp only [pp, splitAt_append "--" _ q hsep, ppFlag_module o p m ho1]
    simp [e]
  · have hsep : "--" ∉ o ++ "-m" :: m :: r := by
      simp only [List.mem_append, List.mem_cons]
      rintro (h | h | h | h)
      · exact ho2 h
      · exact absurd h (by decide)
      · exact hm h.symm
      · exact hr h
    simp only [pp, splitAt_none "--" _ hsep, ppFlag_module o r m ho1]

/-- script mode with the documented shield directly after the script -/
theorem pp_shielded (o r : List String) (s : String)
    (ho1 : "-m" ∉ o) (ho2 : "--" ∉ o) (hs1 : s ≠ "-m") (hs2 : s ≠ "--") :
    pp (o ++ s :: "--" :: r) = .ok (o ++ [s, "--"], none, r) := by
  have hsep : "--" ∉ o ++ [s] := by
    simp only [List.mem_append, List.mem_cons, List.not_mem_nil, or_false]
    rintro (h | h)
    · exact ho2 h
    · exact hs2 h.symm
  have hflag : "-m" ∉ o ++ [s] := by
    simp only [List.mem_append, List.mem_cons, List.not_mem_nil, or_false]
    rintro (h | h)
    · exact ho1 h
    · exact hs1 h.symm
  have : o ++ s :: "--" :: r = (o ++ [s]) ++ "--" :: r := by simp
  rw [this]
  simp only [pp, splitAt_append "--" _ r hsep, ppFlag, splitAt_none "-m" _ hflag]
  simp

/-- script mode, no `-m` and no `--` anywhere: nothing is cut -/
theorem pp_plain (l : List String) (h1 : "-m" ∉ l) (h2 : "--" ∉ l) : pp l = .ok (l, none, []) := by
  simp [pp, ppFlag, splitAt_none "--" l h2, splitAt_none "-m" l h1]

/-- `decodeOpts` stops at the first positional token and never looks at what follows it -/
theorem decode_extend (table : List OptSpec) (x : List String) (acc opts : Opts) (p : String) (q r : List String)
    (h : decodeOpts table acc x = .ok (opts, p :: q)) :
    decodeOpts table acc (x ++ r) = .ok (opts, p :: q ++ r) := by
  fun_induction decodeOpts table acc x
  all_goals try (cases h; done)
  all_goals (simp only [List.cons_append]; rw [decodeOpts]; simp_all)

end LPVerif.Argv
