import LPVerif.Model.Timer
import LPVerif.Generated.TimerProg
/-! Line-protocol front end to `Model.Timer` (C07, K07t): `reset` | `main` | `run k` | `fire` | `fireLeaked`; every choice
    answers with the state line `r=<0|1> s=<0|1> cur=<dead|fresh|armed|cancelledFresh> leaked=n dumps=n main=n runs=n,n,…`. -/
namespace LPVerif.Driver.Timer
open LPVerif.Timer

def b01 (b : Bool) : String := if b then "1" else "0"

def showTS : TS → String
  | .dead => "dead" | .fresh => "fresh" | .armed => "armed" | .cancelledFresh => "cancelledFresh"

def showSt (s : St) : String :=
  s!"r={b01 s.sh.core.running} s={b01 s.sh.core.stopped} cur={showTS s.sh.core.cur} leaked={s.sh.leaked} dumps={s.sh.dumps} " ++
  s!"main={s.mainC.length + s.mainS.length} runs={",".intercalate (s.runs.map fun r => toString r.length)}"

def prog : Prog := LPVerif.Generated.repeatedTimer

def step (s : St) (w : List String) : St × List String :=
  match w with
  | ["reset"] => (init prog, [showSt (init prog)])
  | ["main"] => let s' := LPVerif.Timer.step prog s .main; (s', [showSt s'])
  | ["run", k] =>
    match k.toNat? with
    | some k => let s' := LPVerif.Timer.step prog s (.run k); (s', [showSt s'])
    | none => (s, ["bad-op"])
  | ["fire"] => let s' := LPVerif.Timer.step prog s .fireCur; (s', [showSt s'])
  | ["fireLeaked"] => let s' := LPVerif.Timer.step prog s .fireLeaked; (s', [showSt s'])
  | ["wf"] => (s, [b01 prog.wf])
  | _ => (s, ["bad-op"])

end LPVerif.Driver.Timer
