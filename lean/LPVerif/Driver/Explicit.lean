import LPVerif.Model.Explicit
/-! Line-protocol front end to `Model.Explicit` (C14). -/
namespace LPVerif.Driver.Explicit
open LPVerif LPVerif.Explicit

structure DSt where
  s : GP := {}
  env : Env := ⟨[], []⟩

def showRet : Ret → String
  | .same => "same"
  | .wrapped (.own n) => s!"wrapped own {n}"
  | .wrapped (.given n) => s!"wrapped given {n}"
  | .typeError => "typeError"

def showEnabled : Option Bool → String
  | none => "None" | some true => "True" | some false => "False"

def showProf : Option ProfRef → String
  | none => "None" | some (.own n) => s!"own{n}" | some (.given n) => s!"given{n}"

def showGP (s : GP) : String :=
  s!"{showEnabled s.enabled} {showProf s.profile} {s.created} {s.atexit} {s.output_prefix}"

def bit (w : String) : Bool := w = "1"

def step (d : DSt) (w : List String) : DSt × List String :=
  match w with
  | "new" :: v :: argv =>
    let environ := if v = "@unset" then [] else [("LINE_PROFILE", if v = "@empty" then "" else v)]
    ({ s := {}, env := ⟨environ, argv⟩ }, [])
  | ["decorate"] =>
    let (s', r) := d.s.call d.env
    ({ d with s := s' }, [s!"{showRet r} | {showGP s'}"])
  | ["enable"] => let s' := d.s.enable none; ({ d with s := s' }, [showGP s'])
  | ["enable", p] => let s' := d.s.enable (some p); ({ d with s := s' }, [showGP s'])
  | ["disable"] => let s' := d.s.disable; ({ d with s := s' }, [showGP s'])
  | ["kernprof", p] =>
    let s' := d.s.kernprofOverwrite (if p = "none" then none else (p.toNat?.map .given))
    ({ d with s := s' }, [showGP s'])
  | ["show", l, t, tt, so, pfx, ts] =>
    let c : WriteCfg := { lprof := bit l, text := bit t, timestamped_text := bit tt, stdout := bit so }
    (d, ["outputs " ++ " ".intercalate ((showOutputs Generated.showTable c pfx ts).map fun (k, n) => s!"{k}={n}")])
  | _ => (d, ["bad-op"])

end LPVerif.Driver.Explicit
