/-! Shared stdin/stdout loop of the line-protocol drivers. -/
namespace LPVerif.Driver

def words (line : String) : List String :=
  (line.trimAscii.toString.splitOn " ").filter (· ≠ "")

partial def loop {σ} (h : IO.FS.Stream) (out : IO.FS.Stream) (step : σ → List String → σ × List String) (s : σ) : IO Unit := do
  let line ← h.getLine
  if line.isEmpty then return ()
  let (s', outs) := step s (words line)
  for o in outs do out.putStrLn o
  loop h out step s'

def runDriver {σ} (step : σ → List String → σ × List String) (init : σ) : IO Unit := do
  let stdin ← IO.getStdin
  let stdout ← IO.getStdout
  loop stdin stdout step init
  stdout.flush

end LPVerif.Driver
