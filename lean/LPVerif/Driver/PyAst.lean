import LPVerif.Model.PyAst
/-! Line-protocol front end to `Model.PyAst` (C08). Programs travel as tokens (see `parseStmt`). -/
namespace LPVerif.Driver.PyAst
open LPVerif LPVerif.PyAst

def parseDecos : Nat → List String → Option (List Deco × List String)
  | 0, r => some ([], r)
  | n + 1, "N" :: x :: r => (parseDecos n r).map fun (ds, r') => (.name x :: ds, r')
  | n + 1, "O" :: k :: r => match k.toNat? with
    | some k => (parseDecos n r).map fun (ds, r') => (.other k :: ds, r')
    | none => none
  | _, _ => none

def parseAliases : Nat → List String → Option (List Alias × List String)
  | 0, r => some ([], r)
  | n + 1, nm :: asn :: r => (parseAliases n r).map fun (as_, r') => ((nm, if asn = "-" then none else some asn) :: as_, r')
  | _, _ => none

mutual
def parseStmt : Nat → List String → Option (Stmt × List String)
  | 0, _ => none
  | fuel + 1, toks =>
    match toks with
    | "def" :: a :: name :: line :: nd :: r =>
      match line.toNat?, nd.toNat? with
      | some line, some nd => match parseDecos nd r with
        | some (ds, "{" :: r') => match parseBlock fuel r' with
          | some (b, r'') => some (.funcDef (a = "1") name ds b line, r'')
          | none => none
        | _ => none
      | _, _ => none
    | "class" :: name :: line :: nd :: r =>
      match line.toNat?, nd.toNat? with
      | some line, some nd => match parseDecos nd r with
        | some (ds, "{" :: r') => match parseBlock fuel r' with
          | some (b, r'') => some (.classDef name ds b line, r'')
          | none => none
        | _ => none
      | _, _ => none
    | "import" :: line :: n :: r =>
      match line.toNat?, n.toNat? with
      | some line, some n => (parseAliases n r).map fun (as_, r') => (.import_ as_ line, r')
      | _, _ => none
    | "from" :: m :: lv :: line :: n :: r =>
      match lv.toNat?, line.toNat?, n.toNat? with
      | some lv, some line, some n => (parseAliases n r).map fun (as_, r') => (.importFrom (if m = "-" then none else some m) as_ lv line, r')
      | _, _, _ => none
    | "comp" :: k :: line :: nb :: r =>
      match k.toNat?, line.toNat?, nb.toNat? with
      | some k, some line, some nb => match parseBlocks fuel nb r with
        | some (bs, r') => some (.compound k bs line, r')
        | none => none
      | _, _, _ => none
    | "simple" :: i :: line :: r =>
      match i.toNat?, line.toNat? with
      | some i, some line => some (.simple i line, r)
      | _, _ => none
    | "reg" :: n :: r => some (.reg n, r)
    | _ => none
def parseBlock : Nat → List String → Option (Block × List String)
  | 0, _ => none
  | fuel + 1, toks =>
    match toks with
    | "}" :: r => some (.nil, r)
    | _ => match parseStmt fuel toks with
      | some (s, r) => (parseBlock fuel r).map fun (b, r') => (.cons s b, r')
      | none => none
def parseBlocks : Nat → Nat → List String → Option (Blocks × List String)
  | 0, _, _ => none
  | _, 0, r => some (.nil, r)
  | fuel + 1, n + 1, "{" :: r =>
    match parseBlock fuel r with
    | some (b, r') => (parseBlocks fuel n r').map fun (bs, r'') => (.cons b bs, r'')
    | none => none
  | _, _, _ => none
end

def showDecos (ds : List Deco) : List String :=
  toString ds.length :: ds.flatMap fun | .name x => ["N", x] | .other k => ["O", toString k]
def showAliases (as_ : List Alias) : List String :=
  toString as_.length :: as_.flatMap fun (n, a) => [n, a.getD "-"]

mutual
def showStmt : Stmt → List String
  | .funcDef a n d b l => ["def", if a then "1" else "0", n, toString l] ++ showDecos d ++ ["{"] ++ showBlock b
  | .classDef n d b l => ["class", n, toString l] ++ showDecos d ++ ["{"] ++ showBlock b
  | .import_ names l => ["import", toString l] ++ showAliases names
  | .importFrom m names lv l => ["from", m.getD "-", toString lv, toString l] ++ showAliases names
  | .compound k bs l => ["comp", toString k, toString l, toString (lenBs bs)] ++ showBlocks bs
  | .simple i l => ["simple", toString i, toString l]
  | .reg n => ["reg", n]
def showBlock : Block → List String
  | .nil => ["}"]
  | .cons s r => showStmt s ++ showBlock r
def showBlocks : Blocks → List String
  | .nil => []
  | .cons b r => ["{"] ++ showBlock b ++ showBlocks r
def lenBs : Blocks → Nat
  | .nil => 0
  | .cons _ r => lenBs r + 1
end

def parseMatched : List String → Option (List (Nat × String))
  | [] => some []
  | i :: n :: r => match i.toNat?, parseMatched r with
    | some i, some rest => some ((i, n) :: rest)
    | _, _ => none
  | _ => none

/-- `rewrite <full 0/1> <profImports 0/1> <k> <idx name>*k | <program tokens>` -/
def step (_ : Unit) (w : List String) : Unit × List String :=
  match w with
  | "rewrite" :: full :: pi :: k :: rest =>
    match k.toNat? with
    | some k =>
      match parseMatched (rest.take (2 * k)), parseBlock 100000 (rest.drop (2 * k)) with
      | some matched, some (m, []) =>
        ((), [" ".intercalate (showBlock (rewrite ⟨full = "1", pi = "1", matched⟩ m))])
      | _, _ => ((), ["bad-op"])
    | none => ((), ["bad-op"])
  | _ => ((), ["bad-op"])

end LPVerif.Driver.PyAst
