import LPVerif.Model.Skel
import LPVerif.Generated.Skeletons
/-! Line-protocol front end to the big-step semantics of the dumped control skeletons (C06 C07 C19 C20). -/
namespace LPVerif.Driver.Skel
open LPVerif LPVerif.Skel LPVerif.Generated

def skelByName : String → Option (Skel Nat)
  | "kernprofBody" => some kernprofBody
  | "kernprofHead" => some kernprofHead
  | "kernprofFromInstall" => some kernprofFromInstall
  | "kernprofTail" => some kernprofTail
  | "kernprofMain" => some kernprofMain
  | "restoreList" => some restoreList
  | "lprunCore" => some lprunCore
  | "mixin_runctx" => some mixin_runctx
  | "mixin_runcall" => some mixin_runcall
  | "wrap_function_wrapper" => some wrap_function_wrapper
  | "wrap_coroutine_wrapper" => some wrap_coroutine_wrapper
  | "wrap_generator_iteration" => some wrap_generator_iteration
  | "wrap_async_generator_iteration" => some wrap_async_generator_iteration
  | _ => none

def parseExc : String → Option (Option Exc)
  | "none" => some none | "sysExit" => some (some .sysExit) | "kbInt" => some (some .kbInt)
  | "special" => some (some .special) | "other" => some (some .other) | _ => none

def showOut : Out → String
  | .normal => "normal" | .returned => "returned"
  | .raised .sysExit => "raised sysExit" | .raised .kbInt => "raised kbInt" | .raised .special => "raised special" | .raised .other => "raised other"

/-- `exec <skeleton> <true condition ids, comma separated or -> <outcomes of the risky leaves in order, comma separated or ->` -/
def step (_ : Unit) (w : List String) : Unit × List String :=
  match w with
  | ["exec", name, conds, risks] =>
    match skelByName name with
    | none => ((), ["bad-op"])
    | some s =>
      let cs := if conds = "-" then some [] else (conds.splitOn ",").mapM String.toNat?
      let rs := if risks = "-" then some [] else (risks.splitOn ",").mapM parseExc
      match cs, rs with
      | some cs, some rs =>
        let env : Env Nat := ⟨fun c => cs.contains c, fun k => (rs[k]?).getD none⟩
        let (o, log, k) := exec env s 0
        ((), [s!"{showOut o} | {",".intercalate (log.map toString)} | {k}"])
      | _, _ => ((), ["bad-op"])
  | ["names"] => ((), [" @@ ".intercalate skelNames])
  | _ => ((), ["bad-op"])

end LPVerif.Driver.Skel
