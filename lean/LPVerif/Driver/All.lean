import LPVerif.Driver.Prof
