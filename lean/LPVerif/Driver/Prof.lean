import LPVerif.Model.Prof
/-! Line-protocol front end to `Model.Prof` (see DESIGN §3.4). -/
namespace LPVerif.Driver.Prof
open LPVerif LPVerif.Core LPVerif.Prof

structure DSt where
  s : Prof.St := Prof.St.init
  clock : Int := 0
  delta : Int := 0
  -- running totals of the quantities of `C01.reported_hits_exact` (`Prof.delivStep`, `Prof.dropStep`), per registered key
  deliv : List ((Blk × Int) × Nat) := []
  drops : List ((Blk × Int) × Nat) := []
  threads : List Nat := []

def bumpA (k : Blk × Int) (n : Nat) (l : List ((Blk × Int) × Nat)) : List ((Blk × Int) × Nat) :=
  if n = 0 then l else
  match Prof.alookup k l with
  | some v => Prof.aset k (v + n) l
  | none => l ++ [(k, n)]

/-- one operation of the model, with the accounting of what it delivers to the callback / drops -/
def applyOp (d : DSt) (op : Prof.Op) : DSt :=
  let deliv := match op with
    | .ev e => bumpA (e.b, e.l) (Prof.delivStep d.s op e.b e.l) d.deliv
    | _ => d.deliv
  -- `dropStep` is zero except for the two disabling operations: only then are the registered keys scanned
  let drops := match op with
    | .disable _ | .disableBC _ => d.s.core.regs.eraseDups.foldl (fun acc k => bumpA k (Prof.dropStep d.s op k.1 k.2) acc) d.drops
    | _ => d.drops
  let threads := match op.thread with
    | some t => if t ∈ d.threads then d.threads else d.threads ++ [t]
    | none => d.threads
  { d with s := d.s.step op, deliv := deliv, drops := drops, threads := threads }

def showAcct (d : DSt) : String :=
  let labs := (Prof.labelsOf d.s.chm).mergeSort (· ≤ ·)
  let parts := labs.filterMap fun lab =>
    let cs := d.s.chm.filter (fun p => p.1.label = lab)
    let lines := ((cs.flatMap fun p => Prof.candLines d.s.core.regs p.1.blk).eraseDups).mergeSort (· ≤ ·)
    let cells := lines.filterMap fun l =>
      let del := (cs.map fun p => (Prof.alookup (p.1.blk, l) d.deliv).getD 0).sum
      let dr := (cs.map fun p => (Prof.alookup (p.1.blk, l) d.drops).getD 0).sum
      let pe := (cs.map fun p => Core.pend d.s.core.abs d.threads p.1.blk l).sum
      if del = 0 ∧ dr = 0 ∧ pe = 0 then none else some s!"{l},{del},{dr},{pe}"
    if cells.isEmpty then none else some (s!"{lab}:" ++ ";".intercalate cells)
  "acct " ++ "|".intercalate parts

def parseInts (s : String) : Option (List Int) :=
  if s = "-" then some [] else (s.splitOn ",").mapM String.toInt?

def showSt (s : Prof.St) (t : Nat) : String :=
  s!"st {s.count t} {if s.tracing t then 1 else 0} {if s.tool then 1 else 0}"

def showStats (s : Prof.St) : String :=
  let st := s.getStats
  let labs := (st.map Prod.fst).mergeSort (· ≤ ·)
  let parts := labs.map fun lab =>
    match Prof.alookup lab st with
    | some es => s!"{lab}:" ++ ";".intercalate (es.map fun (l, n, t) => s!"{l},{n},{t}")
    | none => ""
  "stats " ++ "|".intercalate parts

def step (d : DSt) (w : List String) : DSt × List String :=
  match w with
  | ["decl", f, base, label, lines] =>
    match f.toNat?, base.toNat?, label.toNat?, parseInts lines with
    | some f, some base, some label, some lines =>
      (applyOp d (.decl f { blk := ⟨base, 0⟩, label := label, lines := lines }), [])
    | _, _, _, _ => (d, ["bad-op"])
  | ["decl", f, base, label, lines, pad] =>       -- a function that arrives with bytecode an earlier profiler had padded
    match f.toNat?, base.toNat?, label.toNat?, parseInts lines, pad.toNat? with
    | some f, some base, some label, some lines, some pad =>
      (applyOp d (.decl f { blk := ⟨base, pad⟩, label := label, lines := lines }), [])
    | _, _, _, _, _ => (d, ["bad-op"])
  | ["add", f] =>
    match f.toNat? with
    | some f =>
      let d' := applyOp d (.add f)
      match Prof.alookup f d'.s.funcs with
      | some c => (d', [s!"blk {c.blk.base} {c.blk.pad}"])
      | none => (d, ["undeclared"])
    | none => (d, ["bad-op"])
  | ["enbc", t] =>
    match t.toNat? with
    | some t => match d.s.enableByCount t with
      | .ok _ => (applyOp d (.enableBC t), ["ok"])
      | .error e => (d, [s!"err {e}"])
    | none => (d, ["bad-op"])
  | ["disbc", t] =>
    match t.toNat? with
    | some t => (applyOp d (.disableBC t), ["ok"])
    | none => (d, ["bad-op"])
  | ["enable", t] =>
    match t.toNat? with
    | some t => match d.s.enable t with
      | .ok _ => (applyOp d (.enable t), ["ok"])
      | .error e => (d, [s!"err {e}"])
    | none => (d, ["bad-op"])
  | ["disable", t] =>
    match t.toNat? with
    | some t => (applyOp d (.disable t), ["ok"])
    | none => (d, ["bad-op"])
  | ["state", t] =>
    match t.toNat? with
    | some t => (d, [showSt d.s t])
    | none => (d, ["bad-op"])
  | ["ev", t, fr, base, pad, line, kind] =>
    match t.toNat?, fr.toNat?, base.toNat?, pad.toNat?, line.toInt? with
    | some t, some fr, some base, some pad, some line =>
      if kind ≠ "L" ∧ kind ≠ "R" then (d, ["bad-op"]) else
      let isLine := kind = "L"
      let b : Blk := ⟨base, pad⟩
      let e : Ev := { t := t, f := fr, b := b, l := line, isLine := isLine,
                      r1 := d.clock, r2 := d.clock + d.delta }
      -- the clock is read once (RETURN) or twice (LINE), only when the line hash is known and
      -- only when the callback runs at all
      let reads : Int := if d.s.tracing t ∧ (b, line) ∈ d.s.core.regs then (if isLine then 2 else 1) else 0
      ({ applyOp d (.ev e) with clock := d.clock + reads * d.delta }, [])
    | _, _, _, _, _ => (d, ["bad-op"])
  | ["tick", n] =>
    match n.toInt? with
    | some n => ({ d with clock := d.clock + n }, [])
    | none => (d, ["bad-op"])
  | ["delta", n] =>
    match n.toInt? with
    | some n => ({ d with delta := n }, [])
    | none => (d, ["bad-op"])
  | ["clock"] => (d, [s!"clock {d.clock}"])
  | ["stats"] => (d, [showStats d.s])
  | ["acct"] => (d, [showAcct d])
  | ["nfuncs"] => (d, [s!"nfuncs {d.s.nfuncs}"])
  | ["reset"] => ({}, [])
  | _ => (d, ["bad-op"])

end LPVerif.Driver.Prof
