import LPVerif.Model.Prof
/-! Line-protocol front end to `Model.Prof` (see DESIGN §3.4). -/
namespace LPVerif.Driver.Prof
open LPVerif LPVerif.Core LPVerif.Prof

structure DSt where
  s : Prof.St := Prof.St.init
  clock : Int := 0
  delta : Int := 0

def parseInts (s : String) : Option (List Int) :=
  if s = "-" then some [] else (s.splitOn ",").mapM String.toInt?

def showSt (s : Prof.St) (t : Nat) : String :=
  s!"st {s.count t} {if s.tracing t then 1 else 0} {if s.tool then 1 else 0}"

def showStats (s : Prof.St) : String :=
  let st := s.getStats
  let labs := (st.map Prod.fst).mergeSort (· ≤ ·)
  let parts := labs.map fun lab =>
    match Prof.alookup lab st with
    | some es => s!"{lab}:" ++ ";".intercalate (es.map fun (l, n, t) => s!"{l},{n},{t}")
    | none => ""
  "stats " ++ "|".intercalate parts

def step (d : DSt) (w : List String) : DSt × List String :=
  match w with
  | ["decl", f, base, label, lines] =>
    match f.toNat?, base.toNat?, label.toNat?, parseInts lines with
    | some f, some base, some label, some lines =>
      ({ d with s := d.s.step (.decl f { blk := ⟨base, 0⟩, label := label, lines := lines }) }, [])
    | _, _, _, _ => (d, ["bad-op"])
  | ["add", f] =>
    match f.toNat? with
    | some f =>
      let s' := d.s.step (.add f)
      match Prof.alookup f s'.funcs with
      | some c => ({ d with s := s' }, [s!"blk {c.blk.base} {c.blk.pad}"])
      | none => (d, ["undeclared"])
    | none => (d, ["bad-op"])
  | ["enbc", t] =>
    match t.toNat? with
    | some t => match d.s.enableByCount t with
      | .ok s' => ({ d with s := s' }, ["ok"])
      | .error e => (d, [s!"err {e}"])
    | none => (d, ["bad-op"])
  | ["disbc", t] =>
    match t.toNat? with
    | some t => let s' := d.s.disableByCount t; ({ d with s := s' }, ["ok"])
    | none => (d, ["bad-op"])
  | ["enable", t] =>
    match t.toNat? with
    | some t => match d.s.enable t with
      | .ok s' => ({ d with s := s' }, ["ok"])
      | .error e => (d, [s!"err {e}"])
    | none => (d, ["bad-op"])
  | ["disable", t] =>
    match t.toNat? with
    | some t => let s' := d.s.disable t; ({ d with s := s' }, ["ok"])
    | none => (d, ["bad-op"])
  | ["state", t] =>
    match t.toNat? with
    | some t => (d, [showSt d.s t])
    | none => (d, ["bad-op"])
  | ["ev", t, fr, base, pad, line, kind] =>
    match t.toNat?, fr.toNat?, base.toNat?, pad.toNat?, line.toInt? with
    | some t, some fr, some base, some pad, some line =>
      if kind ≠ "L" ∧ kind ≠ "R" then (d, ["bad-op"]) else
      let isLine := kind = "L"
      let b : Blk := ⟨base, pad⟩
      let e : Ev := { t := t, f := fr, b := b, l := line, isLine := isLine,
                      r1 := d.clock, r2 := d.clock + d.delta }
      -- the clock is read once (RETURN) or twice (LINE), only when the line hash is known and
      -- only when the callback runs at all
      let reads : Int := if d.s.tracing t ∧ (b, line) ∈ d.s.core.regs then (if isLine then 2 else 1) else 0
      ({ d with s := d.s.step (.ev e), clock := d.clock + reads * d.delta }, [])
    | _, _, _, _, _ => (d, ["bad-op"])
  | ["tick", n] =>
    match n.toInt? with
    | some n => ({ d with clock := d.clock + n }, [])
    | none => (d, ["bad-op"])
  | ["delta", n] =>
    match n.toInt? with
    | some n => ({ d with delta := n }, [])
    | none => (d, ["bad-op"])
  | ["clock"] => (d, [s!"clock {d.clock}"])
  | ["stats"] => (d, [showStats d.s])
  | ["nfuncs"] => (d, [s!"nfuncs {d.s.nfuncs}"])
  | ["reset"] => ({}, [])
  | _ => (d, ["bad-op"])

end LPVerif.Driver.Prof
