import LPVerif.Model.Argv
import LPVerif.Generated.KernprofOptions
/-! Line-protocol front end to `Model.Argv` (C15, C17). -/
namespace LPVerif.Driver.Argv
open LPVerif LPVerif.Argv

def showErr : Err → String
  | .argExpected => "argExpected"
  | .badOption t => s!"badOption {t}"
  | .missingValue t => s!"missingValue {t}"
  | .noScript => "noScript"
  | .ambiguous t => s!"ambiguous {t}"

/-- tokens travel on a space-separated line: the empty token is written `%e`, a space inside a token `%20` -/
def dec (t : String) : String := if t = "%e" then "" else t.replace "%20" " "
def enc (t : String) : String := if t = "" then "%e" else t.replace " " "%20"

def step (_ : Unit) (w : List String) : Unit × List String :=
  match w with
  | "parse" :: args =>
    match parseCmdWith Generated.kernprofAllowAbbrev Generated.kernprofOptions (args.map dec) with
    | .ok c =>
      ((), [s!"ok {if c.isModule then "module" else "script"} {c.target} {c.outfile} {if c.opts.lineByLine then 1 else 0} {if c.opts.view then 1 else 0} | "
            ++ " ".intercalate (c.argv.map enc)])
    | .error e => ((), ["err " ++ showErr e])
  | "pp" :: args =>
    match pp args with
    | .ok (pre, m, post) => ((), [s!"ok {" ".intercalate pre} | {m.getD "<none>"} | {" ".intercalate post}"])
    | .error e => ((), ["err " ++ showErr e])
  | ["rel", level, target, comps] =>
    match level.toNat? with
    | some level =>
      let tgt := if target = "-" then [] else target.splitOn "."
      let mod := comps.splitOn "."
      ((), [".".intercalate (resolveRel mod level tgt) ++ " " ++ ".".intercalate (pyResolve (package mod) level tgt)])
    | none => ((), ["bad-op"])
  | _ => ((), ["bad-op"])

end LPVerif.Driver.Argv
