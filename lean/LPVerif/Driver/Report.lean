import LPVerif.Model.Report
/-! Line-protocol front end to `Model.Report` (C10, C11).  Text fields travel hex-encoded (UTF-8). -/
namespace LPVerif.Driver.Report
open LPVerif LPVerif.Report

def hexVal (c : Char) : Option Nat :=
  if '0' ≤ c ∧ c ≤ '9' then some (c.toNat - '0'.toNat)
  else if 'a' ≤ c ∧ c ≤ 'f' then some (c.toNat - 'a'.toNat + 10) else none

def unhexBytes : List Char → Option (List UInt8)
  | [] => some []
  | a :: b :: r => do
    let x ← hexVal a
    let y ← hexVal b
    let rest ← unhexBytes r
    pure (UInt8.ofNat (x * 16 + y) :: rest)
  | _ => none

def unhex (s : String) : Option String :=
  if s = "-" then some "" else
  match unhexBytes s.toList with
  | some bs => String.fromUTF8? (ByteArray.mk bs.toArray)
  | none => none

def hexDigit (n : Nat) : Char := if n < 10 then Char.ofNat ('0'.toNat + n) else Char.ofNat ('a'.toNat + n - 10)

def hexOf (s : String) : String :=
  String.mk (s.toUTF8.toList.flatMap fun b => [hexDigit (b.toNat / 16), hexDigit (b.toNat % 16)])

structure DSt where
  funcs : List Func := []      -- most recent first

def txt (s : String) : Option Txt := (unhex s).map String.toList

def step (d : DSt) (w : List String) : DSt × List String :=
  match w with
  | ["func", fn, start, name, tt, summ, ex] =>
    match unhex fn, start.toNat?, unhex name, txt tt, txt summ with
    | some fn, some start, some name, some tt, some summ =>
      ({ funcs := { fn := fn, start := start, name := name, cands := [], totalTimeTxt := tt, summaryTxt := summ,
                    fileExists := ex = "1", block := [] } :: d.funcs }, [])
    | _, _, _, _, _ => (d, ["bad-op"])
  | ["cand", line, hits, time, a, b, c, e, f, g, h] =>
    match d.funcs, line.toNat?, hits.toNat?, time.toNat?, txt a, txt b, txt c, txt e, txt f, txt g, txt h with
    | cur :: rest, some line, some hits, some time, some a, some b, some c, some e, some f, some g, some h =>
      ({ funcs := { cur with cands := cur.cands ++ [⟨line, hits, time, a, b, c, e, f, g, h⟩] } :: rest }, [])
    | _, _, _, _, _, _, _, _, _, _, _ => (d, ["bad-op"])
  | ["src", s] =>
    match d.funcs, txt s with
    | cur :: rest, some s => ({ funcs := { cur with block := cur.block ++ [s] } :: rest }, [])
    | _, _ => (d, ["bad-op"])
  | ["show", strip, det, summ, sort, unit] =>
    match txt unit with
    | some u =>
      let o : Opts := ⟨strip = "1", det = "1", summ = "1", sort = "1"⟩
      ({}, [hexOf (String.mk (showText o u d.funcs.reverse))])
    | none => (d, ["bad-op"])
  | ["reset"] => ({}, [])
  | _ => (d, ["bad-op"])

end LPVerif.Driver.Report
