import LPVerif.Model.Select
/-! Line-protocol front end to `Model.Select` (C09). -/
namespace LPVerif.Driver.Select
open LPVerif LPVerif.Select

def dotted (s : String) : Name := (s.splitOn ".").filter (· ≠ "")

def parseMember (s : String) : Option Member :=
  if s = "o" then some .other else
  match s.toList with
  | 'f' :: r => (String.mk r).toNat?.map .func
  | 's' :: r => (String.mk r).toNat?.map .staticm
  | 'c' :: r => (String.mk r).toNat?.map .classm
  | 'p' :: r => (String.mk r).toNat?.map .prop
  | _ => none

/-- `f:<id>:<def>` | `c:<def>:<m,m,…>` | `m:<k>` | `o` -/
def parseObj (s : String) : Option Obj :=
  match s.splitOn ":" with
  | ["f", id, d] => match id.toNat?, d.toNat? with | some id, some d => some (.func id d) | _, _ => none
  | ["c", d, ms] => match d.toNat?, ((ms.splitOn ",").filter (· ≠ "")).mapM parseMember with
    | some d, some ms => some (.cls d ms) | _, _ => none
  | ["m", k] => k.toNat?.map .modRef
  | ["o"] => some .other
  | _ => none

structure DSt where
  ns : List (Nat × List Obj) := []

def step (d : DSt) (w : List String) : DSt × List String :=
  match w with
  | "match" :: rest =>
    -- match <M names…> | <name alias idx>…
    let (ms, imps) := rest.span (· ≠ "|")
    let imps := imps.drop 1
    let rec go : List String → Option (List Imp)
      | [] => some []
      | n :: a :: i :: r => match i.toNat?, go r with
        | some i, some rest => some (⟨dotted n, a, i⟩ :: rest)
        | _, _ => none
      | _ => none
    match go imps with
    | some il => (d, [" ".intercalate ((matchImports (ms.map dotted) il).map fun (i, a) => s!"{i}={a}")])
    | none => (d, ["bad-op"])
  | "ns" :: k :: objs =>
    match k.toNat?, objs.mapM parseObj with
    | some k, some os => ({ ns := (k, os) :: d.ns.filter (·.1 ≠ k) }, [])
    | _, _ => (d, ["bad-op"])
  | ["register", o] =>
    match parseObj o with
    | some o =>
      let nsOf := fun k => match d.ns.find? (·.1 = k) with | some p => p.2 | none => []
      (d, [" ".intercalate ((registerItem nsOf o).map toString)])
    | none => (d, ["bad-op"])
  | "expand" :: sel :: paths =>
    -- expand <selected package name> <walked module paths relative to the package, '/'-separated>…
    -- module files, then `|`, then sub-package directories
    let (files, pkgs) := paths.span (· ≠ "|")
    let split := fun (p : String) => (p.splitOn "/").filter (· ≠ "")
    (d, [" ".intercalate ((namesToProfile (dotted sel) (files.map split) ((pkgs.drop 1).map split)).map (".".intercalate ·))])
  | ["reset"] => ({}, [])
  | _ => (d, ["bad-op"])

end LPVerif.Driver.Select
