import LPVerif.Model.FS
/-! Line-protocol front end to `Model.FS` (C18, C09). Trees travel as tokens: `f <name>` | `d <name> ( … )`. -/
namespace LPVerif.Driver.FS
open LPVerif LPVerif.FS

mutual
def parseEntries : Nat → List String → Option (Entries × List String)
  | 0, _ => none
  | fuel + 1, toks =>
    match toks with
    | "f" :: n :: r => (parseEntries fuel r).map fun (es, r') => (.cons n .file es, r')
    | "d" :: n :: "(" :: r =>
      match parseEntries fuel r with
      | some (sub, ")" :: r') => (parseEntries fuel r').map fun (es, r'') => (.cons n (.dir sub) es, r'')
      | _ => none
    | _ => some (.nil, toks)
end

def splitOnTok (tok : String) (l : List String) : List (List String) :=
  l.foldr (fun x acc => if x = tok then [] :: acc else match acc with | a :: r => (x :: a) :: r | [] => [[x]]) [[]]

def showFound : Option (Nat × Found) → String
  | none => "none"
  | some (i, .pkg) => s!"{i} pkg"
  | some (i, .mod) => s!"{i} mod"

def comps (s : String) (sep : String) : List String := (s.splitOn sep).filter (· ≠ "")

def step (roots : List Entries) (w : List String) : List Entries × List String :=
  match w with
  | "roots" :: toks =>
    let parts := splitOnTok ";" toks
    match parts.mapM (fun p => match parseEntries 4000 p with | some (es, []) => some es | _ => none) with
    | some rs => (rs, [])
    | none => (roots, ["bad-op"])
  | ["lookup", name] => (roots, [showFound (lookup roots (comps name "."))])
  | ["pathfinder", name] => (roots, [showFound (pathFinder roots (comps name "."))])
  | ["name", i, path] =>
    match i.toNat? with
    | some i => match roots[i]? with
      | some r => (roots, [".".intercalate (nameOfPath r (comps path "/"))])
      | none => (roots, ["bad-op"])
    | none => (roots, ["bad-op"])
  | ["walk", i, path] =>
    match i.toNat? with
    | some i => match roots[i]? with
      | some r => match descend r (comps path "/") with
        | some pkg => (roots, [" ".intercalate ((walk pkg).map fun p => "/".intercalate p)])
        | none => (roots, ["nodir"])
      | none => (roots, ["bad-op"])
    | none => (roots, ["bad-op"])
  | ["walkpkgs", i, path] =>
    match i.toNat? with
    | some i => match roots[i]? with
      | some r => match descend r (comps path "/") with
        | some pkg => (roots, [" ".intercalate ((walkPkgs pkg).map fun p => "/".intercalate p)])
        | none => (roots, ["nodir"])
      | none => (roots, ["bad-op"])
    | none => (roots, ["bad-op"])
  | _ => (roots, ["bad-op"])

end LPVerif.Driver.FS
