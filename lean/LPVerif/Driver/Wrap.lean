import LPVerif.Model.Gen
import LPVerif.Model.Callable
/-! Line-protocol front end to `Model.Gen` (scripted generators and their wrappers) and `Model.Callable` (C03, C16). -/
namespace LPVerif.Driver.Wrap
open LPVerif LPVerif.Gen LPVerif.Callable

/-! ## generators -/
def parseExn (s : String) : Option Exn :=
  if s = "g" then some .genExit else if s = "s" then some .stopIter else if s = "t" then some .typeErr
  else if s = "r" then some .runtimeErr
  else if s.startsWith "u" then (s.drop 1).toNat?.map .user else none

def showExn : Exn → String
  | .genExit => "g" | .stopIter => "s" | .typeErr => "t" | .runtimeErr => "r" | .user n => s!"u{n}"

def parseAct (s : String) : Option Act :=
  if s = "re" then some .retEcho
  else if s = "rr" then some .reraise
  else if s = "r-" then some (.ret none)
  else if s.startsWith "r" then (s.drop 1).toNat?.map (fun v => .ret (some v))
  else if s.startsWith "x" then (parseExn (s.drop 1).toString).map .raise
  else if s.startsWith "e" then (s.drop 1).toNat?.map .yieldEcho
  else if s.startsWith "y" then
    match (s.drop 1).toString.splitOn "," with
    | [v, n] => match v.toNat?, n.toNat? with
      | some v, some n => some (.yieldC v n)
      | _, _ => none
    | _ => none
  else none

def parseRow (s : String) : Option Row :=
  match s.splitOn ";" with
  | [a, b, c] => match parseAct a, parseAct b, parseAct c with
    | some a, some b, some c => some ⟨a, b, c⟩
    | _, _, _ => none
  | _ => none

def parseOp (s : String) : Option Op :=
  if s = "c" then some .close
  else if s = "s-" then some (.send none)
  else if s.startsWith "s" then (s.drop 1).toNat?.map (fun v => .send (some v))
  else if s.startsWith "t" then (parseExn (s.drop 1).toString).map .throw
  else none

def showRes : Res → String
  | .yielded v => s!"Y{v}"
  | .stop none => "S-"
  | .stop (some v) => s!"S{v}"
  | .raised e => "R" ++ showExn e
  | .closedOk => "C"

def runGen (kind : String) (sc : List Row) (ops : List Op) : Option (List Res) :=
  let b := scriptBody sc
  if kind = "raw" then some (runOps .gen b .fresh ops)
  else if kind = "rawcoro" then some (runOps .coro b .fresh ops)
  else if kind = "rawagen" then some (runOps .agen b .fresh ops)
  else if kind = "agen" then some (runOps .agen (wrapGen b) .fresh ops)
  else if kind = "gen" then some (runOps .gen (wrapGen b) .fresh ops)
  else if kind = "coro" then some (runOps .coro (delegate b) .fresh ops)
  else if kind = "pinned" then some (runOps .gen (wrapGenPinned b) .fresh ops)
  else none

/-! ## towers -/
def parseKind : String → Option Kind
  | "plain" => some .plain | "gen" => some .gen | "coro" => some .coro | "agen" => some .agen | _ => none
def showKind : Kind → String
  | .plain => "plain" | .gen => "gen" | .coro => "coro" | .agen => "agen"

def takeNats : Nat → List String → Option (List Nat × List String)
  | 0, r => some ([], r)
  | n + 1, t :: r => match t.toNat?, takeNats n r with
    | some v, some (vs, r') => some (v :: vs, r')
    | _, _ => none
  | _ + 1, [] => none

mutual
def parseC : Nat → List String → Option (C × List String)
  | 0, _ => none
  | fuel + 1, toks =>
    match toks with
    | "fn" :: id :: k :: r => match id.toNat?, parseKind k with
      | some id, some k => some (.fn id k, r)
      | _, _ => none
    | "obj" :: id :: f :: r => match id.toNat?, f.toNat? with
      | some id, some f => some (.obj id f, r)
      | _, _ => none
    | "w" :: p :: r => match p.toNat?, parseC fuel r with
      | some p, some (c, r') => some (.wrapper p c, r')
      | _, _ => none
    | "cm" :: r => (parseC fuel r).map fun (c, r') => (.classm c, r')
    | "sm" :: r => (parseC fuel r).map fun (c, r') => (.staticm c, r')
    | "bd" :: s :: r => match s.toNat?, parseC fuel r with
      | some s, some (c, r') => some (.bound c s, r')
      | _, _ => none
    | "pa" :: n :: r => match n.toNat? with
      | some n => match takeNats n r with
        | some (a, r') => (parseC fuel r').map fun (c, r'') => (.partial_ c a, r'')
        | none => none
      | none => none
    | "pm" :: n :: r => match n.toNat? with
      | some n => match takeNats n r with
        | some (a, r') => (parseC fuel r').map fun (c, r'') => (.partialm c a, r'')
        | none => none
      | none => none
    | "pr" :: doc :: name :: r => match doc.toNat?, name.toNat? with
      | some doc, some name =>
        match parseOC fuel r with
        | some (g, r1) => match parseOC fuel r1 with
          | some (s, r2) => match parseOC fuel r2 with
            | some (d, r3) => some (.prop g s d doc name, r3)
            | none => none
          | none => none
        | none => none
      | _, _ => none
    | "cp" :: a :: r =>
      let at_ := if a = "-" then some none else a.toNat?.map some
      match at_, parseC fuel r with
      | some at_, some (c, r') => some (.cached c at_, r')
      | _, _ => none
    | _ => none
def parseOC : Nat → List String → Option (OC × List String)
  | 0, _ => none
  | fuel + 1, toks =>
    match toks with
    | "none" :: r => some (.none, r)
    | _ => (parseC fuel toks).map fun (c, r) => (.some c, r)
end

mutual
def showC : C → List String
  | .fn id k => ["fn", toString id, showKind k]
  | .obj id f => ["obj", toString id, toString f]
  | .wrapper p c => ["w", toString p] ++ showC c
  | .classm c => "cm" :: showC c
  | .staticm c => "sm" :: showC c
  | .bound c s => ["bd", toString s] ++ showC c
  | .partial_ c a => ["pa", toString a.length] ++ a.map toString ++ showC c
  | .partialm c a => ["pm", toString a.length] ++ a.map toString ++ showC c
  | .prop g s d doc name => ["pr", toString doc, toString name] ++ showOC g ++ showOC s ++ showOC d
  | .cached c a => ["cp", match a with | none => "-" | some n => toString n] ++ showC c
def showOC : OC → List String
  | .none => ["none"]
  | .some c => showC c
end

def parseNats (s : String) : Option (List Nat) :=
  if s = "-" then some [] else (s.splitOn ",").mapM String.toNat?

def parseAccess : List String → Option (Access × List String)
  | "call" :: a :: r => (parseNats a).map fun a => (.call a, r)
  | "get" :: i :: r => i.toNat?.map fun i => (.get i, r)
  | "set" :: i :: v :: r => match i.toNat?, v.toNat? with
    | some i, some v => some (.set i v, r)
    | _, _ => none
  | "del" :: i :: r => i.toNat?.map fun i => (.del i, r)
  | _ => none

def showEv : Ev → String
  | .run f a d => s!"run:{f}:" ++ ",".intercalate (a.map toString) ++ s!":{d}"
  | .err => "err"

def step (sc : List Row) (w : List String) : List Row × List String :=
  match w with
  | ["script", rows] =>
    match (rows.splitOn "|").mapM parseRow with
    | some sc' => (sc', [])
    | none => (sc, ["bad-op"])
  | "run" :: kind :: ops =>
    match ops.mapM parseOp with
    | some ops => match runGen kind sc ops with
      | some res => (sc, [" ".intercalate (res.map showRes)])
      | none => (sc, ["bad-op"])
    | none => (sc, ["bad-op"])
  | "wrap" :: p :: toks =>
    match p.toNat?, parseC 64 toks with
    | some p, some (c, []) => (sc, [" ".intercalate (showC (wrap p c))])
    | _, _ => (sc, ["bad-op"])
  | "invoke" :: p :: rest =>
    match p.toNat?, parseAccess rest with
    | some p, some (a, toks) =>
      match parseC 64 toks with
      | some (c, []) => (sc, [" ".intercalate ((invoke p c a 0).map showEv)])
      | _ => (sc, ["bad-op"])
    | _, _ => (sc, ["bad-op"])
  | "registered" :: p :: toks =>
    match p.toNat?, parseC 64 toks with
    | some p, some (c, []) => (sc, [" | ".intercalate ((registered p c).map fun f => " ".intercalate (showC f))])
    | _, _ => (sc, ["bad-op"])
  | _ => (sc, ["bad-op"])

end LPVerif.Driver.Wrap
