import LPVerif.Driver.Loop
import LPVerif.Driver.Timer
def main : IO Unit := LPVerif.Driver.runDriver LPVerif.Driver.Timer.step (LPVerif.Timer.init LPVerif.Driver.Timer.prog)
