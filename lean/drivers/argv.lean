import LPVerif.Driver.Loop
import LPVerif.Driver.Argv
def main : IO Unit := LPVerif.Driver.runDriver LPVerif.Driver.Argv.step ()
