import LPVerif.Driver.Loop
import LPVerif.Driver.Skel
def main : IO Unit := LPVerif.Driver.runDriver LPVerif.Driver.Skel.step ()
