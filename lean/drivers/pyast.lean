import LPVerif.Driver.Loop
import LPVerif.Driver.PyAst
def main : IO Unit := LPVerif.Driver.runDriver LPVerif.Driver.PyAst.step ()
