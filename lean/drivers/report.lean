import LPVerif.Driver.Loop
import LPVerif.Driver.Report
def main : IO Unit := LPVerif.Driver.runDriver LPVerif.Driver.Report.step {}
