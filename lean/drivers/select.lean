import LPVerif.Driver.Loop
import LPVerif.Driver.Select
def main : IO Unit := LPVerif.Driver.runDriver LPVerif.Driver.Select.step {}
