import LPVerif.Driver.Loop
import LPVerif.Driver.Prof
def main : IO Unit := LPVerif.Driver.runDriver LPVerif.Driver.Prof.step {}
