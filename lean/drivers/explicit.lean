import LPVerif.Driver.Loop
import LPVerif.Driver.Explicit
def main : IO Unit := LPVerif.Driver.runDriver LPVerif.Driver.Explicit.step {}
