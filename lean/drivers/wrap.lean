import LPVerif.Driver.Loop
import LPVerif.Driver.Wrap
def main : IO Unit := LPVerif.Driver.runDriver LPVerif.Driver.Wrap.step []
