import LPVerif.Driver.Loop
import LPVerif.Driver.FS
def main : IO Unit := LPVerif.Driver.runDriver LPVerif.Driver.FS.step []
