"""Worker for C10 / C11: real show_text on generated statistics and source files; also renders, with CPython's own `%`, the
candidate cell strings the Lean layout model takes as inputs.
JSON in: {"cases": [{"files": {name: text}, "stats": [[file, first, name, [[line, hits, time], ...]], ...], "unit": float,
                     "output_unit": float|None, "opts": {"stripzeros":..,"details":..,"summarize":..,"sort":..}}]}"""
import inspect
import io
import json
import linecache
import os
import sys
import tempfile

from line_profiler import line_profiler as lp

import reportlib


def run_case(c, d):
    if c.get('earlier_files'):
        # the same paths held other text when an earlier report of this process read them (the files were edited since)
        for name, text in c['earlier_files'].items():
            with open(os.path.join(d, name), 'w', encoding='utf-8', newline='') as fh:
                fh.write(text)
        early = {(os.path.join(d, fn), first, name): [(first, 1, 1)] for fn, first, name, entries in c['stats'] if fn in c['earlier_files']}
        try:
            lp.show_text(early, c['unit'], stream=io.StringIO())
        except Exception:   # noqa
            pass
    for name, text in c['files'].items():
        with open(os.path.join(d, name), 'w', encoding='utf-8', newline='') as fh:
            fh.write(text)
    # a file that merely has the *name* under which a vanished file was recorded (relative), in a directory of the import path
    onpath = os.path.join(d, 'onpath')
    os.makedirs(onpath, exist_ok=True)
    with open(os.path.join(onpath, 'relgone.py'), 'w') as fh:
        fh.write('# an unrelated file\ndef other():\n    return 0\n\n\nX = 1\n')
    sys.path.insert(0, onpath)
    try:
        return run_case2(c, d)
    finally:
        sys.path.remove(onpath)


def run_case2(c, d):
    stats = {}
    for fn, first, name, entries in c['stats']:
        path = fn if fn.startswith(('rel', '<')) else os.path.join(d, fn)
        stats[(path, first, name)] = [tuple(e) for e in entries]
    unit = c['unit']
    ou = c['output_unit']
    o = c['opts']
    buf = io.StringIO()
    err = None
    try:
        lp.show_text(stats, unit, output_unit=ou, stream=buf, stripzeros=o['stripzeros'], details=o['details'],
                     summarize=o['summarize'], sort=o['sort'], rich=False)
    except Exception as e:   # noqa
        err = '%s: %s' % (type(e).__name__, e)
    return {'text': buf.getvalue(), 'error': err, 'model_lines': reportlib.model_lines(stats, unit, ou, o), 'dir': d}


def main():
    payload = json.load(sys.stdin)
    out = []
    for c in payload['cases']:
        with tempfile.TemporaryDirectory(prefix='c10-', dir=os.environ.get('LPVERIF_SCRATCH', '/var/tmp')) as d:
            try:
                out.append(run_case(c, d))
            except Exception:
                import traceback
                out.append({'harness_error': traceback.format_exc()})
    sys.stdout.write('\n{"lpverif": %s}\n' % json.dumps({'results': out}))


main()
