"""C02 calibration test (real clock): time * unit is seconds.  A test, not a proof: Lean does not model the OS clock."""
import json
import sys
import time

import line_profiler


def work():
    time.sleep(0.03)
    return 1


def main():
    json.load(sys.stdin)
    p = line_profiler.LineProfiler()
    w = p(work)
    t0 = time.perf_counter()
    w()
    wall = time.perf_counter() - t0
    st = p.get_stats()
    (key, entries), = st.timings.items()
    sleep_line = [e for e in entries if e[0] == work.__code__.co_firstlineno + 1]
    secs = sleep_line[0][2] * st.unit if sleep_line else None
    total = sum(e[2] for e in entries) * st.unit
    ok = secs is not None and 0.03 * 0.95 <= secs <= wall + 1e-4 and total <= wall + 1e-4 and all(e[2] >= 0 for e in entries)
    out = {'ok': bool(ok), 'unit': st.unit, 'sleep_line_seconds': secs, 'function_total_seconds': total, 'wall_seconds': wall}
    sys.stdout.write('\n{"lpverif": %s}\n' % json.dumps(out))


main()
