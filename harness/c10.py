"""C10 — the text report shows every recorded number at the right source line.
Proof: Props/C10.lean over Model.Report (rows_complete, lhs_fixed_width, hits_cell_exact, order_perm, sorted_by_time,
skipzero_exact, summary_once) with the column sizes / formats / strip conditions regenerated from show_func / show_text.
Tie: K10 — the whole text of the real show_text equals the model's layout fed with CPython-rendered cell candidates, for generated
statistics (magnitudes 0 … 1e18, units, options) over real source files of many shapes.
Oracle: an independent parser reads the real report back: every function once, every recorded line on the row of its own line
number next to that line of the file, hits exact below 1e9, time / per-hit / percentage equal to the data at the printed precision,
skip-zero / sort / summarize select and order only."""
import concurrent.futures as cf
import json
import re

from common import run_worker, lean_driver

LEVEL = 'proof'

SRC_A = '''\
import functools


def plain(n):
    total = 0
    for i in range(n):
        total += i
    return total


@functools.lru_cache(maxsize=None)
def decorated(x,
              y=2,
              *args):
    """docstring
    over two lines"""
    z = (x +
         y +
         3)
    return z


def outer(k):
    def inner(j):
        return j * 2
# a comment in column 0 inside the function
    s = "a string\\
 continued in column 0"
    return inner(k) + len(s)


class K:
    @staticmethod
    def sm(a): return a + 1

    def method(self, b):
        if b:
            return b
        else:
            return -b


oneliner = lambda q: q + 1


def unicode_ünï(ß):
    \tx = 'tab-indented body: αβγ'
    \treturn x
'''
SRC_B = 'def last_without_newline(v):\n    w = v * 2\n    return w'
# characters that str.splitlines() takes for line ends and the compiler does not: a form-feed page separator between definitions (Emacs / GNU
# style), vertical tab, FS/GS/RS, NEL, U+2028, U+2029 inside string literals and comments — the lines of a file are what `\\n` separates
SRC_C = ('def before_page(a):\n    return a + 1\n\x0c\ndef after_page(b):\n    s = "nel \x85 fs \x1c vt \x0b ls \u2028 ps \u2029 end"\n'
         '    # comment with gs \x1d and rs \x1e and ls \u2028 inside\n    t = b + len(s)\n    return t\n\x0c\n\ndef last_page(c):\n    u = c * 3\n    return u\n\n\n'
         # lambdas in a table, one of them over several lines: its recorded lines lie after the line it starts on
         'DISPATCH = {\n    "triple": lambda x: (\n        x * 3\n        + 1\n    ),\n    "inc": lambda y: y + 2,\n}\n'
         # two code objects that start on one line of one file (a one-line def returning a lambda): told apart by name only
         'def make(k): return lambda x: x + k\n')

def funcs_of(fname, src):
    """(file, co_firstlineno, name, last line) of every function / lambda in the source"""
    import ast
    out = []
    tree = ast.parse(src)
    for node in ast.walk(tree):
        if isinstance(node, (ast.FunctionDef, ast.AsyncFunctionDef)):
            first = min([node.lineno] + [d.lineno for d in node.decorator_list])
            out.append((fname, first, node.name, node.end_lineno))
        elif isinstance(node, ast.Lambda):
            out.append((fname, node.lineno, '<lambda>', node.end_lineno))
    return sorted(out, key=lambda t: t[1])


FUNCS_A = funcs_of('mod_a.py', SRC_A.replace('\\t', '\t'))
FUNCS_B = funcs_of('mod_b.py', SRC_B)
FUNCS_C = funcs_of('mod_c.py', SRC_C)
SAME_LINE = [f[1] for f in FUNCS_C if f[2] == 'make'][0]
FUNCS_MISSING = [('gone.py', 10, 'vanished', 14), ('relgone.py', 3, 'lost', 6), ('<string>', 1, 'made_by_exec', 4), ('<doctest mod.f[0]>', 1, 'f', 2)]       # relgone.py: recorded under a relative name; a file of that name lies on sys.path
HITS = [1, 2, 7, 40, 123456789, 999999999, 1000000000, 1234567890123, 10 ** 15]
TIMES = [0, 1, 37, 999, 12345, 10 ** 6, 987654321, 10 ** 12, 10 ** 15, 10 ** 18]
UNITS = [1e-9, 1e-6, 1e-7, 1.0]
OUNITS = [None, 1e-6, 1e-3, 1.0, 1e-9]


def make_case(rng):
    pool = FUNCS_A + FUNCS_B + FUNCS_C + (FUNCS_MISSING if rng.chance(1, 3) else [])       # (pseudo file names of exec-made code are missing files too)
    k = rng.below(len(pool)) + 1
    chosen = rng.sample(pool, k)
    if rng.fork('same-line').chance(1, 3):
        chosen += [f for f in FUNCS_C if f[1] == SAME_LINE and f not in chosen]
    stats = []
    for (fn, first, name, last) in chosen:
        mode = rng.below(10)
        entries = []
        if mode == 0:
            entries = []                                   # registered, never run
        else:
            lines = [l for l in range(first, last + 1) if rng.chance(2, 3)] or [first]
            zero_time = mode == 1                          # ran, but too fast for the clock: hits > 0, all times 0
            small = mode >= 6
            for l in lines:
                h = rng.choice(HITS[:4] if small else HITS)
                t = 0 if zero_time else rng.choice(TIMES[:6] if small else TIMES)
                entries.append([l, h, t])
        stats.append([fn, first, name, entries])
    # dict order of the stats is arbitrary: shuffle
    rng.shuffle(stats)
    opts = {'stripzeros': rng.chance(1, 2), 'details': rng.chance(4, 5), 'summarize': rng.chance(1, 2), 'sort': rng.chance(1, 2)}
    r2 = rng.fork('zero-rows')
    if opts['stripzeros'] and r2.chance(1, 3):
        # hand-built / loaded statistics may carry rows with 0 hits (get_stats never produces them); a function with only such rows is
        # "not run" and hidden by --skip-zero everywhere (without --skip-zero show_func would divide by its 0 hits: outside the domain)
        for st in stats:
            if r2.chance(1, 2):
                st[3] = [[l, 0, 0] for l in range(st[1], st[1] + 1 + r2.below(3))]
    case = {'files': {'mod_a.py': SRC_A.replace('\\t', '\t'), 'mod_b.py': SRC_B, 'mod_c.py': SRC_C}, 'stats': stats, 'unit': rng.choice(UNITS),
            'output_unit': rng.choice(OUNITS), 'opts': opts}
    r3 = rng.fork('edited')
    if r3.chance(1, 5):
        # an earlier report in the same process saw other text under these paths (every line different, the files a few lines shorter)
        k = r3.below(4) + 1
        case['earlier_files'] = {n: '\n'.join('# earlier text %d' % i for i in range(max(1, t.count('\n') - k))) + '\n' for n, t in case['files'].items()}
    return case


# ------------------------------------------------------------------------------------------------- independent parser
def close_enough(cell, value, kind):
    """does the printed cell agree with the exact value at the printed precision?"""
    cell = cell.strip()
    try:
        shown = float(cell)
    except ValueError:
        return False
    if 'e' in cell or 'E' in cell or kind == 'g':
        return abs(shown - value) <= 6e-3 * max(abs(value), 1e-300)      # %5.3g: three significant digits
    if '.' in cell and len(cell.split('.')[1]) == 1:
        return abs(shown - value) <= 0.05 + 1e-9 * abs(value)             # %5.1f
    return abs(shown - value) <= 6e-3 * max(abs(value), 1e-300)          # %5.3g without exponent


def parse_report(text):
    """-> (unit, [function blocks], summary lines)"""
    lines = text.split('\n')
    m = re.match(r'Timer unit: (\S+) s$', lines[0])
    unit = float(m.group(1)) if m else None
    blocks, summary = [], []
    i = 1
    while i < len(lines):
        ln = lines[i]
        if ln.startswith('Total time: '):
            b = {'total': float(ln[len('Total time: '):-2]), 'file': None, 'func': None, 'start': None, 'rows': [], 'missing': False}
            i += 1
            if lines[i].startswith('File: '):
                b['file'] = lines[i][6:]
                mm = re.match(r'Function: (.*) at line (\d+)$', lines[i + 1])
                b['func'], b['start'] = mm.group(1), int(mm.group(2))
                i += 2
            else:
                b['missing'] = True
                b['file'] = lines[i + 1][len('Could not find file '):]
                i += 5
            assert lines[i] == '', repr(lines[i])
            header = lines[i + 1]
            assert set(lines[i + 2]) == {'='} and len(lines[i + 2]) == len(header)
            # column right edges from the right-justified header words
            edges = [header.index('Line #') + 6, header.index('Hits') + 4, header.index('Time') + 4, header.index('Per Hit') + 7,
                     header.index('% Time') + 6]
            b['edges'] = edges
            i += 3
            while i < len(lines) and lines[i] != '':
                r = lines[i]
                cells = [r[:edges[0]], r[edges[0]:edges[1]], r[edges[1]:edges[2]], r[edges[2]:edges[3]], r[edges[3]:edges[4]]]
                b['rows'].append({'lineno': int(cells[0]), 'hits': cells[1].strip(), 'time': cells[2].strip(), 'perhit': cells[3].strip(),
                                  'percent': cells[4].strip(), 'sep': r[edges[4]:edges[4] + 2], 'src': r[edges[4] + 2:]})
                i += 1
            blocks.append(b)
        elif re.match(r'\s*[\d.e+]+ seconds - ', ln):
            mm = re.match(r'\s*([\d.e+]+) seconds - (.*):(\d+) - (.*)$', ln)
            summary.append({'seconds': float(mm.group(1)), 'file': mm.group(2), 'start': int(mm.group(3)), 'func': mm.group(4)})
        i += 1
    return unit, blocks, summary


def oracle(case, r):
    bad = []
    if r['error']:
        return [{'show_text raised': r['error']}]
    text = r['text']
    try:
        unit_shown, blocks, summary = parse_report(text)
    except Exception as e:   # noqa
        return [{'report_not_parseable': repr(e), 'text_head': text[:400]}]
    o = case['opts']
    unit = case['unit']
    ou = case['output_unit'] if case['output_unit'] is not None else unit
    if unit_shown is None or abs(unit_shown - ou) > 1e-6 * ou:
        bad.append({'timer_unit_line': unit_shown, 'expected': ou})
    scalar = unit / ou
    stats = {(fn, first, name): entries for fn, first, name, entries in case['stats']}
    files = case['files']
    # which functions must be shown
    def hits_of(e):
        return sum(x[1] for x in e)
    def time_of(e):
        return sum(x[2] for x in e)
    want = [k for k, e in stats.items() if not (o['stripzeros'] and hits_of(e) == 0)]
    shown = [(b['file'].rsplit('/', 1)[-1], b['start'], b['func']) for b in blocks if not b['missing']]
    shown_missing = [b['file'].rsplit('/', 1)[-1] for b in blocks if b['missing']]
    if o['details']:
        want_present = [k for k in want if k[0] in files]
        want_missing = [k[0] for k in want if k[0] not in files]
        if sorted(shown) != sorted(want_present) or sorted(shown_missing) != sorted(want_missing):
            bad.append({'functions_in_details': shown + shown_missing, 'expected_exactly_once_each': want_present + want_missing})
        # order
        order = [(b['file'].rsplit('/', 1)[-1], b['func']) for b in blocks]
        if o['sort']:
            tots = [b['total'] for b in blocks]
            if any(tots[i] > tots[i + 1] * (1 + 1e-9) for i in range(len(tots) - 1)):
                bad.append({'not_sorted_by_total_time': tots})
    else:
        if blocks:
            bad.append({'details_shown_without_details': len(blocks)})
    if o['summarize']:
        got = sorted((s['file'].rsplit('/', 1)[-1], s['start'], s['func']) for s in summary)
        if got != sorted(want):
            bad.append({'summary_functions': got, 'expected_exactly_once_each': sorted(want)})
        if o['sort']:
            secs = [s['seconds'] for s in summary]
            if any(secs[i] > secs[i + 1] + 0.011 for i in range(len(secs) - 1)):
                bad.append({'summary_not_sorted': secs})
    elif summary:
        bad.append({'summary_without_summarize': len(summary)})
    # per function: rows
    used = set()
    for b in blocks:
        if b['missing']:
            # a block without its source names only the file: among the functions of that file not matched yet, the one whose recorded
            # lines are the numbered rows of the block (ties: the closest total time)
            cands = [k for k in stats if k[0] == b['file'].rsplit('/', 1)[-1] and k not in used and not (o['stripzeros'] and hits_of(stats[k]) == 0)]
            if not cands:
                continue
            numbered = {row['lineno'] for row in b['rows'] if row['hits']}
            key = min(cands, key=lambda k: (0 if {e[0] for e in stats[k]} == numbered else 1, abs(time_of(stats[k]) * unit - b['total'])))
            used.add(key)
        else:
            key = (b['file'].rsplit('/', 1)[-1], b['start'], b['func'])
        entries = stats.get(key)
        if entries is None:
            continue
        if not b['missing'] and key[0] not in files:
            bad.append({'function': key, 'source_listed_for_a_file_that_does_not_exist': [row['src'] for row in b['rows']][:3]})
        total = time_of(entries)
        if not close_enough('%g' % b['total'], total * unit, 'g') and abs(b['total'] - total * unit) > 1e-6 * max(total * unit, 1e-300):
            bad.append({'function': key, 'total_time_line': b['total'], 'data': total * unit})
        rows = {}
        for row in b['rows']:
            if row['lineno'] in rows:
                bad.append({'function': key, 'line_number_twice': row['lineno']})
            rows[row['lineno']] = row
        src_lines = files[key[0]].split('\n') if key[0] in files else None
        for (l, h, t) in entries:
            row = rows.get(l)
            if row is None:
                bad.append({'function': key, 'recorded_line_not_in_report': l})
                continue
            if h < 10 ** 9:
                if row['hits'] != str(h):
                    bad.append({'function': key, 'line': l, 'hits_cell': row['hits'], 'hits': h})
            elif not close_enough(row['hits'], h, 'g'):
                bad.append({'function': key, 'line': l, 'hits_cell': row['hits'], 'hits': h})
            if not close_enough(row['time'], t * scalar, 'f'):
                bad.append({'function': key, 'line': l, 'time_cell': row['time'], 'time_in_output_unit': t * scalar})
            if not close_enough(row['perhit'], t * scalar / h, 'f'):
                bad.append({'function': key, 'line': l, 'perhit_cell': row['perhit'], 'value': t * scalar / h})
            if total:
                if not close_enough(row['percent'], 100.0 * t / total, 'f'):
                    bad.append({'function': key, 'line': l, 'percent_cell': row['percent'], 'value': 100.0 * t / total})
            elif row['percent'] != '':
                bad.append({'function': key, 'line': l, 'percent_cell_with_zero_total': row['percent']})
        recorded = {e[0] for e in entries}
        for l, row in rows.items():
            if l not in recorded and (row['hits'] or row['time'] or row['perhit'] or row['percent']):
                bad.append({'function': key, 'unrecorded_line_carries_numbers': l, 'row': row})
            if src_lines is not None and not b['missing']:
                exp = src_lines[l - 1].rstrip('\r') if l - 1 < len(src_lines) else None
                if row['src'] != exp:
                    bad.append({'function': key, 'line': l, 'source_text_shown': row['src'], 'source_text_in_file': exp})
    return bad


def run(ctx):
    ctx.prove('LPVerif.Props.C10', 'LPVerif/Props/C10.lean', drivers=('Report',))
    build = ctx.build()
    n = 500 if ctx.quick else 8000
    if ctx.broken:
        n *= 3
    cases = [make_case(ctx.rng.fork('r%d' % i)) for i in range(n)]
    ctx.log('%d generated reports' % len(cases))
    nw = 8
    parts = [cases[i::nw] for i in range(nw)]
    with cf.ThreadPoolExecutor(max_workers=nw) as ex:
        outs = list(ex.map(lambda p: run_worker(build, 'c10_worker.py', {'cases': p}, 1200), parts))
    res = [None] * len(cases)
    for i, o in enumerate(outs):
        for j, r in enumerate(o['results']):
            res[i + j * nw] = r
    model = None
    if getattr(ctx, 'driver_ok', True):
        lines = []
        for r in res:
            if 'model_lines' in r:
                lines += r['model_lines']
        mo = lean_driver('report', lines)
        model = []
        k = 0
        for r in res:
            if 'model_lines' in r:
                model.append(bytes.fromhex(mo[k]).decode('utf-8') if mo[k] not in ('bad-op',) else None)
                k += 1
            else:
                model.append(None)
    kdiff = 0
    nontrivial = set()
    dist = {'stripzeros': 0, 'sort': 0, 'summarize': 0, 'no-details': 0, 'missing-file': 0, 'sci-notation': 0}
    for i, (c, r) in enumerate(zip(cases, res)):
        if 'harness_error' in r:
            ctx.broken.append(('harness', r['harness_error'][-1500:]))
            continue
        bad = oracle(c, r)
        for b in bad[:2]:
            ctx.fail('the report does not show the recorded numbers at the right place', {'finding_class': None, 'case': c, 'difference': b})
        if model is not None and model[i] != r['text']:
            kdiff += 1
            if not bad:
                a, bb = model[i] or '', r['text']
                pos = next((j for j in range(min(len(a), len(bb))) if a[j] != bb[j]), min(len(a), len(bb)))
                ctx.broken.append(('K10 correspondence', 'first difference at %d: model %r real %r (opts %s)' % (pos, a[max(0, pos - 60):pos + 60], bb[max(0, pos - 60):pos + 60], c['opts'])))
        for k in ('stripzeros', 'sort', 'summarize'):
            dist[k] += 1 if c['opts'][k] else 0
        dist['no-details'] += 0 if c['opts']['details'] else 1
        dist['missing-file'] += 1 if any(s[0] == 'gone.py' for s in c['stats']) else 0
        dist['sci-notation'] += 1 if 'e+' in r['text'] else 0
        if sum(len(s[3]) for s in c['stats']) >= 3:
            nontrivial.add(json.dumps(c['stats']) + json.dumps(c['opts']))
    ctx.coverage.update({
        'evaluations': len(cases), 'distinct_nontrivial': len(nontrivial),
        'rule': 'statistics over 9 functions of real source files (decorated with multi-line signature and docstring, nested def with column-0 comment and '
                'string, class methods, one-liner, lambda, non-ASCII name with tab-indented body, file without final newline, missing file); per function: never run / '
                'hits with zero time / hits in {1..1e15} and times in {0..1e18}; 4 units x 5 output units x 16 option sets; dict order shuffled; '
                'non-trivial = at least 3 recorded lines',
        'traces_validated_against_impl': len(cases) - kdiff, 'correspondence_disagreements': kdiff, 'distribution': dist})
    ctx.coverage['samples'].append({'case': {k: v for k, v in cases[-1].items() if k != 'files'}, 'report_head': res[-1].get('text', '')[:1200]})
    ctx.assumptions += ['numeric rendering is CPython\'s `%` operator: the layout model takes the rendered candidates as inputs (the oracle checks them against the data)',
                        'the source block is inspect.getblock / linecache of CPython (modelled as an input); entries have hits >= 1 (C12: show_func divides by hits)',
                        'rich output is not modelled']
    return ctx.finish('Lean: layout theorems over Model.Report with tables regenerated from the tree; K10: whole-text equality with the real show_text; '
                      'oracle = independent parser of the real report against the data')


def replay(ctx, path):
    data = json.load(open(path))
    c = data.get('witness', data)['case']
    r = run_worker(ctx.build(), 'c10_worker.py', {'cases': [c]}, 600)['results'][0]
    mo = lean_driver('report', r['model_lines'])
    print(json.dumps({'oracle': oracle(c, r), 'model_equals_real': bytes.fromhex(mo[0]).decode() == r['text']}, indent=1))
    print(r['text'][:3000])
    return 0
