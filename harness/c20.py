"""C20 — %lprun profiles exactly the named functions for exactly one statement.
Proof: Props/C20.lean over the control skeletons of `lprun` and `runctx` dumped from the tree (builtins_restored,
exits_absorbed_output_produced, outputs_from_one_rendering, one_statement, for every environment).
Tie: K20 — the real magic in an in-process IPython shell (option subsets x statement endings x builtins.profile present or not)
against `exec` of the dumped skeleton.
Oracle: registered functions = the named ones; statistics = closed-form counts of the statement's calls; nothing recorded after the
statement; pager text = -T file = the live profiler's own print_stats with -s/-u; -D file loads to the same timings; -r returns the
profiler; builtins and the user namespace as before."""
import itertools
import json

import kplib
from common import run_worker, lean_driver

LEVEL = 'proof'

EXPECT = {
    'f': ('cell:f', [[1, 1], [2, 5], [3, 4], [4, 1]]),
    'g': ('cell:g', [[1, 2]]),
    'K.meth': ('cell:meth', [[1, 1]]),
    'h': ('cell:h', [[1, 1]]),
    'sq': ('cell:<lambda>@18', [[0, 1]]),
    'cube': ('cell:<lambda>@19', [[0, 2]]),
    # a name bound to a functools.wraps wrapper: the function named is the wrapper (what calling the name runs), not what it wraps
    'deco': ('cell:wrapper', [[2, 1], [3, 1]]),
}
MOD_EXPECT = {'lpv_mod.py:mf': [[1, 1], [2, 4], [3, 3], [4, 1]], 'lpv_mod.py:mg': [[1, 1]], 'lpv_mod.py:run': [[1, 1]]}     # not: lpv_base.Base.helper, inherited by lpv_mod.Child


def cases(ctx):
    out = []
    fsets = [[], ['f'], ['g'], ['f', 'g'], ['K.meth'], ['f', 'K.meth', 'h'], ['sq', 'cube'], ['cube', 'f', 'sq'], ['deco'], ['deco', 'g']]
    msets = [[], ['lpv_mod'], ['lpv_pkg.sub'], ['lpv_mod', 'lpv_pkg.sub']]
    optsets = [[], ['-r'], ['-r', '-s'], ['-r', '-u 1e-3'], ['-s'], ['-r', '-s', '-u 1e-6']]
    kinds = ['none', 'exit', 'kbint', 'error']
    allc = [dict(funcs=f, mods=m, opts=o, stmt_kind=k, pre_profile=p, D=d, T=t)
            for f in fsets for m in msets for o in optsets for k in kinds for p in (False, True) for d in (False, True) for t in (False, True)]
    if ctx.quick:
        base = [c for c in allc if c['opts'] == ['-r'] and c['funcs'] in (['f'], ['f', 'K.meth', 'h']) and c['D'] and c['T']]
        allc = base + ctx.rng.fork('c20').sample(allc, 120)
    # thorough tier (and a broken obligation): the whole product
    for i, c in enumerate(allc):
        c = dict(c)
        c['id'] = i
        out.append(c)
    return out


def oracle(c, r):
    bad = []
    kind = c['stmt_kind']
    if kind == 'error':
        if r['outcome'] != 'Exception:ValueError':
            bad.append({'outcome': r['outcome'], 'expected': 'the ValueError of the statement'})
    else:
        if r['outcome'] != 'return':
            bad.append({'outcome': r['outcome'], 'expected': 'the magic returns (exit / interrupt absorbed)'})
        if len(r['pages']) != 1:
            bad.append({'pages': len(r['pages'])})
        if kind == 'exit' and 'SystemExit exception caught' not in r['stdout']:
            bad.append({'no_message_for': 'SystemExit', 'stdout': r['stdout'][-200:]})
        if kind == 'kbint' and 'KeyboardInterrupt exception caught' not in r['stdout']:
            bad.append({'no_message_for': 'KeyboardInterrupt', 'stdout': r['stdout'][-200:]})
    want_builtins = 'same' if c['pre_profile'] else 'absent'
    if r['builtins_after'] != want_builtins:
        bad.append({'builtins.profile_after': r['builtins_after'], 'expected': want_builtins})
    want_names = ['lpv_mod', 'lpv_pkg', 'res', 'res2', 'res3', 'res4', 'res5', 'res6'] + (['after'] if kind == 'none' else [])
    if sorted(r['new_names']) != sorted(want_names):
        bad.append({'user_namespace_new_names': r['new_names'], 'expected': sorted(want_names)})
    if r['trace_after']:
        bad.append({'trace_function_left': True})
    if kind != 'error':
        if ('-r' in c['opts']) != r['returned_profiler'] or (('-r' not in c['opts']) != r['returned_none']):
            bad.append({'return_value': {'profiler': r['returned_profiler'], 'none': r['returned_none']}, 'with_-r': '-r' in c['opts']})
    if r.get('returned_profiler'):
        want = {}
        for f in c['funcs']:
            want[EXPECT[f][0]] = EXPECT[f][1]
        if 'lpv_mod' in c['mods']:
            want.update(MOD_EXPECT)
        if 'lpv_pkg.sub' in c['mods']:
            want.update({'sub.py:pinner': [[1, 1], [2, 1]]})
        got = {k: v for k, v in r['timings'].items() if v}
        if got != want:
            bad.append({'statistics': got, 'expected_exactly': want})
        wantreg = sorted([{'sq': '<lambda>', 'cube': '<lambda>'}.get(f, f) for f in c['funcs']] + (['Child.run', 'mf', 'mg'] if 'lpv_mod' in c['mods'] else []) + (['pinner'] if 'lpv_pkg.sub' in c['mods'] else []))
        if sorted(r['registered']) != wantreg:
            bad.append({'registered': r['registered'], 'named': wantreg})
        if r['enable_count_after'] != 0:
            bad.append({'enable_count_after': r['enable_count_after']})
        if r['timings_after_more_calls'] != r['timings']:
            bad.append({'recorded_after_the_statement': True})
        # independent of the renderer: every recorded line of every function has its row (hits cell) in what was paged
        if r['pages']:
            missing = rows_missing(r['pages'][0], r['timings'])
            if missing:
                bad.append({'recorded_lines_without_a_row_in_the_paged_report': missing})
        if r['pages'] and r['pages'][0] != r['live_text']:
            bad.append({'paged_text_differs_from_live_print_stats': [r['pages'][0][:300], r['live_text'][:300]]})
        if c['D'] and r.get('D_timings') != r['timings']:
            bad.append({'-D file': r.get('D_timings'), 'live': r['timings']})
    if kind != 'error':
        if c['T'] and (not r['pages'] or r.get('T_text') != r['pages'][0]):
            bad.append({'-T file differs from paged text': (r.get('T_text') or '')[:200]})
        if c['D'] and r.get('D_timings') in ('missing', None):
            bad.append({'-D file': 'missing'})
    return bad


def rows_missing(text, timings):
    """{function: [[line offset, hits] recorded but not shown]} — a small parser of the report blocks"""
    import re
    shown = {}
    cur = None
    for line in text.split('\n'):
        m = re.match(r'Function: (\S+) at line (\d+)', line)
        if m:
            cur = (m.group(1), int(m.group(2)))
            shown.setdefault(cur, set())
            continue
        m = re.match(r'\s*(\d+)\s+(\d+)\s+\S+\s+\S+\s+\S+', line)
        if m and cur:
            shown[cur].add((int(m.group(1)) - cur[1], int(m.group(2))))
    out = {}
    for key, entries in timings.items():
        name = key.split(':', 1)[1].split('@')[0]
        have = set()
        for (n, _first), rows in shown.items():
            if n == name:
                have |= rows
        lost = [e for e in entries if (e[0], e[1]) not in have]
        if lost:
            out[key] = lost
    return out


def model_lines(cs):
    names = kplib.skel_names()

    def ids(conds):
        return [i for i, n in enumerate(names) if n.startswith('if: ') and n[4:] in conds]
    lines = []
    for c in cs:
        true = []
        if c['pre_profile']:
            true += ["'profile' in builtins.__dict__", 'had_profile']
        if c['D']:
            true.append('dump_file')
        if c['T']:
            true.append('text_file')
        if '-r' in c['opts']:
            true.append("'r' in opts")
        lines.append('exec lprunCore %s %s' % (','.join(map(str, ids(true))) or '-', kplib.KIND_TO_EXC[c['stmt_kind']]))
    return lines


def run(ctx):
    ctx.prove('LPVerif.Props.C20', 'LPVerif/Props/C20.lean', drivers=('Skel',))
    build = ctx.build()
    cs = cases(ctx)
    ctx.log('%d %%lprun invocations in an in-process IPython shell' % len(cs))
    parts = [cs[i::6] for i in range(6)]
    import concurrent.futures as cf
    with cf.ThreadPoolExecutor(max_workers=6) as ex:
        outs = list(ex.map(lambda p: run_worker(build, 'c20_worker.py', {'cases': p}, 1200), parts))
    res = [None] * len(cs)
    for i, o in enumerate(outs):
        for j, r in enumerate(o['results']):
            res[i + j * 6] = r
    model = None
    if getattr(ctx, 'driver_ok', True):
        mo = lean_driver('skel', model_lines(cs))
        names = kplib.skel_names()
        model = []
        for line in mo:
            o, log, _k = [x.strip() for x in line.split('|')]
            model.append((o, [names[int(i)] for i in log.split(',') if i]))
    kdiff = 0
    nontrivial = set()
    dist = {}
    for i, (c, r) in enumerate(zip(cs, res)):
        if 'error' in r:
            ctx.broken.append(('harness', r['error'][-1500:]))
            continue
        bad = oracle(c, r)
        for b in bad[:2]:
            ctx.fail('%lprun did not behave as the property states', {'finding_class': None, 'case': c, 'difference': b})
        if model is not None:
            o, log = model[i]
            exp_out = 'return' if o in ('returned', 'normal') else 'Exception'
            pages = kplib.count(log, 'page(output)')
            restored = kplib.count(log, "builtins.__dict__['profile'] = old_profile") == 1
            deleted = kplib.count(log, "del builtins.__dict__['profile']") == 1
            real_restored = r['builtins_after'] == 'same'
            real_deleted = r['builtins_after'] == 'absent'
            if not r['outcome'].startswith(exp_out) or pages != len(r['pages']) or (restored, deleted) != (real_restored, real_deleted):
                kdiff += 1
                if not bad:
                    ctx.broken.append(('K20 correspondence', 'case %s: skeleton %s pages=%d restore=%s del=%s; real %s pages=%d builtins=%s' % (
                        json.dumps(c), o, pages, restored, deleted, r['outcome'], len(r['pages']), r['builtins_after'])))
        dist[c['stmt_kind']] = dist.get(c['stmt_kind'], 0) + 1
        if c['funcs'] or c['mods']:
            nontrivial.add(json.dumps({k: v for k, v in c.items() if k != 'id'}, sort_keys=True))
    ctx.coverage.update({
        'evaluations': len(cs), 'distinct_nontrivial': len(nontrivial),
        'rule': 'subsets of -f {f, g, K.meth, h} x -m {none, a module} x option sets {-r, -s, -u} x -D x -T x statement ending {normal, sys.exit, '
                'KeyboardInterrupt, ValueError} x builtins.profile present before or not (sampled); the statement calls named and unnamed functions; '
                'non-trivial = at least one function or module is named',
        'traces_validated_against_impl': len(cs) - kdiff, 'correspondence_disagreements': kdiff, 'ending_distribution': dist})
    ctx.coverage['samples'].append({'case': cs[-1], 'real': {k: v for k, v in res[-1].items() if k in ('outcome', 'builtins_after', 'new_names', 'registered', 'timings')}})
    ctx.assumptions += ['IPython\'s option parser and pager are exercised, not modelled (the pager is replaced by a recorder)',
                        'leaves of the skeleton other than the profiled statement are assumed not to raise']
    return ctx.finish('Lean: builtins restored / exits absorbed and output produced / one rendering / one bracket, for every environment over the dumped skeletons; '
                      'K20 on the real magic; oracle = named functions only, closed-form counts, all output channels equal the live report')


def replay(ctx, path):
    data = json.load(open(path))
    c = data.get('witness', data)['case']
    r = run_worker(ctx.build(), 'c20_worker.py', {'cases': [c]}, 600)['results'][0]
    print(json.dumps({'oracle': oracle(c, r), 'real': r}, indent=1)[:6000])
    return 0
