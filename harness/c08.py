"""C08 — auto-profiling rewrites only add hooks; the program behaves the same.
Proof: Props/C08.lean over Model.PyAst (rewrite_only_adds, lines_preserved, module_rewrite_only_adds, absolutise_keeps_names,
decorator_on_every_def, decorator_innermost, star_and_future_untouched, regs_name_bound) for programs of any size and depth.
Tie: K08 — the real AstTreeProfiler / AstTreeModuleProfiler on generated programs (every definition kind, every import style, __future__
lines, star imports, in-function / in-class / conditional imports, relative imports in module mode) against the model's rewrite, with
the matching of ProfmodExtractor taken from the real run.
Oracle: (syntactic, independent of the model) the rewritten tree minus inserted calls and appended decorators is the original tree,
line numbers included, and it compiles; (behavioural) the program prints the same under `python` and under
`kernprof -l -p … [--prof-imports]` (script and -m), and every reported function's line number points at its definition in the file."""
import concurrent.futures as cf
import json
import os
import shutil
import subprocess
import tempfile
import tokenize

import autoprog
from common import run_worker, lean_driver, real_env, PY, SCRATCH_ROOT

LEVEL = 'proof'


def configs(prog, rng):
    if prog['module']:
        sel = [['pkgk.runme'], ['pkgk.runme', 'helper'], ['helper'], ['pkgk'], []]
    else:
        sel = [['PATH:prog.py'], ['PATH:prog.py', 'helper'], ['helper'], ['helper', 'pkgk'], ['other,pkgk.sib'.split(',')[0], 'pkgk.sib'], ['pkgk.sub'], []]
    out = []
    for s in sel:
        for pi in (False, True):
            out.append({'prof_mod': s, 'prof_imports': pi})
    return out


def strip_added(new, orig):
    """walk both token streams; returns None if `new` is `orig` plus registration calls and appended `profile` decorators, else a description"""
    i = j = 0
    while i < len(new):
        t = new[i]
        if t == 'reg':
            i += 2
            continue
        if j >= len(orig):
            return 'extra token %r at %d' % (t, i)
        if t == 'def' and orig[j] == 'def':
            if new[i + 1:i + 4] != orig[j + 1:j + 4]:
                return 'def header differs: %s vs %s' % (new[i:i + 5], orig[j:j + 5])
            nd_new, nd_orig = int(new[i + 4]), int(orig[j + 4])
            dn, do = new[i + 5:i + 5 + 2 * nd_new], orig[j + 5:j + 5 + 2 * nd_orig]
            if dn == do:
                pass
            elif nd_new == nd_orig + 1 and dn[:-2] == do and dn[-2:] == ['N', 'profile'] and ['N', 'profile'] not in [do[k:k + 2] for k in range(0, len(do), 2)]:
                pass
            else:
                return 'decorators of %s: %s vs %s' % (new[i + 2], dn, do)
            i += 5 + 2 * nd_new
            j += 5 + 2 * nd_orig
            continue
        if t != orig[j]:
            return 'token %d: %r vs %r (context %s | %s)' % (i, t, orig[j], new[max(0, i - 6):i + 4], orig[max(0, j - 6):j + 4])
        i += 1
        j += 1
    if j != len(orig):
        return 'original has more tokens'
    return None


def all_defs_decorated(new):
    for i, t in enumerate(new):
        if t == 'def':
            nd = int(new[i + 4])
            ds = new[i + 5:i + 5 + 2 * nd]
            if ['N', 'profile'] not in [ds[k:k + 2] for k in range(0, len(ds), 2)]:
                return new[i + 2]
    return None


ENCODINGS = [None, None, 'latin-1', 'utf-8-sig']


def encoded(text, enc):
    """the program's own file in another source encoding python accepts (PEP 263 declaration / UTF-8 with BOM), with a non-ASCII literal"""
    tail = '\nprint("caf\u00e9 \u00fc\u00df")\n'
    if enc == 'latin-1':
        return ('# -*- coding: latin-1 -*-\n' + text + tail).encode('latin-1')
    if enc == 'utf-8-sig':
        return (text + tail).encode('utf-8-sig')
    if enc == 'linked':
        return text.encode('utf-8')
    return text.encode('utf-8')


def behave(build, prog, cfg, enc=None):
    d = tempfile.mkdtemp(prefix='c08b-', dir=SCRATCH_ROOT)
    try:
        for rel, text in prog['files'].items():
            p = os.path.join(d, rel)
            os.makedirs(os.path.dirname(p), exist_ok=True)
            with open(p, 'wb') as fh:
                fh.write(encoded(text, enc if rel == prog['script'] else None))
        if prog['module'] and enc == 'linked':
            # the package is reached through a symbolic link whose target has another name (a versioned checkout linked into place)
            os.rename(os.path.join(d, 'pkgk'), os.path.join(d, 'pkgk_impl_v2'))
            os.symlink('pkgk_impl_v2', os.path.join(d, 'pkgk'))
        e = real_env(build)
        pm = [os.path.join(d, x[5:]) if x.startswith('PATH:') else x for x in cfg['prof_mod']]
        popts = []
        for x in pm:
            popts += ['-p', x]
        if cfg['prof_imports']:
            popts.append('--prof-imports')
        if prog['module']:
            a = subprocess.run([PY, '-m', prog['module']], cwd=d, env=e, capture_output=True, text=True, timeout=120)
            b = subprocess.run([PY, '-m', 'kernprof', '-l'] + popts + ['-m', prog['module']], cwd=d, env=e, capture_output=True, text=True, timeout=120)
            lprof = os.path.join(d, prog['module'] + '.lprof')
        else:
            a = subprocess.run([PY, prog['script']], cwd=d, env=e, capture_output=True, text=True, timeout=120)
            b = subprocess.run([PY, '-m', 'kernprof', '-l'] + popts + [prog['script']], cwd=d, env=e, capture_output=True, text=True, timeout=120)
            lprof = os.path.join(d, prog['script'] + '.lprof')
        keys = None
        if os.path.exists(lprof):
            q = subprocess.run([PY, '-c', 'import sys,json,line_profiler;s=line_profiler.load_stats(sys.argv[1]);print(json.dumps([list(k)+[len(v)] for k,v in s.timings.items()]))', lprof],
                               cwd=d, env=e, capture_output=True, text=True)
            try:
                keys = json.loads(q.stdout.strip().splitlines()[-1])
            except Exception:
                keys = None
        bad_lines = []
        for k in keys or []:
            fn, first, name = k[0], k[1], k[2]
            if os.path.exists(fn) and os.path.realpath(fn).startswith(os.path.realpath(d)):
                with tokenize.open(fn) as fh:
                    src = fh.read().split('\n')
                # co_firstlineno is the first decorator line (if any); walk down to the def
                j = first - 1
                while j < len(src) and src[j].lstrip().startswith('@'):
                    j += 1
                line = src[j].lstrip() if j < len(src) else ''
                if not (line.startswith('def %s(' % name) or line.startswith('async def %s(' % name) or (name == '<lambda>' and 'lambda' in line)):
                    bad_lines.append([os.path.relpath(fn, d), first, name, line[:60]])
        return {'py': {'rc': a.returncode, 'out': a.stdout, 'err': a.stderr[-400:]}, 'kp': {'rc': b.returncode, 'out': b.stdout, 'err': b.stderr[-600:]},
                'keys': [[os.path.relpath(k[0], d) if k[0].startswith('/') else k[0], k[1], k[2], k[3]] for k in (keys or [])], 'bad_lines': bad_lines}
    finally:
        shutil.rmtree(d, ignore_errors=True)


def run(ctx):
    ctx.prove('LPVerif.Props.C08', 'LPVerif/Props/C08.lean', drivers=('PyAst',))
    build = ctx.build()
    n = 100 if ctx.quick else 1200
    if ctx.broken:
        n *= 3
    cases = []
    crafted = [['import helper', 'import helper, other as oth2', 'from helper import hf', 'from helper import hf, HK as HKx'],
               ['from helper import hf', 'import other', 'from helper import hf, HK as HKx', 'import helper, other as oth2']]
    for i in range(n):
        r = ctx.rng.fork('p%d' % i)
        prog = autoprog.gen_program(r, module_mode=r.chance(1, 4) if i >= len(crafted) else False, force_imports=crafted[i] if i < len(crafted) else None)
        for cfg in configs(prog, r):
            cases.append({'files': prog['files'], 'script': prog['script'], 'module': bool(prog['module']), 'prof_mod': cfg['prof_mod'],
                          'prof_imports': cfg['prof_imports'], 'prog': prog})
    ctx.log('%d rewrites through the real AstTreeProfiler' % len(cases))
    nw = 8
    parts = [[{k: v for k, v in c.items() if k != 'prog'} for c in cases[i::nw]] for i in range(nw)]
    with cf.ThreadPoolExecutor(max_workers=nw) as ex:
        outs = list(ex.map(lambda p: run_worker(build, 'c08_worker.py', {'cases': p}, 1200), parts))
    res = [None] * len(cases)
    for i, o in enumerate(outs):
        for j, r in enumerate(o['results']):
            res[i + j * nw] = r
    model = None
    if getattr(ctx, 'driver_ok', True):
        lines = []
        for c, r in zip(cases, res):
            if 'orig' in r:
                m = r['matched']
                lines.append('rewrite %d %d %d %s %s' % (r['full'], c['prof_imports'], len(m), ' '.join('%d %s' % (a, b) for a, b in m), ' '.join(r['orig'])))
        mo = lean_driver('pyast', lines)
        model, k = [], 0
        for r in res:
            if 'orig' in r:
                model.append(mo[k].split())
                k += 1
            else:
                model.append(None)
    kdiff = 0
    nontrivial = set()
    dist = {'full': 0, 'prof_imports': 0, 'module': 0, 'matched': 0, 'star': 0, 'future': 0}
    for i, (c, r) in enumerate(zip(cases, res)):
        if 'harness_error' in r:
            ctx.broken.append(('harness', r['harness_error'][-1500:]))
            continue
        why = None
        if r['error']:
            why = {'rewritten tree does not compile / rewriting failed': r['error']}
        elif not r.get('read_ok', True):
            why = {'the tree the profiler starts from is not the file that is on disk now': {'profiler_read': r['orig'][:60]}}
        else:
            s = strip_added(r['new'], r['orig'])
            if s:
                why = {'rewritten tree is not original + hooks': s}
            elif r['full']:
                nd = all_defs_decorated(r['new'])
                if nd:
                    why = {'definition without profile decorator': nd}
        if why:
            ctx.fail('the rewrite changed more than added hooks', {'finding_class': None, 'script': c['script'], 'prof_mod': c['prof_mod'], 'prof_imports': c['prof_imports'],
                                                                  'module': c['module'], 'source': c['files'][c['script']], 'difference': why})
        if model is not None and model[i] is not None and r['new'] is not None and model[i] != r['new']:
            kdiff += 1
            if not why:
                pos = next((j for j in range(min(len(model[i]), len(r['new']))) if model[i][j] != r['new'][j]), -1)
                ctx.broken.append(('K08 correspondence', 'prof_mod %s pi %s module %s: first difference at token %d: model %s real %s' % (
                    c['prof_mod'], c['prof_imports'], c['module'], pos, model[i][max(0, pos - 5):pos + 8], r['new'][max(0, pos - 5):pos + 8])))
        dist['full'] += r['full']
        dist['prof_imports'] += c['prof_imports']
        dist['module'] += c['module']
        dist['matched'] += 1 if r['matched'] else 0
        dist['star'] += 1 if 'import *' in c['files'][c['script']] else 0
        dist['future'] += 1 if '__future__' in c['files'][c['script']] else 0
        if r['full'] or r['matched']:
            nontrivial.add(json.dumps([c['files'][c['script']], c['prof_mod'], c['prof_imports']]))
    # behaviour: python vs kernprof on a sample of the cases
    nb = 40 if ctx.quick else 600
    sample = ctx.rng.fork('beh').sample([c for c in cases if c['prof_mod']], nb)
    with cf.ThreadPoolExecutor(max_workers=12) as ex:
        # first the past failure F-C08e (the script itself selected / a helper selected, in both non-default source encodings), then the sample
        c0 = next(c for c in cases if c['prof_mod'] and not c['module'] and c['prof_mod'][0].startswith('PATH:'))
        c1 = next(c for c in cases if c['prof_mod'] == ['helper'] and not c['module'])
        runs = [(c0, 'latin-1'), (c0, 'utf-8-sig'), (c1, 'latin-1'), (c1, 'utf-8-sig')] + [(c, ENCODINGS[i % len(ENCODINGS)]) for i, c in enumerate(sample)]
        # -m programs once more with the package reached through a symbolic link
        runs += [(c, 'linked') for c in sample if c['prog']['module']][:(6 if ctx.quick else 60)]
        bres = list(ex.map(lambda ce: behave(build, ce[0]['prog'], ce[0], ce[1]), runs))
    sample = [c for c, _e in runs]
    for bi, (c, b) in enumerate(zip(sample, bres)):
        if b['py']['rc'] != 0:
            ctx.broken.append(('harness', 'generated program fails under plain python: ' + b['py']['err']))
            continue
        why = None
        if b['kp']['rc'] != 0:
            why = {'kernprof exit code': b['kp']['rc'], 'stderr': b['kp']['err']}
        elif not b['kp']['out'].startswith(b['py']['out']):
            why = {'stdout differs': {'python': b['py']['out'][-600:], 'kernprof': b['kp']['out'][-800:]}}
        elif b['bad_lines']:
            why = {'reported line numbers do not point at the definitions': b['bad_lines']}
        elif b['kp']['err'].strip() and not b['py']['err'].strip():
            why = {'kernprof writes to standard error where python does not': b['kp']['err'][-400:]}
        if why:
            ctx.fail('the auto-profiled program does not behave like the original', {'finding_class': None, 'script': c['script'], 'prof_mod': c['prof_mod'],
                                                                                    'prof_imports': c['prof_imports'], 'module': c['prog']['module'],
                                                                                    'source_encoding': runs[bi][1] or 'utf-8',
                                                                                    'source': c['files'][c['script']], 'difference': why})
    ctx.coverage.update({
        'evaluations': len(cases) + len(sample), 'distinct_nontrivial': len(nontrivial),
        'rule': 'generated scripts / package modules (plain, nested, generator with return + yield from, async, class with static/class/property methods, lru_cache, '
                'keyword-only signatures, lambda, already-decorated, in-function / try / if imports; 17 import styles incl. star, aliased, dotted, deep from-imports; 0-2 '
                '__future__ lines; relative imports in module mode; the program file in UTF-8, latin-1 with a PEP 263 declaration, UTF-8 with BOM) x selections (script itself, modules, packages, none) x --prof-imports; a sample is also run for real '
                'under python and kernprof; non-trivial = something was selected',
        'traces_validated_against_impl': len(cases) - kdiff, 'correspondence_disagreements': kdiff, 'distribution': dist, 'behavioural_runs': len(sample)})
    ctx.coverage['samples'].append({'prof_mod': cases[-1]['prof_mod'], 'prof_imports': cases[-1]['prof_imports'], 'source': cases[-1]['files'][cases[-1]['script']][:1500],
                                    'rewritten_tokens': (res[-1].get('new') or [])[:80]})
    ctx.assumptions += ['behavioural equality is checked on generated programs, not proved: the theorem part is "only additions" (+ C03 for the decorator, + a registration call '
                        'evaluates a bound name and returns)',
                        'F-C08d (known, recorded in DESIGN.md): the exec namespace of kernprof differs from python\'s in __package__/__spec__/__loader__/__doc__/__cached__; generated programs do not print them']
    return ctx.finish('Lean: the rewrite only adds registration statements and appended decorators (any program, any configuration); K08 vs the real AST profilers; '
                      'oracle = tree minus hooks equals the original, compiles, and the program prints the same under python and kernprof')


def replay(ctx, path):
    data = json.load(open(path))
    w = data.get('witness', data)
    print(json.dumps(w, indent=1)[:4000])
    return 0
