"""C13 — counts stay exact under concurrent threads and interleaved tasks.
Proof: Props/C13.lean (every interleaving of per-task event lists reports the sum); tie: K13 on
step-wise driven generators / coroutines / async generators of the same profiled code (every
interleaving enumerated, model vs real vs per-task sums); threads: free-running OS threads, expected =
sum of the deterministic per-thread counts (sampled schedules — a theorem cannot exhibit a data race)."""
import itertools
import json

import corelib

LEVEL = 'proof'

TASK_SRC = '''\
def g(n):
    a = 0
    for i in range(n):
        a += i
        got = yield a
        if got:
            a += got
    return a

def gf(n):
    a = 0
    try:
        for i in range(n):
            a += i
            yield a
    finally:
        a -= 1
        a -= 1
    return a

async def co(n):
    a = n
    for i in range(n):
        a += (await Suspend(i)) or 0
    return a

async def ag(n):
    for i in range(n):
        x = (await Suspend(i)) or 0
        yield x + i

def driver(spec):
    kinds, sched = spec
    tasks = []
    for kind, n in kinds:
        if kind == 'g':
            tasks.append(['g', g(n), False])
        elif kind == 'gf':
            tasks.append(['gf', gf(n), False])
        elif kind == 'co':
            tasks.append(['co', co(n), False])
        else:
            tasks.append(['ag', ag(n), None])
    out = []
    for k in sched:
        if k < 0:
            # the task is closed part-way (a consumer that breaks out of its loop): its clean-up lines run now
            t = tasks[-k - 1]
            if t[2] is not True:
                t[1].close()
                out.append((k, 'closed'))
                t[2] = True
            continue
        t = tasks[k]
        if t[2] is True:
            continue
        try:
            if t[0] == 'ag':
                # one scheduler tick of an async generator: either start a new __anext__ or resume the pending one
                if t[2] is None:
                    t[2] = t[1].asend(None)
                try:
                    out.append((k, t[2].send(None)))
                except StopIteration as e:
                    out.append((k, 'item', e.value))
                    t[2] = None
            else:
                out.append((k, t[1].send(None)))
        except StopIteration as e:
            out.append((k, 'ret', e.value))
            t[2] = True
        except StopAsyncIteration:
            out.append((k, 'end'))
            t[2] = True
    return out
'''


CLEANUP_LINES = [i + 1 for i, l in enumerate(TASK_SRC.split('\n')) if l.strip() == 'a -= 1']


def interleavings(counts):
    """all interleavings of tasks with the given numbers of steps"""
    seq = [k for k, c in enumerate(counts) for _ in range(c)]
    return sorted(set(itertools.permutations(seq)))


def with_closes(sched, kinds, counts):
    """the last step of a task of kind 'gf' is a close(): written -(k+1)"""
    seen = {}
    out = []
    for k in sched:
        seen[k] = seen.get(k, 0) + 1
        out.append(-(k + 1) if kinds[k][0] == 'gf' and seen[k] == counts[k] else k)
    return out


def task_case(kinds, sched, mode):
    import progs
    prog = {'files': [['prog_lib.py', progs.PRELUDE], ['prog_0.py', TASK_SRC], ['prog_main.py', 'def driver(spec):\n    return driver0(spec)\n']],
            'funcs': [['prog_0.py', 'g', 'gen'], ['prog_0.py', 'gf', 'gen'], ['prog_0.py', 'co', 'coro'], ['prog_0.py', 'ag', 'agen'], ['prog_0.py', 'driver', 'plain'],
                      ['prog_main.py', 'driver', 'plain']],
            'driver': 'driver', 'features': ['tasks']}
    # prog_main.driver calls prog_0.driver under the name driver0
    prog['files'][1][1] = TASK_SRC.replace('def driver(spec):', 'def driver0(spec):')
    prog['funcs'][4] = ['prog_0.py', 'driver0', 'plain']
    reg = ['g', 'gf', 'co', 'ag']
    if mode == 'decorate':
        steps = [['decorate', n] for n in ('g', 'gf', 'co')] + [['add', 'ag']] + [['call', [kinds, list(sched)]], ['snapshot']]
        # (async generators are decorated in C03/C16; here ag is traced through an outer window only when mode == window)
    else:
        steps = [['add', n] for n in reg] + [['enbc'], ['call', [kinds, list(sched)]], ['disbc'], ['snapshot']]
    return {'prog': prog, 'steps': steps, 'mode': mode, 'registered': reg, 'kinds': kinds, 'sched': list(sched)}


def run(ctx):
    ctx.prove('LPVerif.Props.C13', 'LPVerif/Props/C13.lean', extra_modules=['LPVerif.Props.C01'])
    build = ctx.build()
    # ---------------- tasks: enumerate interleavings
    confs = [([['g', 2], ['g', 3]], [3, 4]), ([['g', 2], ['co', 2]], [3, 3]), ([['co', 1], ['ag', 2]], [2, 4]),
             ([['g', 1], ['g', 1], ['g', 2]], [2, 2, 3]),
             # two decorated coroutines whose lifetimes overlap without nesting (the first may finish while the second is suspended)
             ([['co', 1], ['co', 2]], [2, 3]),
             # generators with clean-up lines that are closed part-way, between steps of the others
             ([['gf', 3], ['gf', 3]], [3, 2]), ([['gf', 2], ['g', 1], ['co', 1]], [2, 2, 2])]
    if not ctx.quick:
        confs += [([['g', 2], ['co', 2], ['ag', 1]], [3, 3, 3]), ([['ag', 2], ['ag', 2]], [4, 4]), ([['g', 3], ['g', 3]], [4, 4]),
                  ([['co', 2], ['co', 2], ['g', 1]], [3, 3, 2])]
    cases, meta = [], []
    for kinds, steps in confs:
        allil = interleavings(steps)
        if ctx.quick and len(allil) > 40:
            allil = ctx.rng.sample(allil, 40)
        for mode in ('window', 'decorate'):
            if mode == 'decorate' and any(k == 'ag' for k, _ in kinds):
                continue
            solo = []
            for k in range(len(kinds)):
                solo.append(len(cases))
                cases.append(task_case(kinds, with_closes([k] * steps[k], kinds, steps), mode))
                meta.append(('solo', None))
            for il in allil:
                meta.append(('il', solo))
                cases.append(task_case(kinds, with_closes(il, kinds, steps), mode))
    ctx.log('tasks: %d runs (%d interleavings) on the real code' % (len(cases), sum(1 for m in meta if m[0] == 'il')))
    results = corelib.run_real(build, cases)
    if getattr(ctx, 'driver_ok', True):
        corelib.run_model(results)
    kdiff = 0
    nontrivial = set()

    def hits(r):
        st = corelib.parse_stats(r['real_snaps'][-1])
        return {(k, l): h for k, v in st.items() for l, (h, _t) in v.items()}
    for i, (case, r, m) in enumerate(zip(cases, results, meta)):
        if 'error' in r:
            ctx.broken.append(('harness', r['error'][-1500:]))
            continue
        if getattr(ctx, 'driver_ok', True):
            diffs = corelib.compare_case(r)
            if diffs:
                kdiff += 1
                ctx.broken.append(('K13 correspondence', '; '.join(diffs)[:600]))
        if m[0] == 'il':
            total = {}
            for j in m[1]:
                if 'error' in results[j]:
                    break
                for key, h in hits(results[j]).items():
                    total[key] = total.get(key, 0) + h
            got = hits(r)
            # the shared driver function is not part of the comparison (it is not registered)
            if got != total:
                ctx.fail('interleaved tasks: reported hits differ from the sum of what each task executed',
                         {'finding_class': None, 'kinds': case['kinds'], 'schedule': case['sched'], 'mode': case['mode'],
                          'got': sorted((list(k), v) for k, v in got.items()), 'sum_of_tasks': sorted((list(k), v) for k, v in total.items()), 'case': case})
            # direct oracle for the clean-up lines: each closed generator ran its `finally:` block once, inside a window in either mode
            ngf = sum(1 for k, _n in case['kinds'] if k == 'gf')
            for ln in CLEANUP_LINES:
                seen = sum(h for (_lab, l), h in got.items() if l == ln)
                if ngf and seen != ngf:
                    ctx.fail('interleaved tasks: clean-up line of generators closed part-way not counted once per generator',
                             {'finding_class': None, 'kinds': case['kinds'], 'schedule': case['sched'], 'mode': case['mode'], 'line': ln,
                              'hits': seen, 'expected': ngf, 'case': case})
            if len(set(case['sched'])) > 1:
                nontrivial.add(json.dumps([case['kinds'], case['sched'], case['mode']]))
    # ---------------- threads
    tcases = []
    nth = 24 if ctx.quick else 1200
    for i in range(nth):
        r = ctx.rng.fork('th%d' % i)
        k = r.below(7) + 2
        jobs = [[r.below(120) + 5, r.choice([0, 0, 1, 3, 7]), not r.chance(1, 4)] for _ in range(k)]
        tcases.append({'jobs': jobs, 'interval': r.choice([1e-6, 1e-5, 1e-4, 5e-3]), 'decorate': r.chance(1, 3), 'warm': r.fork('warm').chance(1, 2)})
    # asyncio: tasks run in copies of the context; a worker thread may run with the caller's context (asyncio.to_thread)
    for sizes, tt in (([6, 1, 3], 0), ([2, 2], 4), ([1, 5, 2, 4], 3), ([3], 2)):
        tcases.append({'aio': sizes, 'to_thread': tt, 'jobs': [[s, 0, True] for s in sizes] + [[1, 0, True]]})
    # tasks holding `with prof:` windows across their suspension points, one of them leaving its window by an exception
    for specs, order in (([[3, 1], [4, -1]], [0, 1, 0, 1, 0, 1, 1, 1, 1]), ([[2, 0], [3, -1], [3, 2]], [1, 2, 0, 1, 2, 1, 2, 1, 2, 2]),
                         ([[4, -1], [2, 1]], [0, 1, 1, 0, 0, 0, 0, 0])):
        tcases.append({'withblocks': specs, 'order': order, 'jobs': [[n, 0, True] for n, _f in specs]})
    ctx.log('threads: %d runs' % len(tcases))
    tres = corelib.run_real(build, tcases, worker='c13_worker.py')
    tbad = 0
    for c, r in zip(tcases, tres):
        if 'error' in r:
            ctx.broken.append(('harness', r['error'][-1500:]))
            continue
        problems = []
        if r['got'] != r['expected']:
            problems.append('hits differ from the sum of the per-thread counts')
        if r['errors']:
            problems.append('a thread crashed: %s' % r['errors'][:2])
        if any(v != 0 for v in r['counts'].values()) or r['main_count'] != 0:
            problems.append('enable count not back to zero: %s' % r['counts'])
        if problems:
            tbad += 1
            diff = {k: (r['got'].get(k), r['expected'].get(k)) for k in set(r['got']) | set(r['expected']) if r['got'].get(k) != r['expected'].get(k)}
            ctx.fail('threads: ' + '; '.join(problems), {'finding_class': None, 'case': c, 'got_vs_expected': diff})
        if sum(1 for j in c['jobs'] if j[2]) >= 2:
            nontrivial.add(json.dumps(c))
    ctx.coverage.update({
        'evaluations': len(cases) + len(tcases), 'distinct_nontrivial': len(nontrivial),
        'rule': 'tasks: for each configuration of 2-3 generators / coroutines / async generators of the same registered code, every interleaving '
                '(sampled to 40 per configuration in quick) under an outer window and under per-step decorator windows, compared with the model and '
                'with the sum of the solo runs; threads: 2-8 OS threads (some silent), switch interval 1e-6..5e-3, voluntary sleep(0) at generated '
                'points, decorated or explicit windows; non-trivial = at least two tasks/threads actually interleave',
        'task_runs': len(cases), 'thread_runs': len(tcases), 'thread_failures': tbad,
        'traces_validated_against_impl': len(cases) - kdiff, 'correspondence_disagreements': kdiff,
        'exhaustive': not ctx.quick})
    ctx.coverage['samples'].append({'kinds': cases[-1]['kinds'], 'schedule': cases[-1]['sched'], 'real': results[-1].get('real_snaps')})
    ctx.coverage['samples'].append({'thread_case': tcases[-1], 'result': {k: tres[-1].get(k) for k in ('counts', 'errors')}})
    ctx.assumptions += ['OS thread schedules can only be sampled; the callback holds the GIL throughout (no release inside python_trace_callback) — recorded assumption, '
                        'a data race inside the C++ maps is outside what the model exhibits']
    return ctx.finish('Lean: every interleaving of per-task event lists delivers the same LINE events (opened_interleave) so quiescent reports equal the '
                      'sum over tasks (interleave_exact); suspension empties the slot. K13 enumerates interleavings on the real code; threads sampled')


def replay(ctx, path):
    data = json.load(open(path))
    w = data['witness']
    if 'kinds' in w:
        r = corelib.run_real(ctx.build(), [w['case']])
        print(json.dumps(r[0].get('real_snaps')))
    else:
        r = corelib.run_real(ctx.build(), [w['case']], worker='c13_worker.py')
        print(json.dumps(r[0]))
    return 0
