"""Worker for C07 (K07t): drives the real kernprof.RepeatedTimer through given thread schedules.

Threads are real; what is controlled is *when* each of them executes its next indivisible instruction (a statement outside the lock,
an unlocked `if`, a whole `with self._lock:` block) and when an armed timer fires.  Control is by a trace function that blocks a
thread at the source lines the translator lists as instruction starts; `threading.Timer` inside kernprof is replaced by a timer whose
firing the schedule decides (it fires at most once, not after cancel(): the contract of threading.Timer).

JSON in: {"program": {ctor, run, stop: [{line,...}]}, "schedules": [[choice, ...], ...], "enumerate": depth or 0}
choice = "main" | "run k" | "fire" | "fireLeaked".  Out per schedule: {"states": [state line after every choice], "drained": {...}}"""
import json
import sys
import threading
import time

import kernprof

REAL_THREADING = threading
TIMEOUT = 10.0


class FakeTimer:
    registry = []

    def __init__(self, interval, function, args=None, kwargs=None):
        self.function = function
        self.state = 'fresh'
        FakeTimer.registry.append(self)

    def start(self):
        if self.state == 'fresh':
            self.state = 'armed'
        elif self.state == 'cancelledFresh':
            self.state = 'dead'

    def cancel(self):
        if self.state == 'fresh':
            self.state = 'cancelledFresh'
        elif self.state == 'armed':
            self.state = 'dead'


class ThreadingProxy:
    """what `threading` means inside kernprof.py during the experiment"""
    Timer = FakeTimer

    def __getattr__(self, name):
        return getattr(REAL_THREADING, name)


class Controlled:
    """one controlled thread: blocked at a gate, running, or finished"""

    def __init__(self, ctl, target, name):
        self.ctl = ctl
        self.at = None            # line of the gate it is blocked at
        self.finished = False
        self.error = None
        self.go = threading.Semaphore(0)
        self.thread = threading.Thread(target=self._body, args=(target,), name=name, daemon=True)

    def _body(self, target):
        sys.settrace(self.ctl.tracer_for(self))
        try:
            target()
        except BaseException as e:   # noqa
            self.error = '%s: %s' % (type(e).__name__, e)
        finally:
            sys.settrace(None)
            with self.ctl.cv:
                self.finished = True
                self.at = None
                self.ctl.cv.notify_all()

    def gate(self, line):
        with self.ctl.cv:
            self.at = line
            self.ctl.cv.notify_all()
        self.go.acquire()

    def release_and_wait(self):
        """let the thread execute one instruction: until it blocks at the next gate or ends"""
        with self.ctl.cv:
            self.at = None
        self.go.release()
        return self.wait_settled()

    def wait_settled(self):
        deadline = time.time() + TIMEOUT
        with self.ctl.cv:
            while self.at is None and not self.finished:
                left = deadline - time.time()
                if left <= 0:
                    return False
                self.ctl.cv.wait(left)
        return True


class Controller:
    def __init__(self, program):
        self.cv = threading.Condition()
        self.codes = {getattr(kernprof.RepeatedTimer, m).__code__ for m in ('__init__', '_run', 'start', 'stop')}
        self.gates = {i['line'] for part in ('ctor', 'run', 'stop') for i in program[part]}
        self.rt = None
        self.dumps = 0
        self.dumps_at_stop = None      # number of dumps written when stop() returned
        self.runs = []
        FakeTimer.registry = []
        self.main = Controlled(self, self._main_body, 'main')

    def _main_body(self):
        rt = kernprof.RepeatedTimer(1, self._dump, 'outfile')
        rt.stop()

    def _dump(self, outfile):
        self.dumps += 1

    def tracer_for(self, th):
        def local(frame, event, arg):
            if event == 'line' and frame.f_lineno in self.gates:
                key = (id(frame), frame.f_lineno)
                if key not in th.seen:
                    th.seen.add(key)
                    th.gate(frame.f_lineno)
            return local

        def tracer(frame, event, arg):
            if event == 'call' and frame.f_code in self.codes:
                if self.rt is None and 'self' in frame.f_locals:
                    self.rt = frame.f_locals['self']
                return local
            return None
        th.seen = set()
        return tracer

    # ------------------------------------------------------------------ observation
    def cur(self):
        return FakeTimer.registry[-1] if FakeTimer.registry else None

    def leaked(self):
        return [t for t in FakeTimer.registry[:-1] if t.state in ('armed', 'fresh')]

    def note_stop(self):
        if self.main.finished and self.dumps_at_stop is None:
            self.dumps_at_stop = self.dumps

    def state(self):
        rt = self.rt
        c = self.cur()
        return 'r=%d s=%d cur=%s leaked=%d dumps=%d mainline=%d runlines=%s' % (
            int(bool(getattr(rt, 'is_running', False))), int(bool(getattr(rt, '_stopped', False))), c.state if c else 'dead', len(self.leaked()), self.dumps,
            0 if self.main.finished else (self.main.at or -1), ','.join(str(0 if r.finished else (r.at or -1)) for r in self.runs))

    # ------------------------------------------------------------------ choices
    def start(self):
        self.main.thread.start()
        return self.main.wait_settled()

    def spawn(self, timer):
        timer.state = 'dead'
        r = Controlled(self, timer.function, 'run%d' % len(self.runs))
        self.runs.append(r)
        r.thread.start()
        return r.wait_settled()

    def enabled(self):
        out = []
        if not self.main.finished:
            out.append('main')
        out += ['run %d' % k for k, r in enumerate(self.runs) if not r.finished]
        c = self.cur()
        if c is not None and c.state == 'armed':
            out.append('fire')
        if any(t.state == 'armed' for t in FakeTimer.registry[:-1]):
            out.append('fireLeaked')
        return out

    def do(self, choice):
        w = choice.split()
        if w[0] == 'main':
            ok = self.main.finished or self.main.release_and_wait()
            self.note_stop()
            return ok
        if w[0] == 'run':
            k = int(w[1])
            if k >= len(self.runs) or self.runs[k].finished:
                return True
            return self.runs[k].release_and_wait()
        if w[0] == 'fire':
            c = self.cur()
            if c is not None and c.state == 'armed':
                return self.spawn(c)
            return True
        if w[0] == 'fireLeaked':
            for t in FakeTimer.registry[:-1]:
                if t.state == 'armed':
                    return self.spawn(t)
            return True
        raise ValueError(choice)

    def drain(self):
        """the program is over: stop() runs to completion, the dumps in flight finish; no timer is fired"""
        ok = True
        guard = 0
        while not self.main.finished and guard < 100:
            ok = self.main.release_and_wait() and ok
            guard += 1
        self.note_stop()
        for r in self.runs:
            while not r.finished and guard < 400:
                ok = r.release_and_wait() and ok
                guard += 1
        live = [t.state for t in FakeTimer.registry if t.state in ('armed', 'fresh')]
        return {'settled': ok, 'live_timers_after_stop': live, 'dumps': self.dumps, 'dumps_after_stop_returned': self.dumps - (self.dumps_at_stop or 0),
                'errors': [x.error for x in [self.main] + self.runs if x.error]}


def run_schedule(program, sched):
    ctl = Controller(program)
    states = []
    if not ctl.start():
        return {'error': 'main thread did not reach its first gate'}
    states.append(ctl.state())
    for ch in sched:
        if not ctl.do(ch):
            return {'error': 'a thread neither reached a gate nor finished after %r' % ch, 'states': states}
        states.append(ctl.state())
    enabled = ctl.enabled()
    return {'states': states, 'enabled_at_end': enabled, 'drained': ctl.drain()}


def enumerate_schedules(program, depth, limit):
    """all schedules of enabled choices up to `depth` (each path re-executed from scratch)"""
    out = []
    stack = [[]]
    while stack and len(out) < limit:
        sched = stack.pop()
        r = run_schedule(program, sched)
        r['schedule'] = sched
        out.append(r)
        if 'error' in r or len(sched) >= depth:
            continue
        for ch in reversed(r['enabled_at_end']):
            stack.append(sched + [ch])
    return out


def main():
    payload = json.load(sys.stdin)
    kernprof.threading = ThreadingProxy()
    program = payload['program']
    res = []
    for sched in payload.get('schedules', []):
        try:
            r = run_schedule(program, sched)
        except Exception:
            import traceback
            r = {'error': traceback.format_exc()}
        r['schedule'] = sched
        res.append(r)
    if payload.get('enumerate'):
        res.extend(enumerate_schedules(program, payload['enumerate'], payload.get('limit', 20000)))
    sys.stdout.write('\n{"lpverif": %s}\n' % json.dumps({'results': res}))


main()
