"""Worker for C11: one profiling session per case; every output channel is produced for real and the channel texts, the
saved file and the live statistics are compared.  JSON in: {"cases": [{"name": str, "n": int, "unit": str|None, "z": bool}]}"""
import contextlib
import io
import json
import os
import subprocess
import sys
import tempfile

import line_profiler
import kernprof

import reportlib

PROG = '''\
try:
    profile
except NameError:
    from line_profiler import profile


@profile
def hot(n):
    total = 0
    for i in range(n):
        total += i * i
    return total


@profile
def never_called(x):
    return x


@profile
def slow():
    import time
    time.sleep(0.12)            # one hit lasting more than 1e6 output units for the small units: the wide scientific cells
    return 1


def make(k):
    @profile
    def scaled(v):                # decorated anew on every call of the factory: several code objects under one (file, line, name)
        w = v * k
        return w
    return scaled


_made = {}
exec(compile("def made(x):\\n    y = x + 1\\n    return y\\n", "<string>", "exec"), _made)      # a function whose source is in no file
made = profile(_made["made"])


@profile
def caller(n):
    return hot(n) + hot(n // 2) + slow() + make(2)(n) + make(3)(n) + make(5)(1) + made(n)


print(caller(%d))
'''


def canon(timings):
    return {'%s|%d|%s' % k: [list(e) for e in v] for k, v in timings.items()}


def run_case(c, d):
    name = c['name']           # script file name (may be non-ASCII)
    path = os.path.join(d, name)
    with open(path, 'w', encoding='utf-8') as fh:
        fh.write(PROG % c['n'])
    env = dict(os.environ)
    env.pop('LINE_PROFILE', None)
    out = {}
    # ---- kernprof -l -v [-u u] [-z]
    args = ['-l', '-v'] + (['-u', c['unit']] if c['unit'] else []) + (['-z'] if c['z'] else []) + [name]
    buf = io.StringIO()
    cwd = os.getcwd()
    os.chdir(d)
    try:
        with contextlib.redirect_stdout(buf):
            kernprof.main(args)
    finally:
        os.chdir(cwd)
    vtext = buf.getvalue()
    marker = 'Wrote profile results to %s.lprof\n' % name
    out['kernprof_view'] = vtext.split(marker, 1)[1] if marker in vtext else None
    lprof = os.path.join(d, name + '.lprof')
    # ---- the saved file
    st = line_profiler.load_stats(lprof)
    out['loaded'] = {'unit': st.unit, 'timings': canon(st.timings)}
    # ---- python -m line_profiler on the saved file, same options (default unit of both CLIs is 1e-6)
    vargs = (['-u', c['unit']] if c['unit'] else []) + (['-z'] if c['z'] else [])
    p = subprocess.run([sys.executable, '-m', 'line_profiler'] + vargs + [lprof], capture_output=True, text=True, env=env, cwd=d)
    out['viewer_cli'] = p.stdout
    # ---- the same viewer where the source file cannot be found (saved file moved to another directory)
    d0 = os.path.join(d, 'elsewhere')
    os.makedirs(d0)
    import shutil
    shutil.copy(lprof, os.path.join(d0, 'moved.lprof'))
    p0 = subprocess.run([sys.executable, '-m', 'line_profiler'] + vargs + ['moved.lprof'], capture_output=True, text=True, env=env, cwd=d0)
    out['viewer_cli_nosource'] = p0.stdout
    out['prog_text'] = PROG % c['n']
    out['viewer_cli_err'] = p.stderr[-300:]
    # ---- a live profiler: print_stats vs dump/load vs show_text on the loaded data
    prof = line_profiler.LineProfiler()
    ns = {'profile': prof, '__name__': '__main__', '__file__': path}
    with contextlib.redirect_stdout(io.StringIO()):
        exec(compile(open(path, encoding='utf-8').read(), path, 'exec'), ns)
    live = prof.get_stats()
    b1 = io.StringIO()
    prof.print_stats(b1)
    dump2 = os.path.join(d, 'live.lprof')
    prof.dump_stats(dump2)
    st2 = line_profiler.load_stats(dump2)
    b2 = io.StringIO()
    line_profiler.show_text(st2.timings, st2.unit, stream=b2)
    # ---- a dump requested while another dump of the same profiler is still being written (kernprof -i's timer thread against the
    # final dump): the second file must hold what the profiler reports at that moment
    import threading
    fifo = os.path.join(d, 'slow_target.fifo')
    os.mkfifo(fifo)
    th = threading.Thread(target=prof.dump_stats, args=(fifo,))
    th.start()                                # blocks opening the pipe until somebody reads it
    import time
    time.sleep(0.05)
    dump3 = os.path.join(d, 'during.lprof')
    prof.dump_stats(dump3)
    at_that_moment = prof.get_stats()
    with open(fifo, 'rb') as fh:              # let the first dump finish
        fh.read()
    th.join(5)
    if os.path.exists(dump3):
        st4 = line_profiler.load_stats(dump3)
        out['overlapping_dump'] = {'written': True, 'equal': canon(st4.timings) == canon(at_that_moment.timings) and st4.unit == at_that_moment.unit}
    else:
        out['overlapping_dump'] = {'written': False, 'equal': False}
    # ---- the same file written again and again by one process (checkpoints), read back in between: always what was just written
    again = os.path.join(d, 'again.lprof')
    stale = []
    for rnd in range(5):
        with contextlib.redirect_stdout(io.StringIO()):
            ns['hot'](2)
        prof.dump_stats(again)
        now_ = prof.get_stats()
        back = line_profiler.load_stats(again)
        if canon(back.timings) != canon(now_.timings) or back.unit != now_.unit:
            stale.append(rnd)
    out['rewritten_file_read_back'] = {'rounds': 5, 'stale_rounds': stale}
    out['live'] = {'unit': live.unit, 'timings': canon(live.timings)}
    out['live_reloaded'] = {'unit': st2.unit, 'timings': canon(st2.timings)}
    out['live_print_stats'] = b1.getvalue()
    out['reloaded_show_text'] = b2.getvalue()
    out['model_lines_live'] = reportlib.model_lines(live.timings, live.unit, None, {'stripzeros': 0, 'details': 1, 'summarize': 0, 'sort': 0})
    ou = float(c['unit']) if c['unit'] else 1e-6
    os.chdir(d)      # kernprof recorded the script under the (relative) name it was given
    try:
        out['model_lines_view'] = reportlib.model_lines(st.timings, st.unit, ou, {'stripzeros': int(c['z']), 'details': 1, 'summarize': 0, 'sort': 0})
    finally:
        os.chdir(cwd)
    # ---- the explicit profiler: LINE_PROFILE=1 python script
    e2 = dict(env, LINE_PROFILE='1')
    d2 = os.path.join(d, 'explicit')
    os.makedirs(d2)
    path2 = os.path.join(d2, name)
    with open(path2, 'w', encoding='utf-8') as fh:
        fh.write(PROG % c['n'])
    q = subprocess.run([sys.executable, name], capture_output=True, text=True, env=e2, cwd=d2)
    out['explicit_rc'] = q.returncode
    # ---- the same in a process whose locale encoding is not UTF-8, on a program with non-ASCII text in a profiled line
    # (only for ASCII file names: a non-ASCII path cannot be named at all under such a locale)
    if all(ord(ch) < 128 for ch in name):
        d3 = os.path.join(d, 'explicit_c_locale')
        os.makedirs(d3)
        with open(os.path.join(d3, name), 'w', encoding='utf-8') as fh:
            fh.write('# -*- coding: utf-8 -*-\n' + (PROG % c['n']).replace('total = 0', "total = len('\u00fc\u00f1\u00ef') - 3"))
        e3 = dict(env, LINE_PROFILE='1', LC_ALL='C', LANG='C', PYTHONUTF8='0', PYTHONCOERCECLOCALE='0', PYTHONIOENCODING='utf-8')
        q3 = subprocess.run([sys.executable, name], capture_output=True, env=e3, cwd=d3)
        t3 = os.path.join(d3, 'profile_output.txt')
        ts3 = [f for f in os.listdir(d3) if f.startswith('profile_output_') and f.endswith('.txt')]
        r3 = {'rc': q3.returncode, 'txt': os.path.exists(t3), 'timestamped': bool(ts3), 'lprof': os.path.exists(os.path.join(d3, 'profile_output.lprof')),
              'stderr': q3.stderr.decode('utf-8', 'replace')[-300:]}
        if r3['txt']:
            raw = open(t3, 'rb').read()
            try:
                txt = raw.decode('utf-8')
                r3['utf8'] = True
                r3['has_line'] = '\u00fc\u00f1\u00ef' in txt
                r3['same_as_timestamped'] = bool(ts3) and open(os.path.join(d3, ts3[0]), 'rb').read() == raw
            except UnicodeDecodeError:
                r3['utf8'] = False
        out['explicit_c_locale'] = r3
    # ---- two explicit sessions in one directory whose output prefixes differ only after a dot: each keeps its own three files
    d4 = os.path.join(d, 'explicit_prefixes')
    os.makedirs(d4)
    pref = {}
    for pfx, n in (('nightly.v1', 3), ('nightly.v2', 5)):
        with open(os.path.join(d4, 'sess.py'), 'w', encoding='utf-8') as fh:
            fh.write('from line_profiler import profile\nprofile.enable(output_prefix=%r)\n' % pfx + (PROG % n))
        q4 = subprocess.run([sys.executable, 'sess.py'], capture_output=True, text=True, env=env, cwd=d4)
        pref[pfx] = {'rc': q4.returncode, 'n': n}
    for pfx, info in pref.items():
        files = sorted(f for f in os.listdir(d4) if f.startswith(pfx))
        info['files'] = [f if not f.startswith(pfx + '_') else pfx + '_<TS>.txt' for f in files]
        lp = os.path.join(d4, pfx + '.lprof')
        if os.path.exists(lp):
            st5 = line_profiler.load_stats(lp)
            info['hot_loop_hits'] = max([h for k, v in st5.timings.items() if k[2] == 'hot' for (_l, h, _t) in v] or [0])
    out['explicit_prefixes'] = pref
    txt = os.path.join(d2, 'profile_output.txt')
    out['explicit_txt'] = open(txt, encoding='utf-8').read() if os.path.exists(txt) else None
    ts = [f for f in os.listdir(d2) if f.startswith('profile_output_') and f.endswith('.txt')]
    out['explicit_ts_txt'] = open(os.path.join(d2, ts[0]), encoding='utf-8').read() if ts else None
    out['explicit_stdout'] = q.stdout
    elprof = os.path.join(d2, 'profile_output.lprof')
    if os.path.exists(elprof):
        st3 = line_profiler.load_stats(elprof)
        out['explicit_loaded'] = {'unit': st3.unit, 'timings': canon(st3.timings)}
        r = subprocess.run([sys.executable, '-m', 'line_profiler', '-u', repr(st3.unit), '-z', '-t', '-m', elprof], capture_output=True, text=True, env=env, cwd=d2)
        out['explicit_viewer_ztm'] = r.stdout
        out['model_lines_explicit'] = reportlib.model_lines(st3.timings, st3.unit, None, {'stripzeros': 1, 'details': 1, 'summarize': 1, 'sort': 1})
    return out


def main():
    payload = json.load(sys.stdin)
    res = []
    for c in payload['cases']:
        with tempfile.TemporaryDirectory(prefix='c11-', dir=os.environ.get('LPVERIF_SCRATCH', '/var/tmp')) as d:
            try:
                res.append(run_case(c, d))
            except Exception:
                import traceback
                res.append({'harness_error': traceback.format_exc()})
    sys.stdout.write('\n{"lpverif": %s}\n' % json.dumps({'results': res}))
    exec('pass')


main()
