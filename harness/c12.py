"""C12 — statistics only accumulate; a snapshot changes nothing.
Proof: Props/C12.lean; tie: K12 (histories of add/decorate/enable/disable/call/snapshot on the real
profiler with the virtual clock vs the model); oracle: pairwise comparison of successive real
snapshots, the same history with the intermediate snapshots removed, and entry well-formedness."""
import json
import os

import corelib
import progs
from common import ROOT

LEVEL = 'proof'


def make_case(rng):
    prog = progs.gen_program(rng, twins=rng.chance(1, 2), opts={'snaps': True, 'ticks': True, 'renable': True})       # ticks: lines that last (up to > 2**32 clock units)
    names = [n for (_f, n, _k) in prog['funcs']]
    steps = []
    nsteps = rng.below(10) + 4
    depth = 0
    for _ in range(nsteps):
        r = rng.below(100)
        if r < 22:
            steps.append(['add', rng.choice(names)])
        elif r < 32:
            steps.append(['decorate', rng.choice(names)])
        elif r < 44:
            steps.append(['enbc'])
            depth += 1
        elif r < 54:
            steps.append(['disbc'])
            depth = max(0, depth - 1)
        elif r < 76:
            steps.append(['call', rng.below(6)])
        elif r < 84:
            steps.append(['with_call', rng.below(6)])
        else:
            steps.append(['snapshot'])
    r2 = rng.fork('raw-window')
    if r2.chance(1, 3):
        # a window opened with the plain switch (enable() / disable(): the count stays 0 while the tracing is on), read in the middle
        raw = [['enable_raw'], ['call', r2.below(6)], ['snapshot'], ['call', r2.below(6)]]
        if r2.chance(1, 2):
            raw += [['enbc'], ['call', r2.below(6)], ['snapshot']]       # a counted window inside: its end switches the tracing off
            if r2.chance(1, 2):
                raw += [['disbc'], ['call', r2.below(6)]]
        raw += [['snapshot'], ['disable_raw'], ['snapshot']]
        at = r2.below(len(steps) + 1)
        steps[at:at] = raw
    steps.append(['snapshot'])
    return {'prog': prog, 'steps': steps, 'time': True}


def strip_snapshots(case):
    st = [s for s in case['steps'][:-1] if s[0] != 'snapshot'] + [['snapshot']]
    return {'prog': case['prog'], 'steps': st, 'time': True, 'inner_snaps': False}


def spans(case):
    """label (file, firstlineno, name) -> (first, last) source line of the function, from the program text"""
    import ast
    out = {}
    for fname, src in case['prog']['files']:
        tree = ast.parse(src)
        for node in ast.walk(tree):
            if isinstance(node, (ast.FunctionDef, ast.AsyncFunctionDef)):
                out[(fname, node.lineno, node.name)] = (node.lineno, node.end_lineno)
    return out


def oracle(case, r, r_nosnap):
    """returns list of (finding_class, detail)"""
    fails = []
    snaps = [corelib.parse_stats(x) for x in r['real_snaps']]
    labels = {int(k): tuple(v) for k, v in r['labels'].items()}
    sp = spans(case)
    # (2) monotone, nothing disappears
    for i in range(len(snaps) - 1):
        a, b = snaps[i], snaps[i + 1]
        for lab, d in a.items():
            for line, (h, t) in d.items():
                h2, t2 = b.get(lab, {}).get(line, (None, None))
                if h2 is None:
                    fails.append(('disappears', {'between_snapshots': [i, i + 1], 'label': labels.get(lab), 'line': line,
                                                 'before': [h, t], 'after': None}))
                elif h2 < h or t2 < t:
                    fails.append(('decreases', {'between_snapshots': [i, i + 1], 'label': labels.get(lab), 'line': line,
                                                'before': [h, t], 'after': [h2, t2]}))
    # (3) well-formed entries (raw text order is the report order)
    for i, raw in enumerate(r['real_snaps']):
        body = raw[5:].strip()
        for part in (body.split('|') if body else []):
            lab, _, es = part.partition(':')
            ls = [tuple(map(int, e.split(','))) for e in es.split(';') if e]
            lines = [e[0] for e in ls]
            if lines != sorted(set(lines)):
                fails.append(('unsorted-or-duplicate', {'snapshot': i, 'label': labels.get(int(lab)), 'lines': lines}))
            span = sp.get(labels.get(int(lab)))
            for (l, h, t) in ls:
                if h < 1 or t < 0:
                    fails.append(('nonpositive', {'snapshot': i, 'label': labels.get(int(lab)), 'entry': [l, h, t]}))
                if span and not (span[0] <= l <= span[1]):
                    fails.append(('outside-span', {'snapshot': i, 'label': labels.get(int(lab)), 'line': l, 'span': span}))
    # (1) purity: same history without the intermediate snapshots ends in the same statistics
    if r_nosnap is not None and 'error' not in r_nosnap:
        if corelib.parse_stats(r['real_snaps'][-1]) != corelib.parse_stats(r_nosnap['real_snaps'][-1]):
            fails.append(('snapshot-not-pure', {'with': r['real_snaps'][-1][:500], 'without': r_nosnap['real_snaps'][-1][:500]}))
    return fails


def classify(cls, case, det):
    """known-finding classifier (none listed for C12 after the fix of F-C12a)"""
    return None


def run(ctx):
    ctx.prove('LPVerif.Props.C12', 'LPVerif/Props/C12.lean')
    build = ctx.build()
    n = 200 if ctx.quick else 3000
    if ctx.broken:
        n *= 4
    cases = []
    corpus_dir = os.path.join(ROOT, 'corpus', 'C12')
    if os.path.isdir(corpus_dir):
        for f in sorted(os.listdir(corpus_dir)):
            cases.append(json.load(open(os.path.join(corpus_dir, f))))
    ncorpus = len(cases)
    for i in range(n):
        cases.append(make_case(ctx.rng.fork('case%d' % i)))
    both = cases + [strip_snapshots(c) for c in cases]
    ctx.log('running %d histories (+%d snapshot-free twins, %d from corpus)' % (len(cases), len(cases), ncorpus))
    results = corelib.run_real(build, both, delta=1)
    main, nosnap = results[:len(cases)], results[len(cases):]
    if getattr(ctx, 'driver_ok', True):
        corelib.run_model(main)
    kdiff = 0
    opdist = {}
    nontrivial = set()
    readds = 0
    for case, r, r2 in zip(cases, main, nosnap):
        if 'error' in r:
            ctx.broken.append(('harness', r['error'][-1500:]))
            continue
        for s in case['steps']:
            opdist[s[0]] = opdist.get(s[0], 0) + 1
        added = [s[1] for s in case['steps'] if s[0] in ('add', 'decorate')]
        if len(added) != len(set(added)):
            readds += 1
        if r['collision']:
            continue
        fails = oracle(case, r, r2)
        for cls, det in fails[:3]:
            ctx.fail('C12 oracle: ' + cls, {'finding_class': classify(cls, case, det), 'class': cls, 'detail': det, 'case': case})
        if getattr(ctx, 'driver_ok', True):
            diffs = corelib.compare_case(r)
            if diffs:
                kdiff += 1
                if not fails:
                    ctx.broken.append(('K12 correspondence', '; '.join(diffs)[:800]))
                    ctx.write_replay({'property': 'C12', 'kind': 'correspondence-disagreement', 'case': case, 'diffs': diffs})
        snaps = [x for x in r['real_snaps'] if len(x) > 8]
        if len(snaps) >= 2 and len(set(snaps)) >= 2:
            nontrivial.add(corelib.case_digest(case))
    ctx.coverage.update({
        'evaluations': len(cases), 'distinct_nontrivial': len(nontrivial),
        'rule': 'G_hist: random histories (4-14 steps) over add / decorate (repeats allowed) / enable_by_count / disable_by_count (surplus allowed) / '
                'call / with-call / snapshot on G_prog programs, virtual clock with delta=1; non-trivial = at least two different non-empty snapshots; '
                'every history is also run without its intermediate snapshots',
        'traces_validated_against_impl': len(cases) - kdiff, 'correspondence_disagreements': kdiff,
        'op_distribution': opdist, 'histories_with_re_registration': readds, 'corpus_cases': ncorpus})
    if cases:
        ctx.coverage['samples'].append({'steps': cases[-1]['steps'], 'real_snapshots': main[-1].get('real_snaps', [])[:3]})
    ctx.assumptions += ['virtual clock (tools/vclock_timers.c) replaces hpTimer in the scratch build so that times are comparable integers',
                        'NoCollision as in C01']
    return ctx.finish('Lean: snapshot purity (getStats reads only), monotonicity of every stored counter and of the reported sums for all op lists; '
                      'K12 ties the model to the real profiler over histories; oracle compares successive real snapshots')


def replay(ctx, path):
    data = json.load(open(path))
    case = data.get('witness', data).get('case') or data.get('case')
    build = ctx.build()
    results = corelib.run_real(build, [case, strip_snapshots(case)], delta=1)
    corelib.run_model(results[:1])
    print(json.dumps({'diffs': corelib.compare_case(results[0]), 'oracle': oracle(case, results[0], results[1])}, indent=1, default=str))
    return 0
