"""C03 — decorating a callable never changes what it does.
Proof: Props/C03.lean (wrapGenerator_bisim for every body and every send/throw/close history; wrapCoroutine_transparent_partial;
wrapCallable_transparent / wrapCallable_shape for towers of any depth; wrap_step_brackets; register_inert; enable_never_raises;
dispatch_order / impl_table over the tables regenerated from the tree).
Tie: K03 — real generators / coroutines / async generators built from scripts and real towers of classmethod / staticmethod /
bound / partial / partialmethod / property / cached_property objects, decorated by a real LineProfiler and by kernprof's
ContextualProfile, against the model's wrapper and wrap.
Oracle: decorated real object vs undecorated real object (results, exceptions, side-effect order, metadata)."""
import json
import os

import wraplib
from common import ROOT, run_worker

LEVEL = 'proof'


def gen_oracle(case, r):
    """wrapped real == original real, within the hypotheses of the theorems"""
    bad = []
    for pname, x in r.items():
        ops = case['ops']
        applies = True
        if case['kind'] == 'coro':
            # `await` (PEP 380) itself differs for an explicit throw(GeneratorExit) and for bodies that await again on GeneratorExit
            applies = 'tg' not in ops and wraplib.script_compliant(case['script'])
        if applies and (x['orig'] != x['wrapped'] or x['log_orig'] != x['log_wrapped']):
            bad.append({'profiler': pname, 'original': x['orig'], 'decorated': x['wrapped'],
                        'side_effects_original': x['log_orig'], 'side_effects_decorated': x['log_wrapped']})
        # generator / async-generator wrappers bracket every step (wrap_step_brackets); the coroutine wrapper holds its
        # bracket while the coroutine is suspended (`enable; try: await ...; finally: disable`) and must release it when it ends
        if case['kind'] != 'coro':
            if any(c != 0 for c in x['counts']):
                bad.append({'profiler': pname, 'enable_count_after_each_op': x['counts']})
        else:
            for res, c in zip(x['wrapped'], x['counts']):
                if c != (1 if res.startswith('Y') else 0) and not (res == 'Rr' and c == 1):
                    bad.append({'profiler': pname, 'results': x['wrapped'], 'enable_count_after_each_op': x['counts']})
                    break
        if not all(x['meta'].values()):
            bad.append({'profiler': pname, 'metadata_preserved': x['meta']})
    return bad


def tower_oracle(case, r):
    bad = []
    for pname, x in r.items():
        for acc, a in zip(case['accesses'], x['accesses']):
            strip = lambda evs: [e.rsplit(':', 1)[0] if e.startswith('run:') else e for e in evs]   # noqa
            if strip(a['orig']) != strip(a['wrapped']) or a['orig_value'] != a['wrapped_value']:
                bad.append({'profiler': pname, 'access': acc, 'original': [a['orig'], a['orig_value']], 'decorated': [a['wrapped'], a['wrapped_value']]})
            if strip(a['orig']) != strip(a['again']) or a['orig_value'] != a['again_value']:
                bad.append({'profiler': pname, 'access': acc, 'original': [a['orig'], a['orig_value']], 'decorated_twice': [a['again'], a['again_value']]})
            if a['count_after'] != 0:
                bad.append({'profiler': pname, 'access': acc, 'enable_count_after': a['count_after']})
        if 'meta' in x and not all(x['meta'].values()):
            bad.append({'profiler': pname, 'metadata_preserved': x['meta']})
    return bad


def two_profiler_cases(build):
    return run_worker(build, 'c03_worker.py', {})


def run(ctx):
    ctx.prove('LPVerif.Props.C03', 'LPVerif/Props/C03.lean', drivers=('Wrap',))
    build = ctx.build()
    widen = bool(ctx.broken)
    gens = []
    corpus_dir = os.path.join(ROOT, 'corpus', 'C03')
    if os.path.isdir(corpus_dir):
        for f in sorted(os.listdir(corpus_dir)):
            d = json.load(open(os.path.join(corpus_dir, f)))
            if 'gen_case' in d:
                gens.append(d['gen_case'])
    ncorpus = len(gens)
    gens += wraplib.gen_cases(ctx.rng.fork('gens'), ctx.quick, widen)
    towers = wraplib.tower_cases(ctx.rng.fork('towers'), ctx.quick, widen)
    ctx.log('%d scripted generator/coroutine/async-generator histories, %d towers on the real code' % (len(gens), len(towers)))
    rg, rt = wraplib.run_real(build, gens, towers)
    mg = mt = None
    if getattr(ctx, 'driver_ok', True):
        mg = wraplib.run_model_gens(gens)
        mt = wraplib.run_model_towers(towers)
    kdiff = 0
    dist = {}
    nontrivial = set()
    for i, (c, r) in enumerate(zip(gens, rg)):
        if 'error' in r:
            ctx.broken.append(('harness', r['error'][-1500:]))
            continue
        dist[c['kind']] = dist.get(c['kind'], 0) + 1
        bad = gen_oracle(c, r)
        for b in bad[:2]:
            ctx.fail('decorated %s does not behave like the original' % c['kind'], {'finding_class': None, 'gen_case': c, 'difference': b})
        if mg is not None:
            for pname, x in r.items():
                mo = wraplib.agen_view(c['kind'], mg[i]['raw'])
                mw = wraplib.agen_view(c['kind'], mg[i]['wrapped'])
                # domain of the model: CPython marks an async generator closed when aclose() is *started*; if the body then ignores
                # GeneratorExit (aclose() ends in RuntimeError) the object lives on with that mark and answers later athrow() / aclose()
                # with StopAsyncIteration.  Model.Gen has no such mark: K03 compares up to that point (the oracle above still compares
                # the whole sequence, original against decorated)
                cut = len(c['ops'])
                if c['kind'] == 'agen':
                    cut = next((j + 1 for j, (op, res) in enumerate(zip(c['ops'], x['orig'])) if op == 'c' and res == 'Rr'), cut)
                if mo[:cut] != x['orig'][:cut] or mw[:cut] != x['wrapped'][:cut]:
                    kdiff += 1
                    if not bad:
                        ctx.broken.append(('K03 correspondence (protocol)', 'case %s model raw %s wrapped %s real %s / %s' % (json.dumps(c), mo, mw, x['orig'], x['wrapped'])))
                    break
        if any(o[0] == 't' or o == 'c' for o in c['ops']) and len(c['ops']) >= 2:
            nontrivial.add(json.dumps(c, sort_keys=True))
    for i, (c, r) in enumerate(zip(towers, rt)):
        if 'error' in r:
            ctx.broken.append(('harness', r['error'][-1500:]))
            continue
        top = c['tower'][0]
        dist['tower:' + top] = dist.get('tower:' + top, 0) + 1
        bad = tower_oracle(c, r)
        for b in bad[:2]:
            ctx.fail('decorated object does not behave like the original', {'finding_class': None, 'tower_case': c, 'difference': b})
        if mt is not None:
            for pname, x in r.items():
                diffs = []
                if x['wrapped'] != mt[i]['wrapped']:
                    diffs.append('wrap: model %s real %s' % (' '.join(mt[i]['wrapped']), ' '.join(x['wrapped'])))
                if x['again'] != mt[i]['again']:
                    diffs.append('wrap twice: model %s real %s' % (' '.join(mt[i]['again']), ' '.join(x['again'])))
                for acc, a, m in zip(c['accesses'], x['accesses'], mt[i]['accesses']):
                    if a['orig'] != m['orig'] or a['wrapped'] != m['wrapped']:
                        diffs.append('access %s: model %s / %s real %s / %s' % (acc, m['orig'], m['wrapped'], a['orig'], a['wrapped']))
                if diffs:
                    kdiff += 1
                    if not bad:
                        ctx.broken.append(('K03 correspondence (towers)', 'tower %s p=%d: %s' % (' '.join(c['tower']), c['p'], '; '.join(diffs)[:700])))
                    break
        if len(c['tower']) > 4:
            nontrivial.add(json.dumps(c, sort_keys=True))
    # several profilers at once
    tp = two_profiler_cases(build)
    ctx.coverage['two_profiler_scenarios'] = tp
    for name, res in tp['scenarios'].items():
        if res != 'ok':
            ctx.fail('a decorated callable does not give the same result / exception for some keyword argument' if name.startswith('keyword') else
                     'one profiler being active made code decorated by another profiler fail',
                     {'finding_class': tp['classes'].get(name), 'scenario': name, 'result': res})
    ctx.coverage.update({
        'evaluations': len(gens) + len(towers) + len(tp['scenarios']), 'distinct_nontrivial': len(nontrivial),
        'rule': '7 fixed scripts x every history of length <= 3 (quick: sampled) over {next, send 5, throw user, throw GeneratorExit, close} x '
                '{generator, coroutine, async generator} + random scripts (1-4 states, reactions to send / throw / GeneratorExit) x random histories up to 12; '
                'towers: all 8 property shapes, every single-layer kind x {plain, gen, coro, agen} + random towers of depth <= 4 with pre-wrapped '
                'layers of the same / other profilers; LineProfiler and ContextualProfile; non-trivial = history uses throw or close, resp. tower has >= 2 layers',
        'traces_validated_against_impl': len(gens) + len(towers) - kdiff, 'correspondence_disagreements': kdiff,
        'distribution': dist, 'corpus_cases': ncorpus})
    ctx.coverage['samples'].append({'gen_case': gens[-1], 'real': rg[-1], 'model': mg[-1] if mg else None})
    ctx.coverage['samples'].append({'tower_case': towers[-1], 'real': rt[-1], 'model': mt[-1] if mt else None})
    ctx.assumptions += ['async generators whose body ignores GeneratorExit during aclose(): CPython keeps them marked closed (later athrow / aclose give StopAsyncIteration); Model.Gen has no such mark, K03 compares such histories up to the failed aclose(), the oracle compares them in full',
                        'CPython\'s generator / await / descriptor semantics are modelled (Model/Gen.lean, Model/Callable.lean) and exercised by K03, not verified',
                        'coroutines: explicit throw(GeneratorExit) and bodies that await again on GeneratorExit are outside the theorem (await itself differs there); '
                        'K03 still compares the real wrapper with the model of await-delegation on those inputs',
                        'async generators: asend/athrow/aclose are atomic steps in the model; suspensions to the event loop inside a step are exercised (inner_await), not modelled',
                        'towers: the model gives meaning to sensible compositions (callable chain under at most one descriptor); nested descriptors are not generated']
    return ctx.finish('Lean: bisimulation of the generator wrapper for all bodies and histories, await-delegation (partial), towers by structural induction; '
                      'K03 on real objects; oracle = decorated vs undecorated real object')


def replay(ctx, path):
    data = json.load(open(path))
    w = data.get('witness', data)
    build = ctx.build()
    if 'gen_case' in w:
        rg, _ = wraplib.run_real(build, [w['gen_case']], [])
        print(json.dumps({'real': rg[0], 'oracle': gen_oracle(w['gen_case'], rg[0]), 'model': wraplib.run_model_gens([w['gen_case']])}, indent=1))
    elif 'tower_case' in w:
        _, rt = wraplib.run_real(build, [], [w['tower_case']])
        print(json.dumps({'real': rt[0], 'oracle': tower_oracle(w['tower_case'], rt[0]), 'model': wraplib.run_model_towers([w['tower_case']])}, indent=1))
    else:
        print(json.dumps(two_profiler_cases(build), indent=1))
    return 0
