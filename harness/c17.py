"""C17 — relative imports in a profiled module resolve as Python resolves them.
Proof: Props/C17.lean (resolve_eq_python for all names/levels/targets) + bridge (code emitted from
run_module.get_module_from_importfrom = model); tie K17: exhaustive small scope against the real function;
oracle: importlib.util.resolve_name, and the real AstTreeModuleProfiler rewrite of files at every position
(plain module, package __init__, package __main__)."""
import json

import corelib
from common import lean_driver

LEVEL = 'proof'
NAMES = ['pkg', 'sub', 'deep', 'x1', 'yy', 'zz']


def run(ctx):
    ctx.prove('LPVerif.Props.C17', 'LPVerif/Props/C17.lean', extra_modules=['LPVerif.Bridge.RelImport'], drivers=('Argv',))
    build = ctx.build()
    maxd = 5 if ctx.quick else 7
    units = []
    for depth in range(2, maxd + 1):                      # components of the full dotted name (incl. the file's own)
        for last in ('modx', '__init__', '__main__'):
            comps = NAMES[:depth - 1] + [last]
            for level in range(1, depth):                  # levels valid at that position
                for target in (None, 't1', 't1.t2', 't1.t2.t3'):
                    units.append({'modname': '.'.join(comps), 'level': level, 'target': target})
    trees = []
    for depth in range(1, (4 if ctx.quick else 6)):
        for kind in ('plain', 'init', 'main'):
            pkg = NAMES[:depth]
            imports = []
            for level in range(1, depth + 1):
                for target in (None, 'sib', 'sib.leaf'):
                    imports.append([level, target, [['n1', None], ['n2', 'alias2']]])
            trees.append({'pkg': pkg, 'kind': kind, 'imports': imports, 'shift': len(trees)})
            # the same file reached through a symbolic link at the top-level package (its target directory has another name)
            trees.append({'pkg': pkg, 'kind': kind, 'imports': imports, 'link': len(trees) + 1, 'shift': len(trees) + 5})
            if kind == 'plain' and depth >= 2:
                # a module called like one of the packages it lies in (util/util.py, core/core.py): the text of its own name occurs
                # earlier in its dotted name
                for nm in sorted(set(pkg[1:])):
                    trees.append({'pkg': pkg, 'kind': kind, 'imports': imports, 'modfile': nm, 'shift': len(trees) + 1})
            # a search-path entry inside the package, at every depth
            for k in range(1, depth + 1):
                trees.append({'pkg': pkg, 'kind': kind, 'imports': imports, 'inner_path': k, 'shift': len(trees) + 2})
    ctx.log('%d unit cases, %d file rewrites' % (len(units), len(trees)))
    results = corelib.run_real(build, units + trees, worker='c17_worker.py')
    model = None
    if getattr(ctx, 'driver_ok', True):
        model = lean_driver('argv', ['rel %d %s %s' % (u['level'], u['target'] or '-', u['modname']) for u in units])
    kdiff = 0
    nontrivial = set()
    for i, (u, r) in enumerate(zip(units, results)):
        if 'error' in r:
            ctx.broken.append(('harness', r['error'][-1200:]))
            continue
        if r['real'] != r['python']:
            ctx.fail('relative import resolved differently from Python', {'finding_class': None, 'case': u, 'real': r['real'], 'python': r['python']})
        if model is not None:
            m_impl, m_py = model[i].split(' ')
            if m_impl != r['real'] or m_py != r['python']:
                kdiff += 1
                if r['real'] == r['python']:
                    ctx.broken.append(('K17 correspondence', 'case %s model %s real %s python %s' % (u, model[i], r['real'], r['python'])))
        if u['level'] >= 2 or u['target']:
            nontrivial.add(json.dumps(u))
    for t, r in zip(trees, results[len(units):]):
        if 'error' in r:
            ctx.broken.append(('harness', r['error'][-1200:]))
            continue
        if r['got'] != r['expected']:
            bad = [(g, e) for g, e in zip(r['got'], r['expected']) if g != e]
            ctx.fail('AstTreeModuleProfiler rewrote a relative import differently from Python\'s resolution (or touched names/aliases)',
                     {'finding_class': None, 'case': {k: t[k] for k in ('pkg', 'kind', 'link', 'inner_path', 'modfile') if k in t}, 'first_differences(got,expected)': bad[:4]})
        nontrivial.add(json.dumps([t['pkg'], t['kind']]))
    ctx.coverage.update({
        'evaluations': len(units) + len(trees), 'distinct_nontrivial': len(nontrivial),
        'rule': 'every (depth <= %d, file kind in {module, __init__, __main__}, level valid at that position, target in {none, 1, 2, 3 segments}) against the real '
                'function, importlib.util.resolve_name and the model; plus real file rewrites by AstTreeModuleProfiler for every depth/kind with all levels and aliased names, also through a symlinked top-level package and with a sys.path entry inside the package' % maxd,
        'unit_cases': len(units), 'file_rewrites': len(trees), 'traces_validated_against_impl': len(units) - kdiff,
        'correspondence_disagreements': kdiff, 'exhaustive': True})
    ctx.coverage['samples'].append({'unit': units[-1], 'result': results[len(units) - 1]})
    ctx.coverage['samples'].append({'tree': trees[-1]['pkg'], 'kind': trees[-1]['kind'], 'got': results[-1].get('got', [])[:3]})
    ctx.assumptions += ['the string glue (split on ".", join) is exercised by K17, the theorem is on component lists',
                        'importlib.util.resolve_name is taken as Python\'s resolution']
    return ctx.finish('Lean: resolve_eq_python for all module names, levels and targets; bridge: emitted get_module_from_importfrom = model; '
                      'K17 exhaustive small scope on the real function and on real file rewrites')


def replay(ctx, path):
    data = json.load(open(path))
    print(json.dumps(corelib.run_real(ctx.build(), [data['witness']['case']] if 'modname' in data['witness']['case'] else [], worker='c17_worker.py')))
    return 0
