"""C19 — running kernprof in-process leaves the interpreter as it found it.
Proof: Props/C19.lean — heap model of sys.argv / sys.path (main_restores for every effect of _main and the program), and over the
control skeletons dumped from the tree, for every environment: restore_list_always, main_wrapper_restores, install_balanced,
timers_stopped, main_has_no_capturing_decorators.
Tie: K19 — the real kernprof.main run in-process (every run mode x every way the program / the setup file / the script lookup /
argument parsing can end, -i, -s, sequences of runs, programs that rebind or mutate sys.argv / sys.path, an embedding application that
rebound sys.argv before the call) vs `exec` of the dumped skeleton on the same options and leaf outcomes.
Oracle: the property read off the real interpreter state before / after each call."""
import json

import kplib

LEVEL = 'proof'

EVIL = "sys.argv = ['rebound-by-program']\nsys.path.insert(0, '/evil-dir')\nsys.path = sys.path + ['/evil-dir-2']\n"


def scenarios(ctx):
    scs = []
    for mode in kplib.MODES:
        for kind in kplib.KINDS:
            scs.append(kplib.scenario(mode, kind))
    for mode in ('l', 'b', 'lm', 'plain'):
        for kind in kplib.KINDS:
            scs.append(kplib.scenario(mode, kind, extra_opts=['-i', '1']))
            scs.append(kplib.scenario(mode, kind, extra_prog=EVIL))
            scs.append(kplib.scenario(mode, kind, pre={'rebind_argv': True, 'rebind_path': True}))
    # the profiled function runs only in a worker thread of the program (the main thread never enters profiled code)
    THREAD_PROG = ('import sys, threading\ntry:\n    profile\nexcept NameError:\n    def profile(f):\n        return f\n\n\n@profile\ndef work(n):\n'
                   '    total = 0\n    for i in range(n):\n        total += i\n    return total\n\n\nprint("started", sys.argv[1:])\n'
                   't = threading.Thread(target=work, args=(5,))\nt.start()\nt.join()\nprint("finished")\n')
    for mode in ('l', 'lb', 'lm', 'b'):
        s = kplib.scenario(mode, 'none', files={'prog.py': THREAD_PROG})
        s['meta']['sequence'] = 1
        s['meta']['worker_thread_only'] = True
        s['runs'].append(kplib.scenario('plain', 'none')['runs'][0])       # then a cProfile-mode run in the same interpreter
        scs.append(s)
    # profiled calls that overlap in two threads: the main thread's call returns while the worker's is still running (each thread switches its own
    # tracing off when *its* outermost call ends), for every ending of the program
    OVERLAP_PROG = ('import sys, threading\ntry:\n    profile\nexcept NameError:\n    def profile(f):\n        return f\n\n\n'
                    'inside, go = threading.Event(), threading.Event()\n\n\n@profile\ndef worker_part():\n    inside.set()\n    go.wait(20)\n    return 1\n\n\n'
                    '@profile\ndef main_part():\n    t = threading.Thread(target=worker_part)\n    t.start()\n    inside.wait(20)\n    return t\n\n\n'
                    't = main_part()\ngo.set()\nt.join()\n%s\n')
    for mode in ('l', 'lb', 'lm'):
        for kind, ending in (('none', ''), ('exit', 'sys.exit(3)'), ('error', 'raise ValueError("boom")')):
            s = kplib.scenario(mode, kind, files={'prog.py': OVERLAP_PROG % ending})
            s['meta']['overlapping_threads'] = True
            s['meta']['k'] = 0 if kind != 'none' else s['meta']['k']
            scs.append(s)
    # a profiled generator that is closed before it is exhausted and whose clean-up code fails (raises, or ends the program): the wrapper's
    # bracket around the close must be taken back on that way out too
    GEN_PROG = ('import sys\ntry:\n    profile\nexcept NameError:\n    def profile(f):\n        return f\n\n\n'
                '@profile\ndef numbers():\n    try:\n        yield 1\n        yield 2\n    finally:\n        %s\n\n\n'
                'g = numbers()\nnext(g)\n%s\nprint("done")\n')
    for mode in ('l', 'lb', 'lm'):
        for kind, cleanup, closing in (('none', 'raise RuntimeError("clean-up fails")', 'try:\n    g.close()\nexcept RuntimeError:\n    pass'),
                                       ('error', 'raise ValueError("clean-up fails")', 'g.close()'),
                                       ('exit', 'sys.exit(3)', 'g.close()'),
                                       ('none', 'raise RuntimeError("clean-up fails")', 'try:\n    del g\nexcept RuntimeError:\n    pass')):
            s = kplib.scenario(mode, kind, files={'prog.py': GEN_PROG % (cleanup, closing)})
            s['meta']['generator_cleanup_fails'] = True
            s['meta']['k'] = 0 if kind != 'none' else s['meta']['k']
            scs.append(s)
    # -i with an output file whose directory does not exist yet when the periodic dump is due (that dump fails in the timer thread); the
    # program creates it before it ends: no timer thread may outlive main
    for mode in ('l',):
        s = kplib.scenario(mode, 'none', extra_opts=['-i', '3', '-o', 'late_dir/out.bin'],
                           extra_prog='import time, os\ntime.sleep(3.4)\nos.makedirs("late_dir", exist_ok=True)')      # (the next tick lies beyond the grace period)
        s['meta']['periodic_dump_fails'] = True
        scs.append(s)
    # an imported module selected for auto-profiling (-p): every registration call the rewrite inserts switches the profiler on, by count,
    # for the rest of the run — it has to be off again when main returns or raises
    for mode in ('l', 'lm', 'lb'):
        for kind in ('none', 'exit', 'error'):
            s = kplib.scenario(mode, kind, extra_opts=['-p', 'helper_mod'] + (['--prof-imports'] if kind == 'none' and mode == 'l' else []),
                               files={'helper_mod.py': 'def hf(x):\n    return x + 1\n'}, extra_prog='import helper_mod\nhelper_mod.hf(1)')
            s['meta']['imported_module_selected'] = True
            scs.append(s)
    # the embedding application had set the importable decorator up itself before calling kernprof
    for mode in ('l', 'b', 'lm', 'plain'):
        for kind in ('none', 'error'):
            for ps in ('enabled', 'disabled'):
                scs.append(kplib.scenario(mode, kind, pre={'profile_state': ps}))
    for mode in ('l', 'b', 'plain', 'lm'):
        scs.append(kplib.scenario(mode, 'none', extra_opts=['-s', 'setup.py'], files={'setup.py': 'import sys\nsys.path.append("/from-setup")\n'}))
        s = kplib.scenario(mode, 'none', extra_opts=['-s', 'setup.py'], files={'setup.py': 'raise ValueError("setup fails")\n'})
        s['meta']['setup'] = 'other'
        scs.append(s)
        s = kplib.scenario(mode, 'none', extra_opts=['-s', 'missing_setup.py'])
        s['meta']['setup'] = 'missing'
        scs.append(s)
    for mode in ('l', 'b', 'plain'):
        s = kplib.scenario(mode, 'none', script='does_not_exist.py')
        s['meta']['lookup'] = 'missing'
        scs.append(s)
    for mode in ('lm', 'm'):
        s = kplib.scenario(mode, 'none')
        s['runs'][0]['args'] = [a if a != 'prog' else 'no_such_module' for a in s['runs'][0]['args']]
        s['meta']['lookup'] = 'missing'
        scs.append(s)
    # the results cannot be written (output file in a directory that does not exist): main raises, everything else is put back
    for mode in ('l', 'b', 'plain', 'lm'):
        s = kplib.scenario(mode, 'none', extra_opts=['-o', 'no_such_dir/out.bin'])
        s['meta']['outfile'] = 'unwritable'
        scs.append(s)
    for bad in (['--nonsense', 'prog.py'], ['-l'], ['-u', '-1', 'prog.py'], ['-h']):
        s = kplib.scenario('l', 'none')
        s['runs'][0]['args'] = bad
        s['meta']['argparse'] = True
        scs.append(s)
    # sequences of runs in one interpreter
    n = 12 if ctx.quick else 120
    for i in range(n):
        r = ctx.rng.fork('seq%d' % i)
        first = kplib.scenario(r.choice(list(kplib.MODES)), r.choice(kplib.KINDS), extra_opts=['-i', '1'] if r.chance(1, 4) else [])
        for _ in range(r.below(2) + 1):
            nxt = kplib.scenario(r.choice(['l', 'b', 'plain', 'lb']), r.choice(kplib.KINDS))
            first['runs'].append(nxt['runs'][0])
        first['meta']['sequence'] = len(first['runs'])
        scs.append(first)
    return scs


def oracle(run):
    b, a = run['before'], run['after']
    bad = []
    if a['argv_id'] != b['argv_id'] or a['argv'] != b['argv']:
        bad.append({'sys.argv': {'before': b['argv'], 'after': a['argv'], 'same_object': a['argv_id'] == b['argv_id']}})
    if a['path_id'] != b['path_id'] or a['path'] != b['path']:
        extra = [x for x in a['path'] if x not in b['path']]
        bad.append({'sys.path': {'same_object': a['path_id'] == b['path_id'], 'entries_left_behind': extra[:5], 'len_before': len(b['path']), 'len_after': len(a['path'])}})
    if run['threads_left']:
        bad.append({'threads_left_running': run['threads_left']})
    if a['trace'] or a['tool'] is not None:
        bad.append({'profiler_left_enabled': {'trace_function': a['trace'], 'monitoring_tool': a['tool']}})
    if (a['profile_enabled'], a['profile_has_profiler']) != (b['profile_enabled'], b['profile_has_profiler']):
        bad.append({'line_profiler.profile': {'before': [b['profile_enabled'], b['profile_has_profiler']], 'after': [a['profile_enabled'], a['profile_has_profiler']]}})
    if run['profile_usable'] != ('wrapped' if b['profile_enabled'] else 'same'):
        bad.append({'@line_profiler.profile afterwards': run['profile_usable']})
    return bad


def risks_of(meta):
    r = []
    if '-s' in meta.get('extra_opts', []):
        if meta.get('setup') == 'missing':
            return ['sysExit']
        r.append('none')
        if meta.get('setup') == 'other':
            return r + ['other']
        r.append('none')
    if meta.get('lookup') == 'missing':
        return r + ['sysExit']
    r.append('none')
    r.append(kplib.KIND_TO_EXC[meta['kind']])
    if meta.get('outfile') == 'unwritable':
        r.append('other')              # the final dump is a leaf that can fail
    return r


OUT_MAP = {'normal': 'return', 'returned': 'return', 'raised sysExit': 'SystemExit', 'raised kbInt': 'KeyboardInterrupt', 'raised other': 'Exception'}


def run(ctx):
    ctx.prove('LPVerif.Props.C19', 'LPVerif/Props/C19.lean', drivers=('Skel',))
    build = ctx.build()
    scs = scenarios(ctx)
    ctx.log('%d kernprof.main scenarios in-process' % len(scs))
    res = kplib.run_real(build, scs)
    kdiff = 0
    nontrivial = set()
    dist = {}
    nruns = 0
    preds = {}
    if getattr(ctx, 'driver_ok', True):
        idx = [i for i, sc in enumerate(scs) if not sc['meta'].get('argparse')]
        for i, p in zip(idx, kplib.model_predict_many([(scs[i]['meta'], risks_of(scs[i]['meta'])) for i in idx])):
            preds[i] = p
    for si, (sc, r) in enumerate(zip(scs, res)):
        if 'error' in r:
            ctx.broken.append(('harness', r['error'][-1500:]))
            continue
        meta = sc['meta']
        for j, run_ in enumerate(r['runs']):
            nruns += 1
            bad = oracle(run_)
            if bad:
                ctx.fail('kernprof.main did not leave the interpreter as it found it',
                         {'finding_class': None, 'scenario': {'meta': meta, 'args': sc['runs'][j]['args'], 'pre': sc.get('pre')}, 'left_behind': bad,
                          'outcome': run_['outcome'], 'stderr': run_['stderr'][-300:]})
            k = '%s/%s' % (meta['mode'], run_['outcome'].split(':')[0])
            dist[k] = dist.get(k, 0) + 1
        # K19: the first run of the scenario against the dumped skeleton
        if si in preds:
            pred = preds[si]
            real = r['runs'][0]
            exp_out = OUT_MAP.get(pred['outcome'], '?')
            wrote = any(v['kind'] in ('lprof', 'pstats') for v in real['outputs'].values())
            exp_dump = kplib.count(pred['log'], 'prof.dump_stats(options.outfile)') == 1
            if meta.get('outfile') == 'unwritable':
                wrote = exp_dump        # attempted, and failed: nothing is written
            if meta.get('periodic_dump_fails'):
                wrote = exp_dump        # (the file goes into a sub-directory the collector of outputs does not look into)
            if not real['outcome'].startswith(exp_out) or wrote != exp_dump:
                kdiff += 1
                if not oracle(real):
                    ctx.broken.append(('K19 correspondence', 'scenario %s: skeleton predicts %s, dump=%s; real %s, outputs %s' % (
                        json.dumps(meta), pred['outcome'], exp_dump, real['outcome'], list(real['outputs']))))
        if meta['kind'] != 'none' or meta.get('extra_opts') or sc.get('pre') or meta.get('lookup') or meta.get('setup') or meta.get('sequence'):
            nontrivial.add(json.dumps(meta, sort_keys=True) + json.dumps(sc.get('pre')))
    ctx.coverage.update({
        'evaluations': nruns, 'distinct_nontrivial': len(nontrivial),
        'rule': '9 run modes x 4 ways the program ends; -i 1; programs that rebind / mutate sys.argv and sys.path; an embedding application that rebound '
                'sys.argv / sys.path before the call; setup file ok / raising / missing; script or module not found; argparse errors and -h; random '
                'sequences of 2-3 runs in one interpreter. non-trivial = anything but a plain normally-ending run',
        'traces_validated_against_impl': len(scs) - kdiff, 'correspondence_disagreements': kdiff, 'distribution': dist})
    ctx.coverage['samples'].append({'scenario': scs[-1]['meta'], 'args': [x['args'] for x in scs[-1]['runs']],
                                    'real_first_run': {k: v for k, v in res[-1]['runs'][0].items() if k in ('outcome', 'threads_left', 'profile_usable', 'outputs')}})
    ctx.assumptions += ['leaves of the skeleton that do not run user code or look files up are assumed not to raise',
                        'the heap model abstracts list objects to (binding, contents); tied to the code by the skeleton of main (main_wrapper_restores) and K19',
                        'builtins.profile (set by -l/-b) is not part of the property as stated and is not checked']
    return ctx.finish('Lean: main_restores on the heap model for every effect; skeleton obligations lifted to all environments; K19 real in-process runs; '
                      'oracle = interpreter state before/after')


def replay(ctx, path):
    data = json.load(open(path))
    w = data.get('witness', data)
    sc = w['scenario']
    s = kplib.scenario(sc['meta']['mode'], sc['meta']['kind'], sc['meta'].get('n', 4), sc['meta'].get('k', 2), sc['meta'].get('extra_opts', ()),
                       pre=sc.get('pre'))
    s['runs'][0]['args'] = sc['args']
    r = kplib.run_real(ctx.build(), [s])[0]
    print(json.dumps({'oracle': [oracle(x) for x in r.get('runs', [])], 'real': r}, indent=1)[:6000])
    return 0
