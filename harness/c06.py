"""C06 — results are delivered however the profiled program ends.
Proof: Props/C06.lean over the control skeletons dumped from the tree (dump_exactly_once, exits_absorbed, dump_after_program for every
run mode and every way / point the program can end; wrappers_close_bracket, generator_iterations_balanced) + C01 (what is stored is
exactly what executed).
Tie: K06 — the real kernprof run in-process for every run mode x termination kind x every crash point of a loop, the outcome and the
written file against `exec` of the dumped skeleton.
Oracle: the file exists, loads, and holds exactly the closed-form hit counts of everything executed up to the crash point; real
`python -m kernprof` and LINE_PROFILE=1 subprocesses for each termination kind (exit code, file, traceback)."""
import concurrent.futures as cf
import json
import os
import shutil
import subprocess
import tempfile

import kplib
from common import real_env, PY, SCRATCH_ROOT

LEVEL = 'proof'


def check_outputs(meta, run):
    """returns failure description or None"""
    opts, lbl, builtin, module, prof_mod = kplib.MODES[meta['mode']]
    outs = run['outputs']
    name = 'prog.lprof' if (module and lbl) else 'prog.prof' if module else ('prog.py.lprof' if lbl else 'prog.py.prof')
    if name not in outs:
        return {'missing_output': name, 'outputs': list(outs)}
    o = outs[name]
    if o['kind'] == 'unloadable':
        return {'unloadable': o}
    exp = kplib.expected_hits(meta['n'], meta['k'], meta['kind'])
    if lbl:
        t = o['timings'].get('prog.py:work')
        if t is None:
            return {'function_missing_from_stats': list(o['timings'])}
        # entries are [line - firstlineno, hits]; the decorator line is firstlineno, `def` is +1
        got = {off - 1: h for off, h in t}
        want = {kplib.WORK_LINES[k]: v for k, v in exp.items() if v}
        if got != want:
            return {'hits_reported': got, 'hits_executed': want}
    else:
        want = {'work'} | ({'crash'} if meta['kind'] != 'none' and 0 <= meta['k'] < meta['n'] else set())
        if builtin and not want <= set(o['functions']):
            return {'pstats_functions': o['functions'], 'expected_to_contain': sorted(want)}
    return None


def cli_case(build, mode, kind, explicit=False, early=False, midshow=False, c_locale=False):
    d = tempfile.mkdtemp(prefix='c06-', dir=SCRATCH_ROOT)
    try:
        n, k = 5, 3
        with open(os.path.join(d, 'prog.py'), 'w', encoding='utf-8') as fh:
            # early: the program ends before any line of a profiled function has run (e.g. while checking its arguments)
            # midshow: the program asks for an intermediate report itself (the documented profile.show()) and then goes on
            src = kplib.prog_text(n, k, kind, extra='crash(%r)' % kind if early else (midshow if isinstance(midshow, str) else 'profile.show()' if midshow else ''))
            if explicit:
                src = src.replace('try:\n    profile\nexcept NameError:\n    def profile(f):\n        return f\n', 'from line_profiler import profile\n')
            if c_locale:
                # text the locale's encoding cannot represent, in a profiled line (the report quotes the line)
                src = '# -*- coding: utf-8 -*-\n' + src.replace('    total = 0\n', "    total = 0          # \u00fc\u00f1\u00ef\u03b1\n", 1)
            fh.write(src)
        e = real_env(build)
        if c_locale:
            e.update(LC_ALL='C', LANG='C', PYTHONUTF8='0', PYTHONCOERCECLOCALE='0', PYTHONIOENCODING='utf-8')
        if explicit:
            e['LINE_PROFILE'] = '1'
            cmd = [PY, 'prog.py']
        else:
            opts = kplib.MODES[mode][0]
            cmd = [PY, '-m', 'kernprof'] + ([o for o in opts if o != '-m'] + (['-m', 'prog'] if '-m' in opts else ['prog.py']))
        p = subprocess.run(cmd, cwd=d, env=e, capture_output=True, text=True, timeout=120)
        files = sorted(f for f in os.listdir(d) if f != 'prog.py' and not f.startswith('__'))
        lprof = [f for f in files if f.endswith('.lprof')]
        hits = None
        if lprof:
            q = subprocess.run([PY, '-c', 'import sys,json,line_profiler;s=line_profiler.load_stats(sys.argv[1]);'
                                'print(json.dumps({k[2]: [[l-k[1],h] for l,h,t in v] for k,v in s.timings.items()}))', lprof[0]],
                               cwd=d, env=e, capture_output=True, text=True)
            try:
                hits = json.loads(q.stdout.strip().splitlines()[-1])
            except Exception:
                hits = {'unloadable': q.stderr[-300:]}
        return {'rc': p.returncode, 'files': files, 'hits': hits, 'stdout_tail': p.stdout[-200:], 'stderr_tail': p.stderr[-200:], 'n': n, 'k': k}
    finally:
        shutil.rmtree(d, ignore_errors=True)


THREAD_PROG = '''\
import sys, threading
%(imp)s
started, release = threading.Event(), threading.Event()
@profile
def worker():
    started.set()
    release.wait(20)
    y = 1
    return y
@profile
def main_part():
    t = threading.Thread(target=worker)
    t.start()
    started.wait(20)
    return t
t = main_part()        # the main thread's outermost profiled call ends while the worker is in the middle of a line ...
release.set()
t.join()               # ... which it finishes before the program ends
%(ending)s
'''
ENDINGS = {'none': '', 'exit': 'sys.exit(3)', 'kbint': 'raise KeyboardInterrupt', 'error': 'raise ValueError("boom")'}


def thread_case(build, kind, explicit):
    """a worker thread is in the middle of a line when another thread leaves its outermost profiled call: everything both executed is in the results"""
    d = tempfile.mkdtemp(prefix='c06t-', dir=SCRATCH_ROOT)
    try:
        imp = 'from line_profiler import profile' if explicit else ''
        with open(os.path.join(d, 'prog.py'), 'w') as fh:
            fh.write(THREAD_PROG % {'imp': imp, 'ending': ENDINGS[kind]})
        e = real_env(build)
        if explicit:
            e['LINE_PROFILE'] = '1'
            cmd = [PY, 'prog.py']
            out = 'profile_output.lprof'
        else:
            cmd = [PY, '-m', 'kernprof', '-l', 'prog.py']
            out = 'prog.py.lprof'
        p = subprocess.run(cmd, cwd=d, env=e, capture_output=True, text=True, timeout=120)
        hits = None
        if os.path.exists(os.path.join(d, out)):
            q = subprocess.run([PY, '-c', 'import sys,json,line_profiler;s=line_profiler.load_stats(sys.argv[1]);'
                                'print(json.dumps({k[2]: sorted([l-k[1],h] for l,h,t in v) for k,v in s.timings.items()}))', out],
                               cwd=d, env=e, capture_output=True, text=True)
            try:
                hits = json.loads(q.stdout.strip().splitlines()[-1])
            except Exception:
                hits = {'unloadable': q.stderr[-300:]}
        return {'rc': p.returncode, 'hits': hits, 'stderr_tail': p.stderr[-300:]}
    finally:
        shutil.rmtree(d, ignore_errors=True)


INTERVAL_PROG = '''\
import sys, time
try:
    profile
except NameError:
    def profile(f):
        return f


@profile
def early():
    return 1


@profile
def late():
    return 2


early()
time.sleep(1.7)          # at least one periodic dump (-i 1) is written meanwhile
late()
late()
%s
'''


def interval_case(build, opts, kind):
    """-i: a periodic dump written while the program runs must not end the profiling — what runs after it is in the final file"""
    d = tempfile.mkdtemp(prefix='c06i-', dir=SCRATCH_ROOT)
    try:
        with open(os.path.join(d, 'prog.py'), 'w') as fh:
            fh.write(INTERVAL_PROG % ENDINGS[kind])
        e = real_env(build)
        p = subprocess.run([PY, '-m', 'kernprof'] + opts + ['-i', '1', 'prog.py'], cwd=d, env=e, capture_output=True, text=True, timeout=120)
        out = 'prog.py.lprof' if '-l' in opts else 'prog.py.prof'
        seen = None
        if os.path.exists(os.path.join(d, out)):
            if '-l' in opts:
                code = ('import sys,json,line_profiler;s=line_profiler.load_stats(sys.argv[1]);'
                        'print(json.dumps(sorted([k[2], max([h for (_l,h,_t) in v] or [0])] for k, v in s.timings.items())))')
            else:
                code = ('import sys,json,pstats;s=pstats.Stats(sys.argv[1]);'
                        'print(json.dumps(sorted([k[2], v[0]] for k, v in s.stats.items() if k[0].endswith("prog.py") and k[2] in ("early", "late"))))')
            q = subprocess.run([PY, '-c', code, out], cwd=d, env=e, capture_output=True, text=True)
            try:
                seen = json.loads(q.stdout.strip().splitlines()[-1])
            except Exception:
                seen = {'unloadable': q.stderr[-300:]}
        return {'rc': p.returncode, 'recorded': seen, 'stderr_tail': p.stderr[-300:]}
    finally:
        shutil.rmtree(d, ignore_errors=True)


GEN_PROG = '''\
import sys
%(imp)s
@profile
def rows():
    try:
        yield 1
        yield 2
    finally:
        x = 1          # clean-up of a generator that is still suspended when the program ends: it runs, so it is in the results
        y = x + 1
for row in rows():
    %(ending)s
'''


def gen_case(build, kind, explicit):
    d = tempfile.mkdtemp(prefix='c06g-', dir=SCRATCH_ROOT)
    try:
        imp = 'from line_profiler import profile' if explicit else ''
        with open(os.path.join(d, 'prog.py'), 'w') as fh:
            fh.write(GEN_PROG % {'imp': imp, 'ending': ENDINGS[kind]})
        e = real_env(build)
        if explicit:
            e['LINE_PROFILE'] = '1'
            cmd, out = [PY, 'prog.py'], 'profile_output.lprof'
        else:
            cmd, out = [PY, '-m', 'kernprof', '-l', 'prog.py'], 'prog.py.lprof'
        p = subprocess.run(cmd, cwd=d, env=e, capture_output=True, text=True, timeout=120)
        hits = None
        if os.path.exists(os.path.join(d, out)):
            q = subprocess.run([PY, '-c', 'import sys,json,line_profiler;s=line_profiler.load_stats(sys.argv[1]);'
                                'print(json.dumps({k[2]: sorted([l-k[1],h] for l,h,t in v) for k,v in s.timings.items()}))', out],
                               cwd=d, env=e, capture_output=True, text=True)
            try:
                hits = json.loads(q.stdout.strip().splitlines()[-1])
            except Exception:
                hits = {'unloadable': q.stderr[-300:]}
        return {'rc': p.returncode, 'hits': hits, 'stderr_tail': p.stderr[-300:]}
    finally:
        shutil.rmtree(d, ignore_errors=True)


# rows(): decorator line 0, def 1, try 2, yield 3, (yield 4 not reached), finally 5, clean-up lines 6 and 7
GEN_EXPECTED = {'rows': [[2, 1], [3, 1], [6, 1], [7, 1]]}
THREAD_EXPECTED = {'worker': [[2, 1], [3, 1], [4, 1], [5, 1]], 'main_part': [[2, 1], [3, 1], [4, 1], [5, 1]]}


def run(ctx):
    ctx.prove('LPVerif.Props.C06', 'LPVerif/Props/C06.lean', drivers=('Skel',))
    build = ctx.build()
    scs = []
    n = 5
    ks = range(-1, n + 1) if not ctx.quick else [0, 2, n - 1]
    for mode in kplib.MODES:
        for kind in kplib.KINDS:
            for k in (ks if kind != 'none' else [0]):
                scs.append(kplib.scenario(mode, kind, n=n, k=k))
    extra = 20 if ctx.quick else 300
    if ctx.broken:
        extra *= 4
    for i in range(extra):
        r = ctx.rng.fork('x%d' % i)
        nn = r.below(9) + 1
        scs.append(kplib.scenario(r.choice(list(kplib.MODES)), r.choice(kplib.KINDS), n=nn, k=r.below(nn + 2) - 1,
                                  extra_opts=['-i', '1'] if r.chance(1, 6) else (['-v'] if r.chance(1, 6) else [])))
    ctx.log('%d in-process kernprof runs (run mode x termination kind x crash point)' % len(scs))
    res = kplib.run_real(build, scs)
    preds = None
    if getattr(ctx, 'driver_ok', True):
        preds = kplib.model_predict_many([(sc['meta'], ['none', kplib.KIND_TO_EXC[sc['meta']['kind'] if 0 <= sc['meta']['k'] < sc['meta']['n'] else 'none']])
                                          for sc in scs])
    kdiff = 0
    nontrivial = set()
    dist = {}
    for i, (sc, r) in enumerate(zip(scs, res)):
        if 'error' in r:
            ctx.broken.append(('harness', r['error'][-1500:]))
            continue
        meta = sc['meta']
        run_ = r['runs'][0]
        crashed = meta['kind'] != 'none' and 0 <= meta['k'] < meta['n']
        want_outcome = 'Exception:ValueError' if (crashed and meta['kind'] == 'error') else 'return'
        why = None
        if run_['outcome'] != want_outcome:
            why = {'outcome': run_['outcome'], 'expected': want_outcome}
        else:
            why = check_outputs(meta, run_)
        if why:
            ctx.fail('kernprof did not deliver complete results for this ending', {'finding_class': None, 'scenario': meta, 'args': sc['runs'][0]['args'],
                                                                                  'difference': why, 'stderr': run_['stderr'][-300:]})
        if preds is not None:
            p = preds[i]
            exp_out = {'normal': 'return', 'returned': 'return', 'raised other': 'Exception', 'raised sysExit': 'SystemExit', 'raised kbInt': 'KeyboardInterrupt'}[p['outcome']]
            dumped = kplib.count(p['log'], 'prof.dump_stats(options.outfile)') == 1
            wrote = any(v['kind'] in ('lprof', 'pstats') for v in run_['outputs'].values())
            if not run_['outcome'].startswith(exp_out) or dumped != wrote:
                kdiff += 1
                if not why:
                    ctx.broken.append(('K06 correspondence', 'scenario %s: skeleton %s dump=%s real %s wrote=%s' % (json.dumps(meta), p['outcome'], dumped, run_['outcome'], wrote)))
        dist['%s/%s' % (meta['mode'], meta['kind'])] = dist.get('%s/%s' % (meta['mode'], meta['kind']), 0) + 1
        if crashed:
            nontrivial.add(json.dumps(meta, sort_keys=True))
    # the real command line and the explicit profiler, one process per termination kind
    cli = [(m, k, False, False, False) for m in (['l', 'b', 'lm', 'lp'] if ctx.quick else list(kplib.MODES)) for k in kplib.KINDS] + [('explicit', k, True, False, False) for k in kplib.KINDS]
    cli += [(m, k, x, True, False) for (m, x) in ([('l', False), ('explicit', True)] if ctx.quick else [(m, False) for m in kplib.MODES] + [('explicit', True)]) for k in kplib.KINDS if k != 'none']
    cli += [('explicit', k, True, False, True) for k in kplib.KINDS]        # an intermediate profile.show() by the program, then more work
    cli += [('explicit', k, True, False, 'profile.disable()') for k in kplib.KINDS]      # the program switches the decorator off half-way (later definitions stay undecorated); what is decorated goes on recording, and is reported
    cli += [('explicit', k, True, False, False, True) for k in kplib.KINDS]  # a session whose locale cannot encode text of the profiled source
    with cf.ThreadPoolExecutor(max_workers=12) as ex:
        cres = list(ex.map(lambda c: cli_case(build, *c), cli))
    for (mode, kind, explicit, early, midshow, *_loc), r in zip(cli, cres):
        lbl = explicit or kplib.MODES[mode][1]
        exp = {kplib.WORK_LINES[a] + (0 if explicit else 0): v for a, v in kplib.expected_hits(r['n'], r['k'], kind).items() if v}
        if early and kind != 'none':
            exp = {}
        ok = True
        why = {}
        want_file = ('profile_output.lprof' if explicit else None)
        if lbl:
            hits = (r['hits'] or {}).get('work')
            got = {off - 1: h for off, h in hits} if hits else None
            if (got or {}) != exp if early else got != exp:
                ok, why = False, {'hits_reported': got, 'hits_executed': exp}
        if not explicit and not any(f.endswith(('.lprof', '.prof')) for f in r['files']):
            ok, why = False, {'no_stats_file': r['files']}
        if explicit and want_file not in r['files']:
            ok, why = False, {'missing': want_file, 'files': r['files']}
        # the exit status after KeyboardInterrupt is not part of the property: kernprof catches it and writes the file; CPython then ends
        # the process with SIGINT when the interrupt crossed an exec() of a *string* (cProfile's runctx) and nothing reset its flag
        want_rc = {'none': [0], 'exit': [0] if not explicit else [3], 'kbint': [0, -2, 130] if not explicit else [-2, 130, 1], 'error': [1]}[kind]
        if r['rc'] not in want_rc:
            ok, why = False, dict(why, exit_code=r['rc'], expected_one_of=want_rc)
        if kind == 'error' and 'ValueError' not in r['stderr_tail']:
            ok, why = False, dict(why, traceback_missing=r['stderr_tail'])
        if not ok:
            ctx.fail('results were not delivered by the real command line / explicit profiler for this ending',
                     {'finding_class': None, 'cli_case': {'mode': mode, 'kind': kind, 'ends_before_any_profiled_line': early, 'program_called_show_itself_before': midshow, 'non_utf8_locale': bool(_loc and _loc[0])}, 'difference': why, 'real': r})
    # two threads: one leaves its outermost profiled call while the other is in the middle of a line
    tcs = [(k, x) for k in kplib.KINDS for x in (False, True)]
    with cf.ThreadPoolExecutor(max_workers=8) as ex:
        tres = list(ex.map(lambda c: thread_case(build, *c), tcs))
    for (kind, explicit), r in zip(tcs, tres):
        if r['hits'] != THREAD_EXPECTED:
            ctx.fail('two threads: the results written at the end do not hold every executed line of both profiled functions',
                     {'finding_class': None, 'thread_case': {'kind': kind, 'explicit_profiler': explicit}, 'hits_reported': r['hits'], 'hits_executed': THREAD_EXPECTED, 'real': r})
    ctx.coverage['thread_cases'] = len(tcs)
    # a profiled generator still suspended (inside try/finally) when the program is ended from outside it
    gcs = [(k, x) for k in ('exit', 'kbint') for x in (False, True)]
    with cf.ThreadPoolExecutor(max_workers=8) as ex:
        gres = list(ex.map(lambda c: gen_case(build, *c), gcs))
    for (kind, explicit), r in zip(gcs, gres):
        if r['hits'] != GEN_EXPECTED:
            ctx.fail('the clean-up lines of a generator that was suspended when the program ended ran, but are not in the results',
                     {'finding_class': None, 'generator_case': {'kind': kind, 'explicit_profiler': explicit}, 'hits_reported': r['hits'], 'hits_executed': GEN_EXPECTED, 'real': r})
    ctx.coverage['suspended_generator_cases'] = len(gcs)
    # -i: a periodic dump in the middle of the run
    ics = [(o, k) for o in ([], ['-b'], ['-l']) for k in (('none', 'exit') if not ctx.quick else ('none',))] + [([], 'exit')]
    with cf.ThreadPoolExecutor(max_workers=8) as ex:
        ires = list(ex.map(lambda c: interval_case(build, *c), ics))
    for (opts, kind), r in zip(ics, ires):
        if r['recorded'] != [['early', 1], ['late', 2]]:
            ctx.fail('-i: what ran after a periodic dump is not in the final results', {'finding_class': None, 'interval_case': {'options': opts + ['-i', '1'], 'ending': kind},
                                                                                         'recorded': r['recorded'], 'executed': [['early', 1], ['late', 2]], 'real': r})
    ctx.coverage['interval_cases'] = len(ics)
    ctx.coverage.update({
        'evaluations': len(scs) + len(cli) + len(tcs) + len(ics) + len(gcs), 'distinct_nontrivial': len(nontrivial),
        'rule': '9 run modes x {normal end, sys.exit, KeyboardInterrupt, uncaught ValueError} x crash point k of a loop of n=5 (quick: 3 points; thorough: every k in -1..n) '
                '+ random (n, k, -i / -v) + one real process per (mode, ending) through `python -m kernprof` and through LINE_PROFILE=1 + a two-thread program per ending; '
                'non-trivial = the program really ends at the crash point',
        'traces_validated_against_impl': len(scs) - kdiff, 'correspondence_disagreements': kdiff, 'distribution': dist, 'cli_cases': len(cli),
        'exhaustive': not ctx.quick})
    ctx.coverage['samples'].append({'scenario': scs[-1]['meta'], 'args': scs[-1]['runs'][0]['args'], 'outputs': res[-1]['runs'][0]['outputs'] if 'runs' in res[-1] else None})
    ctx.coverage['samples'].append({'cli_case': cli[-1], 'real': cres[-1]})
    ctx.assumptions += ['signals delivered by the OS, os._exit, interpreter crashes and disk errors are outside the model (a leaf that does not run user code is assumed not to raise)',
                        'expected hit counts are closed forms of (n, k, kind) for the loop program; exactness for arbitrary programs is C01']
    return ctx.finish('Lean: dump exactly once / exits absorbed / dump after program for every environment over the dumped skeleton, brackets closed in finally; '
                      'K06: every run mode x ending x crash point on the real kernprof; oracle = loaded file holds exactly the executed counts')


def replay(ctx, path):
    data = json.load(open(path))
    w = data.get('witness', data)
    build = ctx.build()
    if 'scenario' in w:
        m = w['scenario']
        sc = kplib.scenario(m['mode'], m['kind'], m['n'], m['k'], m.get('extra_opts', ()))
        r = kplib.run_real(build, [sc])[0]
        print(json.dumps({'check': check_outputs(m, r['runs'][0]), 'real': r}, indent=1)[:5000])
    else:
        c = w['cli_case']
        print(json.dumps(cli_case(build, c['mode'], c['kind'], c['mode'] == 'explicit'), indent=1))
    return 0
