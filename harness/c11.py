"""C11 — saved statistics round-trip and every output channel tells the same story.
Proof: Props/C11.lean — channel algebra over Model.Channels (channels_same_story, view_equals_viewer, saved_then_viewed under the pickle
round-trip law, explicit_text_cfg, live_cfg) with the call sites of every channel regenerated from the tree (call_sites).
Tie / oracle: K11 — one real profiling session per case: kernprof -l -v [-u] [-z] text = python -m line_profiler on the saved file with
the same options; load(dump) = live statistics (functions, lines, hits, times, unit; non-ASCII file names); live print_stats =
show_text on the reloaded data; explicit profiler: .txt = timestamped .txt = viewer -z -t -m -u <unit> on its .lprof, stdout summary =
the text file's summary; each text also equals the Lean layout model's rendering for that channel's configuration."""
import concurrent.futures as cf
import json

from common import run_worker, lean_driver

LEVEL = 'proof'


def cases(ctx):
    names = ['prog.py', 'prög_ünï.py', 'with space.py']
    units = [None, '1e-3', '1e-6', '1e-8', '1e-9', '0.5']
    out = []
    for i, (nm, u, z) in enumerate([(n, u, z) for n in names for u in units for z in (False, True)]):
        out.append({'name': nm, 'n': 3 + (i % 7) * 5, 'unit': u, 'z': z})
    if ctx.quick:
        wide = [c for c in out if c['unit'] == '1e-8'][:2]      # a unit in which the slow line needs the wide '%5.3g' cells
        out = out[:3] + wide + ctx.rng.fork('c11').sample([c for c in out[3:] if c not in wide], 7)
    return out


def summary_of(text):
    return [l for l in text.splitlines() if ' seconds - ' in l]


def data_check(c, r, text, loaded, opts, ou, source=True):
    """every number the channel prints agrees with the saved statistics (the independent report parser of C10)"""
    import c10
    stats = []
    for k, v in loaded['timings'].items():
        path, first, name = k.rsplit('|', 2)
        stats.append([path.rsplit('/', 1)[-1], int(first), name, v])
    case = {'files': {c['name']: r['prog_text']} if source else {}, 'stats': stats, 'unit': loaded['unit'], 'output_unit': ou, 'opts': opts}
    return c10.oracle(case, {'error': None, 'text': text})


def oracle(c, r):
    bad = []
    if r.get('kernprof_view') is None:
        return [{'no --view output': True}]
    ou = float(c['unit']) if c['unit'] else 1e-6
    for d in data_check(c, r, r['kernprof_view'], r['loaded'], {'stripzeros': c['z'], 'details': True, 'summarize': False, 'sort': False}, ou)[:2]:
        bad.append({'kernprof --view does not present the saved data': d})
    if r.get('viewer_cli_nosource') is not None:
        for d in data_check(c, r, r['viewer_cli_nosource'], r['loaded'], {'stripzeros': c['z'], 'details': True, 'summarize': False, 'sort': False}, ou, source=False)[:2]:
            bad.append({'the viewer without the source file does not present the saved data': d})
    for d in data_check(c, r, r['live_print_stats'], r['live'], {'stripzeros': False, 'details': True, 'summarize': False, 'sort': False}, None)[:2]:
        bad.append({'live print_stats does not present the live data': d})
    if r.get('explicit_txt') and r.get('explicit_loaded'):
        for d in data_check(c, r, r['explicit_txt'], r['explicit_loaded'], {'stripzeros': True, 'details': True, 'summarize': True, 'sort': True}, None)[:2]:
            bad.append({'explicit .txt does not present the saved data': d})
    if r['kernprof_view'] != r['viewer_cli']:
        bad.append({'kernprof --view differs from `python -m line_profiler` on the saved file': [r['kernprof_view'][:400], r['viewer_cli'][:400], r['viewer_cli_err']]})
    cl = r.get('explicit_c_locale')
    if cl is not None and not (cl['rc'] == 0 and cl['txt'] and cl['timestamped'] and cl['lprof'] and cl.get('utf8') and cl.get('has_line') and cl.get('same_as_timestamped')):
        bad.append({'explicit profiler in a process with a non-UTF-8 locale (non-ASCII text in a profiled line)': cl})
    od = r.get('overlapping_dump')
    if od is not None and not (od['written'] and od['equal']):
        bad.append({'a dump requested while another dump was being written does not hold the statistics of that moment': od})
    for pfx, info in (r.get('explicit_prefixes') or {}).items():
        # hot(n) and hot(n // 2): the `for` line is hit (n + 1) + (n // 2 + 1) times
        want_hits = info['n'] + 1 + info['n'] // 2 + 1
        if info['rc'] != 0 or info['files'] != [pfx + '.lprof', pfx + '.txt', pfx + '_<TS>.txt'] or info.get('hot_loop_hits') != want_hits:
            bad.append({'explicit profiler with output prefix %r: its own three files with its own data' % pfx: info, 'expected_hits_of_the_loop_line': want_hits})
    rw = r.get('rewritten_file_read_back')
    if rw is not None and rw['stale_rounds']:
        bad.append({'a statistics file written again by the same process was read back with older data': rw})
    if r['live'] != r['live_reloaded']:
        bad.append({'load(dump(stats)) != stats': [str(r['live'])[:300], str(r['live_reloaded'])[:300]]})
    if r['live_print_stats'] != r['reloaded_show_text']:
        bad.append({'live print_stats differs from show_text on the reloaded file': True})
    # the saved kernprof file holds what a live run reports (hits; times differ between runs)
    hl = {k.split('|', 1)[1]: [e[:2] for e in v] for k, v in r['live']['timings'].items()}
    hs = {k.split('|', 1)[1]: [e[:2] for e in v] for k, v in r['loaded']['timings'].items()}
    if hl != hs or r['live']['unit'] != r['loaded']['unit']:
        bad.append({'kernprof file vs live session (hits, unit)': [hs, hl]})
    if r['explicit_rc'] != 0 or r['explicit_txt'] is None:
        bad.append({'explicit profiler run': r['explicit_rc'], 'txt': r['explicit_txt'] is not None})
    else:
        if r['explicit_txt'] != r['explicit_ts_txt']:
            bad.append({'profile_output.txt differs from the timestamped copy': True})
        if r.get('explicit_viewer_ztm') != r['explicit_txt']:
            bad.append({'explicit .txt differs from viewer -z -t -m on its .lprof': [r['explicit_txt'][:300], (r.get('explicit_viewer_ztm') or '')[:300]]})
        if summary_of(r['explicit_stdout']) != summary_of(r['explicit_txt']) or not summary_of(r['explicit_txt']):
            bad.append({'explicit stdout summary differs from the text file': [summary_of(r['explicit_stdout']), summary_of(r['explicit_txt'])]})
        he = {k.split('|', 1)[1]: [e[:2] for e in v] for k, v in r['explicit_loaded']['timings'].items()}
        if he != hl:
            bad.append({'explicit .lprof vs live session (hits)': [he, hl]})
    return bad


def run(ctx):
    ctx.prove('LPVerif.Props.C11', 'LPVerif/Props/C11.lean', drivers=('Report',))
    build = ctx.build()
    cs = cases(ctx)
    ctx.log('%d profiling sessions, every channel produced for real' % len(cs))
    nw = 6
    parts = [cs[i::nw] for i in range(nw)]
    with cf.ThreadPoolExecutor(max_workers=nw) as ex:
        outs = list(ex.map(lambda p: run_worker(build, 'c11_worker.py', {'cases': p}, 1200), parts))
    res = [None] * len(cs)
    for i, o in enumerate(outs):
        for j, r in enumerate(o['results']):
            res[i + j * nw] = r
    kdiff = 0
    nontrivial = set()
    for c, r in zip(cs, res):
        if 'harness_error' in r:
            ctx.broken.append(('harness', r['harness_error'][-1500:]))
            continue
        bad = oracle(c, r)
        for b in bad[:2]:
            ctx.fail('output channels disagree / saved statistics do not round-trip', {'finding_class': None, 'case': c, 'difference': b})
        if getattr(ctx, 'driver_ok', True):
            for key_lines, key_text in (('model_lines_live', 'live_print_stats'), ('model_lines_view', 'kernprof_view'), ('model_lines_explicit', 'explicit_txt')):
                if key_lines in r and r.get(key_text) is not None:
                    mo = lean_driver('report', r[key_lines])
                    mt = bytes.fromhex(mo[0]).decode('utf-8') if mo and mo[0] != 'bad-op' else None
                    if mt != r[key_text]:
                        kdiff += 1
                        if not bad:
                            ctx.broken.append(('K11 correspondence', '%s: model rendering differs from the real %s' % (json.dumps(c), key_text)))
        nontrivial.add(json.dumps(c, sort_keys=True))
    ctx.coverage.update({
        'evaluations': len(cs) * 9, 'distinct_nontrivial': len(nontrivial),
        'rule': 'sessions = 3 script names (ASCII, non-ASCII, with a space) x 6 units (none, 1e-3, 1e-6, 1e-8, 1e-9, 0.5) x skip-zero on/off (sampled in quick); per session '
                '8 channels: kernprof --view, viewer CLI on the saved file, the viewer on the moved file (source not found), a dump overlapping another dump in progress, live print_stats, show_text on the reloaded dump, explicit .txt, timestamped .txt, '
                'viewer -z -t -m on the explicit .lprof (+ stdout summary); every session profiles a called and a never-called function',
        'traces_validated_against_impl': len(cs) * 3 - kdiff, 'correspondence_disagreements': kdiff})
    ctx.coverage['samples'].append({'case': cs[-1], 'kernprof_view_head': (res[-1].get('kernprof_view') or '')[:600], 'loaded': res[-1].get('loaded')})
    ctx.assumptions += ['pickle and file I/O are outside Lean: the round-trip law is a hypothesis of saved_then_viewed, tested on real files by K11',
                        'times differ between separate runs of the program; across runs only hits and unit are compared, within one session everything']
    return ctx.finish('Lean: channel algebra + call sites regenerated from the tree; K11: every channel produced for real and compared with each other and with the layout model')


def replay(ctx, path):
    data = json.load(open(path))
    c = data.get('witness', data)['case']
    r = run_worker(ctx.build(), 'c11_worker.py', {'cases': [c]}, 600)['results'][0]
    print(json.dumps({'oracle': oracle(c, r)}, indent=1)[:4000])
    return 0
