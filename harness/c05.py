"""C05 — enable/disable counting is balanced and decides whether tracing is on.
Proof: Props/C05.lean (tracing_iff_positive, count_clipped, call_restores for all histories);
tie: K05 — histories on the real LineProfiler / ContextualProfile from 1-3 threads, observing
(enable_count, trace installed, tool id held) after every operation and inside decorated bodies,
against the model driven with the by-count operations the wrappers are supposed to issue;
oracle: an independent clipped counter."""
import itertools
import json
import os

import corelib
from common import ROOT, lean_driver

LEVEL = 'proof'

SIMPLE = ['enbc', 'disbc', 'enter', 'exit', 'exit_exc', 'call_ret', 'call_raise', 'call_exit']       # enumerated exhaustively; the other ways out of a call are drawn at random
CALLS = ['call_ret', 'call_raise', 'call_exit', 'call_kbint', 'call_cancel', 'call_genexit']


def expand(hist):
    """history -> per-op list of primitive items ('en', t) ('dis', t) ('obs', t) as the wrappers should issue them"""
    gens = {}   # (t, slot) -> [n, i, state]  state in new/suspended/done
    cos = {}    # (t, slot) -> new / suspended / done: step-wise driven decorated coroutines (overlapping, any order of completion)
    out = []
    for (t, name, *args) in hist:
        items = []
        if name == 'end':          # the thread ends (whatever its count); nothing to observe
            out.append([])
            continue
        if name in ('enbc', 'enter'):
            items.append(('en', t))
        elif name in ('disbc', 'exit', 'exit_exc'):
            items.append(('dis', t))
        elif name in ('call_ret', 'call_raise', 'call_exit', 'call_kbint', 'call_cancel', 'call_genexit'):
            items += [('en', t), ('obs', t), ('dis', t)]
        elif name == 'nested':
            items += [('en', t), ('obs', t), ('en', t), ('obs', t), ('dis', t), ('obs', t), ('dis', t)]
        elif name == 'gen_new':
            gens[(t, args[0])] = [args[1], 0, 'new']
        elif name in ('gen_next', 'gen_send'):
            g = gens.get((t, args[0]))
            if g and g[2] != 'done':
                if g[1] < g[0]:
                    items += [('en', t), ('obs', t), ('dis', t)]
                    g[1] += 1
                    g[2] = 'suspended'
                else:
                    items += [('en', t), ('dis', t)]
                    g[2] = 'done'
        elif name == 'gen_exhaust':
            g = gens.get((t, args[0]))
            if g and g[2] != 'done':
                while g[1] < g[0]:
                    items += [('en', t), ('obs', t), ('dis', t)]
                    g[1] += 1
                items += [('en', t), ('dis', t)]
                g[2] = 'done'
        elif name == 'gen_close':
            g = gens.get((t, args[0]))
            if g:
                g[2] = 'done'
        elif name == 'gen_drop':
            gens.pop((t, args[0]), None)
        elif name == 'co_new':
            if cos.get((t, args[0])) == 'suspended':
                items += [('dis', t)]      # the coroutine that occupied the slot loses its last reference: closed at once, its bracket ends
            cos[(t, args[0])] = 'new'
        elif name == 'co_step':
            st = cos.get((t, args[0]))
            if st == 'new':
                items += [('en', t), ('obs', t)]          # runs to its await and stays suspended inside the bracket
                cos[(t, args[0])] = 'suspended'
            elif st == 'suspended':
                items += [('obs', t), ('dis', t)]
                cos[(t, args[0])] = 'done'
        elif name == 'co_close':
            st = cos.get((t, args[0]))
            if st == 'suspended':
                items += [('dis', t)]
            if st is not None:
                cos[(t, args[0])] = 'done'
        elif name == 'coro_run':
            items += [('en', t), ('obs', t), ('obs', t), ('dis', t)]
        elif name == 'coro_abandon':
            items += [('en', t), ('obs', t), ('dis', t)]
        else:
            raise ValueError(name)
        items.append(('obs', t))
        out.append(items)
    return out


def model_lines(expanded, cls):
    lines = []
    for items in expanded:
        for kind, t in items:
            tt = t if cls == 'line' else 0
            lines.append({'en': 'enbc %d', 'dis': 'disbc %d', 'obs': 'state %d'}[kind] % tt)
    return lines


def oracle_obs(expanded, cls):
    """independent reference: clipped counters; tracing iff count>0; tool iff main count>0"""
    cnt = {}
    out = []
    for items in expanded:
        cur = []
        for kind, t in items:
            tt = t if cls == 'line' else 0
            if kind == 'en':
                cnt[tt] = cnt.get(tt, 0) + 1
            elif kind == 'dis':
                cnt[tt] = max(0, cnt.get(tt, 0) - 1)
            else:
                c = cnt.get(tt, 0)
                cur.append([c, 1 if c > 0 else 0, 1 if cnt.get(0, 0) > 0 else 0])
        out.append(cur)
    return out


def valid(hist):
    """keep generator slot usage well-defined"""
    have = set()
    for (t, name, *args) in hist:
        if name == 'gen_new':
            have.add((t, args[0]))
        elif name.startswith('gen_'):
            if (t, args[0]) not in have:
                return False
            if name == 'gen_drop':
                have.discard((t, args[0]))
    return True


def gen_history(rng, cls):
    nthreads = 1 if cls == 'ctx' else rng.choice([1, 1, 2, 3])
    n = rng.below(36) + 4
    hist = []
    slots = {}
    coslots = {}
    alive = list(range(nthreads))      # logical thread numbers; 0 is the main thread
    nxt = nthreads
    r2 = rng.fork('generations')
    for _ in range(n):
        t = alive[rng.below(len(alive))]
        if nthreads > 1 and t != 0 and r2.chance(1, 9):
            # this thread ends here (possibly with a positive count) and a new one takes its place later
            hist.append([t, 'end'])
            alive.remove(t)
            alive.append(nxt)
            nxt += 1
            continue
        r = rng.below(100)
        if r < 22:
            hist.append([t, rng.choice(['enbc', 'enter'])])
        elif r < 46:
            hist.append([t, rng.choice(['disbc', 'exit'])])
        elif r < 56:
            hist.append([t, rng.choice(CALLS)])
        elif r < 62:
            hist.append([t, 'nested', rng.below(2)])
        elif r < 70:
            k = rng.below(3)
            slots[(t, k)] = True
            hist.append([t, 'gen_new', k, rng.below(4)])
        elif r < 90:
            mine = [k for (tt, k) in slots if tt == t]
            if mine:
                k = rng.choice(mine)
                op = rng.choice(['gen_next', 'gen_next', 'gen_send', 'gen_close', 'gen_drop', 'gen_exhaust'])
                hist.append([t, op, k])
                if op == 'gen_drop':
                    del slots[(t, k)]
            else:
                hist.append([t, 'call_ret'])
        elif r < 94:
            hist.append([t, rng.choice(['coro_run', 'coro_abandon'])])
        else:
            # decorated coroutines driven step by step: several may be in flight and finish in any order
            k = rng.below(3)
            if (t, k) not in coslots or rng.chance(1, 4):
                coslots[(t, k)] = True
                hist.append([t, 'co_new', k])
            hist.append([t, rng.choice(['co_step', 'co_step', 'co_step', 'co_close']), k])
    return hist


def run(ctx):
    ctx.prove('LPVerif.Props.C05', 'LPVerif/Props/C05.lean')
    build = ctx.build()
    cases = []
    # exhaustive short histories over the six simple ops (single thread), both classes
    L = 4 if ctx.quick else 5
    exh = 0
    for n in range(1, L + 1):
        for combo in itertools.product(SIMPLE, repeat=n):
            if ctx.quick and n == 4 and ctx.rng.below(12):
                continue
            for cls in ('line', 'ctx'):
                cases.append({'cls': cls, 'history': [[0, o] for o in combo], 'exh': True})
                exh += 1
    nrand = 400 if ctx.quick else 6000
    if ctx.broken:
        nrand *= 4
    for i in range(nrand):
        r = ctx.rng.fork('h%d' % i)
        cls = 'line' if r.chance(3, 4) else 'ctx'
        cases.append({'cls': cls, 'history': gen_history(r, cls)})
    ctx.log('running %d histories (%d exhaustive-short, %d random) on the real profilers' % (len(cases), exh, nrand))
    results = corelib.run_real(build, cases, worker='c05_worker.py')
    # model
    exps = [expand(c['history']) for c in cases]
    model_obs = None
    if getattr(ctx, 'driver_ok', True):
        lines = []
        for c, e in zip(cases, exps):
            lines.append('reset')
            lines += model_lines(e, c['cls'])
            lines.append('clock')
        out = lean_driver('prof', lines)
        model_obs, cur = [], []
        for ln in out:
            if ln.startswith('clock'):
                model_obs.append(cur)
                cur = []
            elif ln.startswith('st '):
                cur.append([int(x) for x in ln.split()[1:]])
            elif ln.startswith('err') or ln == 'bad-op':
                cur.append(ln)
    kdiff = 0
    opdist = {}
    nontrivial = set()
    multi = 0
    for i, (c, r, e) in enumerate(zip(cases, results, exps)):
        if r.get('error') and not r.get('obs'):
            ctx.broken.append(('harness', str(r['error'])[-1200:]))
            continue
        for h in c['history']:
            opdist[h[1]] = opdist.get(h[1], 0) + 1
        if len({h[0] for h in c['history']}) > 1:
            multi += 1
        real = [x for per in r['obs'] for x in per]
        orc = [x for per in oracle_obs(e, c['cls']) for x in per]
        if r.get('error') or real != orc:
            # find first differing op for the replay
            k = 0
            oo = oracle_obs(e, c['cls'])
            while k < len(r['obs']) and k < len(oo) and r['obs'][k] == oo[k]:
                k += 1
            ctx.fail('enable count / tracing / tool registration differ from entries-minus-exits',
                     {'finding_class': None, 'class': c['cls'], 'history': c['history'], 'first_bad_op_index': k,
                      'real_obs(count,tracing,tool)': r['obs'][k:k + 2], 'expected': oo[k:k + 2], 'error': r.get('error')})
        if model_obs is not None and model_obs[i] != real:
            kdiff += 1
            if real == orc and not r.get('error'):
                ctx.broken.append(('K05 correspondence', 'model %s real %s history %s' % (model_obs[i][:6], real[:6], c['history'][:8])))
        if any(x[0] >= 2 for x in real) and any(h[1] not in ('enbc', 'disbc') for h in c['history']):
            nontrivial.add(json.dumps(c['history']) + c['cls'])
    ctx.coverage.update({
        'evaluations': len(cases), 'distinct_nontrivial': len(nontrivial),
        'rule': 'all histories of length <= %d over {enbc, disbc, enter, exit, exit_exc (a with-block left by an exception), call_ret, call_raise, call_exit (a call left by SystemExit)} (sampled at the last length in quick) for both '
                'LineProfiler and ContextualProfile, plus random histories (4-40 ops, 1-3 threads serialised by hand-off) incl. nested decorated calls, '
                'generators stepped / closed / dropped / exhausted, coroutines run / abandoned; non-trivial = count reaches 2 and a non-primitive op occurs' % L,
        'exhaustive_short_histories': exh, 'random_histories': nrand, 'multi_thread_histories': multi,
        'traces_validated_against_impl': len(cases) - kdiff, 'correspondence_disagreements': kdiff, 'op_distribution': opdist})
    ctx.coverage['samples'].append({'class': cases[-1]['cls'], 'history': cases[-1]['history'], 'real_obs': results[-1].get('obs')})
    ctx.assumptions += ['thread operations are serialised by the harness so that the history is known (C13 covers free-running threads)',
                        'ContextualProfile keeps one global counter: its histories are single-threaded and map to thread 0 of the model',
                        'direct enable()/disable() calls are excluded, as in the property statement']
    return ctx.finish('Lean: for all by-count histories from all threads tracing <-> count>0, tool <-> main count>0, count = clipped fold, '
                      'well-bracketed nests (decorated calls, with-blocks, generator steps) restore count/tracing/tool; K05 observes the real profilers after every op')


def replay(ctx, path):
    data = json.load(open(path))
    w = data['witness']
    case = {'cls': w['class'], 'history': w['history']}
    r = corelib.run_real(ctx.build(), [case], worker='c05_worker.py')[0]
    print(json.dumps({'real': r, 'expected': oracle_obs(expand(case['history']), case['cls'])}))
    return 0
