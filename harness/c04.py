"""C04 — statistics belong only to the function that actually ran.
Proof: Props/C04.lean; tie: K04 (model vs real on programs with byte-identical twins, registered /
unregistered mixes); oracle: per-code-object line-event counts of the interpreter."""
import json
import os

import corelib
import progs
import c01
from common import ROOT

LEVEL = 'proof'


def make_case(rng):
    mode = rng.choice(['same_lines', 'overlap', None, None])
    ntw = rng.choice([1, 1, 2, 3]) if mode else 1
    r3 = rng.fork('inner-windows')
    inner = r3.chance(1, 4)
    # some programs switch the profiler on and off inside their own bodies (`with prof:` blocks): frames then begin and end unobserved
    prog = progs.gen_program(rng, twins=True, twin_mode=mode, ntwins=ntw, opts={'windows': True} if inner else None)
    names = [n for (_f, n, _k) in prog['funcs']]
    k = rng.below(len(names)) + 1
    reg = sorted(set(rng.sample(names, k)), key=names.index)
    twin = [n for n in names if n.endswith('t')]
    family = []
    if twin:
        family = [n for n in names if n[:-1] == twin[0][:-1] and n[-1] in 'tuv'] + [twin[0][:-1]]
    if twin and ntw > 1:
        reg = sorted(set([n for n in reg if n not in family] + rng.sample(family, rng.below(len(family)) + 1)), key=names.index)
    elif twin and rng.chance(1, 2):
        # make sure the interesting situations occur: only one of the pair registered, or both
        t, b = twin[0], twin[0][:-1]
        choice = rng.below(3)
        reg = [n for n in reg if n not in (t, b)] + ([b] if choice == 0 else [t] if choice == 1 else [b, t])
        reg = sorted(set(reg), key=names.index)
    adds = [['add', n] for n in reg]
    rng.shuffle(adds)
    readds = []
    if family and rng.chance(1, 3):
        # registering members of the byte-identical family again (before or between the calls)
        readds = [['add', rng.choice([n for n in family if n in reg] or family)] for _ in range(rng.below(4) + 1)]
    calls = [['call', rng.below(7)] for _ in range(rng.below(2) + 1)]
    if readds and rng.chance(1, 2):
        steps = adds + [['enbc'], calls[0], ['disbc']] + readds + [['enbc']] + calls + [['disbc'], ['snapshot']]
    elif inner and 'inner-window' in prog['features'] and r3.chance(2, 3):
        steps = adds + readds + calls + calls + [['snapshot']]           # no outer window at all: only the programs' own `with prof:` blocks
    else:
        steps = adds + readds + [['enbc']] + calls + [['disbc'], ['snapshot']]
    case = {'prog': prog, 'steps': steps, 'mode': 'window', 'registered': reg, 'twin_mode': mode}
    r4 = rng.fork('presession')
    if len(family) >= 2 and r4.chance(1, 3):
        # an earlier profiler of the same process (a previous %lprun / in-process kernprof run) had some of the byte-identical functions
        # registered: they arrive with the padded bytecode it gave them
        case['presession'] = r4.sample(family, r4.below(len(family) - 1) + 2)
    return case


def presession_case():
    """the recorded history of F-C04c: three copies of a function on the same lines of three files; an earlier profiler had a and b, this one
    gets a, c, b — b arrives with exactly the bytes this profiler pads c to"""
    body = 'def work(n):\n    t = 0\n    for i in range(n):\n        t += i\n    return t\n'
    main = 'def driver(n):\n    return [work_a(1), work_c(n), work_b(n + 2)]\n'
    prog = {'files': [['prog_lib.py', progs.PRELUDE], ['prog_0.py', body.replace('work', 'work_a')], ['prog_1.py', body.replace('work', 'work_b')],
                      ['prog_2.py', body.replace('work', 'work_c')], ['prog_main.py', main]],
            'funcs': [['prog_0.py', 'work_a', 'plain'], ['prog_1.py', 'work_b', 'plain'], ['prog_2.py', 'work_c', 'plain'], ['prog_main.py', 'driver', 'plain']],
            'driver': 'driver', 'features': ['presession']}
    return {'prog': prog, 'steps': [['add', 'work_a'], ['add', 'work_c'], ['add', 'work_b'], ['enbc'], ['call', 3], ['disbc'], ['snapshot']], 'mode': 'window',
            'registered': ['work_a', 'work_b', 'work_c'], 'twin_mode': 'same_lines', 'presession': ['work_a', 'work_b']}


def shared_line_case(n=3):
    """two registered functions of one file with a line number in common: a function written on one line and the lambda that is its default
    argument — each has its own entry with its own executions of that line"""
    f0 = 'def f(n, k=lambda v: v * 2): return k(n) + k(n + 1)\nf_k = f.__defaults__[0]\n\n\ndef g(n):\n    return f(n) + 1\n'
    main = 'def driver(n):\n    return [f(n), g(n + 1), f_k(n), f_k(n + 2)]\n'
    prog = {'files': [['prog_lib.py', progs.PRELUDE], ['prog_0.py', f0], ['prog_main.py', main]],
            'funcs': [['prog_0.py', 'f', 'plain'], ['prog_0.py', 'f_k', 'plain'], ['prog_0.py', 'g', 'plain'], ['prog_main.py', 'driver', 'plain']],
            'driver': 'driver', 'features': ['shared-line']}
    return {'prog': prog, 'steps': [['add', 'f'], ['add', 'f_k'], ['add', 'g'], ['enbc'], ['call', n], ['disbc'], ['snapshot']], 'mode': 'window',
            'registered': ['f', 'f_k', 'g'], 'twin_mode': None}


def same_site_twins_case(n=4):
    """a copied plug-in file loaded twice under one module name: two functions with the same module name, qualified name and line, in different
    files, both handed to the profiler as a decorator is (`profile(f)`)"""
    body = '__name__ = "plugin"\ndef handle(n):\n    a = n\n    for i in range(n):\n        a += i\n    return a\n\n\n'
    f0 = body + 'handle_a = handle\ndef call_a(n):\n    return handle(n) + 1\n'
    f1 = body + 'handle_b = handle\ndef call_b(n):\n    return handle(n) + 2\n'
    main = 'def driver(n):\n    out = []\n    for k in range(3):\n        out.append(call_a(n))\n    for k in range(5):\n        out.append(call_b(n + 1))\n    return out\n'
    prog = {'files': [['prog_lib.py', progs.PRELUDE], ['prog_0.py', f0], ['prog_1.py', f1], ['prog_main.py', main]],
            'funcs': [['prog_0.py', 'handle_a', 'plain'], ['prog_0.py', 'call_a', 'plain'], ['prog_1.py', 'handle_b', 'plain'], ['prog_1.py', 'call_b', 'plain'],
                      ['prog_main.py', 'driver', 'plain']],
            'driver': 'driver', 'features': ['same-site-twins']}
    return {'prog': prog, 'steps': [['decorate', 'handle_a'], ['decorate', 'handle_b'], ['enbc'], ['call', n], ['disbc'], ['snapshot']], 'mode': 'window',
            'registered': ['handle_a', 'handle_b'], 'twin_mode': 'same_name_same_lines'}


def same_name_twins_case(via_module, n=4):
    """two files holding the same function under the same name on the same lines (a copied module), each with a caller of its own"""
    body = 'def handle(n):\n    a = n\n    for i in range(n):\n        a += i\n    return a\n\n\n'
    f0 = body + 'def call_a(n):\n    return handle(n) + 1\n'
    f1 = body + 'def call_b(n):\n    return handle(n) + 2\n'
    main = 'def driver(n):\n    out = []\n    for k in range(3):\n        out.append(call_a(n))\n    for k in range(5):\n        out.append(call_b(n + 1))\n    return out\n'
    prog = {'files': [['prog_lib.py', progs.PRELUDE], ['prog_0.py', f0], ['prog_1.py', f1], ['prog_main.py', main]],
            'funcs': [['prog_0.py', 'handle', 'plain'], ['prog_0.py', 'call_a', 'plain'], ['prog_1.py', 'handle', 'plain'], ['prog_1.py', 'call_b', 'plain'],
                      ['prog_main.py', 'driver', 'plain']],
            'driver': 'driver', 'features': ['same-name-twins']}
    if via_module:
        adds = [['add_module', 'prog_0.py'], ['add_module', 'prog_1.py']]
    else:
        adds = [['add', 'call_a'], ['add', 'call_b']]
    return {'prog': prog, 'steps': adds + [['enbc'], ['call', n], ['disbc'], ['snapshot']], 'mode': 'window',
            'registered': ['handle', 'call_a', 'call_b'], 'twin_mode': 'same_name_same_lines'}


def oracle(r, nwindows=1):
    """(status, detail): 'ok' | 'alias' (explained exactly by unregistered byte-identical code: F-C04a) | 'bad'"""
    real = corelib.parse_stats(r['real_snaps'][-1])
    real = {k: {l: h for l, (h, _t) in v.items()} for k, v in real.items()}

    def tab(d):
        out = {}
        for key, n in d.items():
            lab, line = map(int, key.split(':'))
            if n:
                out.setdefault(lab, {})[line] = out.get(lab, {}).get(line, 0) + n
        return out
    own = tab(r['oracle'])
    # a disable() that arrives while a registered function is still executing a line throws that pending line away: the interpreter's
    # line events minus those (kept apart by the recorder) are what the function's entry should hold
    for key, n in r.get('dropped', {}).items():
        lab, line = map(int, key.split(':'))
        if own.get(lab, {}).get(line):
            own[lab][line] -= n
            if own[lab][line] <= 0:
                del own[lab][line]
                if not own[lab]:
                    del own[lab]
    if real == own:
        return 'ok', None
    both = tab(r['oracle'])
    for lab, d in tab(r['alias']).items():
        for line, n in d.items():
            both.setdefault(lab, {})[line] = both.get(lab, {}).get(line, 0) + n
    det = []
    for k in sorted(set(real) | set(own)):
        for l in sorted(set(real.get(k, {})) | set(own.get(k, {}))):
            a, b = real.get(k, {}).get(l), own.get(k, {}).get(l)
            if a != b:
                det.append({'label': r['labels'].get(str(k)), 'line': l, 'reported_hits': a, 'own_line_events': b})
    # aliasing through an unregistered byte-identical function (F-C04a): every cell lies between the function's own
    # events and own + aliased events; the only slack is a pending line dropped when a window closes (the twin's
    # RETURN on an unregistered line leaves the shared slot occupied)
    cells = {(k, l) for k in set(real) | set(both) for l in set(real.get(k, {})) | set(both.get(k, {}))}
    within = all(own.get(k, {}).get(l, 0) <= real.get(k, {}).get(l, 0) <= both.get(k, {}).get(l, 0) for k, l in cells)
    deficit = sum(both.get(k, {}).get(l, 0) - real.get(k, {}).get(l, 0) for k, l in cells)
    # one pending line per aliased bytecode can be dropped at each window close (the slot is per thread and bytecode): with functions an earlier
    # profiler had padded, several registered bytecodes can each have an unregistered look-alike
    naliased = r.get('alias_blocks') or len({key.split(':')[0] for key, n in r['alias'].items() if n})
    # windows are also closed by the programs themselves (`with prof:` blocks inside function bodies): every by-count disable of the recorded run counts
    nwindows = max(nwindows, sum(1 for o in r.get('ops', []) if o.startswith('disbc')))
    if within and r['alias'] and deficit <= nwindows * max(naliased, 1):
        return 'alias', det
    return 'bad', det


def model_block_clash(r):
    """does the model (faithful to the tree's padding scheme) itself predict that two different function objects end up
    with the same bytecode?  (F-C04b: the padding lengths len(dupes)+1 are not unique across re-registrations)"""
    adds = [int(x.split()[1]) for x in r['ops'] if x.startswith('add ')]
    blks = [x for x in r.get('model_out', []) if x.startswith('blk ')]
    cur = {}
    for f, b in zip(adds, blks):
        cur[f] = b
    vals = list(cur.values())
    return len(vals) != len(set(vals))


def run(ctx):
    ctx.prove('LPVerif.Props.C04', 'LPVerif/Props/C04.lean')
    build = ctx.build()
    n = 300 if ctx.quick else 4000
    if ctx.broken:
        n *= 4
    cases = []
    corpus_dir = os.path.join(ROOT, 'corpus', 'C04')
    if os.path.isdir(corpus_dir):
        for f in sorted(os.listdir(corpus_dir)):
            cases.append(json.load(open(os.path.join(corpus_dir, f))))
    ncorpus = len(cases)
    cases += [same_name_twins_case(True), same_name_twins_case(True, 2), same_name_twins_case(False), shared_line_case(), shared_line_case(1), same_site_twins_case(), same_site_twins_case(2)]
    for i in range(n):
        cases.append(make_case(ctx.rng.fork('case%d' % i)))
    ctx.log('running %d cases (%d from corpus)' % (len(cases), ncorpus))
    results = corelib.run_real(build, cases)
    if getattr(ctx, 'driver_ok', True):
        corelib.run_model(results)
    kdiff = 0
    dist = {'twin_mode': {}, 'pair_registration': {}, 'status': {}}
    nontrivial = set()
    for case, r in zip(cases, results):
        if 'error' in r:
            ctx.broken.append(('harness', r['error'][-1500:]))
            continue
        if r['collision']:
            continue
        names = [n for (_f, n, _k) in case['prog']['funcs']]
        tw = [n for n in names if n.endswith('t')]
        pr = 'no-twin'
        if tw:
            a, b = tw[0][:-1] in case['registered'], tw[0] in case['registered']
            pr = 'both' if a and b else 'original-only' if a else 'twin-only' if b else 'neither'
        dist['twin_mode'][str(case.get('twin_mode'))] = dist['twin_mode'].get(str(case.get('twin_mode')), 0) + 1
        dist['pair_registration'][pr] = dist['pair_registration'].get(pr, 0) + 1
        nwin = sum(1 for st in case['steps'] if st[0] == 'disbc')
        status, det = oracle(r, nwin)
        if status == 'bad' and r['midflight_disable'] and (r['reentrant'] or r['alias']):
            status, det = 'skip', None        # re-entrancy / aliasing together with interrupted lines: the per-bytecode slot of the recorder is not exact there
        if status == 'bad' and model_block_clash(r) and not corelib.compare_case(r):
            status = 'padding-clash'
        dist['status'][status] = dist['status'].get(status, 0) + 1
        if status == 'alias':
            ctx.fail('an unregistered byte-identical function feeds a registered one',
                     {'finding_class': 'F-C04a', 'case': case, 'differences': det[:10]})
        elif status == 'padding-clash':
            ctx.fail('two registered byte-identical functions end up with the same padded bytecode',
                     {'finding_class': 'F-C04b', 'case': case, 'differences': det[:10]})
        elif status == 'bad':
            ctx.fail('reported hits are not those of the function\'s own executions',
                     {'finding_class': None, 'case': case, 'differences': det[:20]})
        if getattr(ctx, 'driver_ok', True) and not r['reentrant'] and not r['alias']:
            # the model's `dropped` (C01.profiler_hits_conserved) against the pending lines the recorder saw thrown away by disable()
            acct = [x for x in r.get('model_out', []) if x.startswith('acct')]
            if acct:
                md = {k: v[1] for k, v in corelib.parse_acct(acct[-1]).items() if v[1]}
                rd = {}
                for key, n in r.get('dropped', {}).items():
                    lab, line = map(int, key.split(':'))
                    rd[(lab, line)] = n
                if md != rd:
                    ctx.broken.append(('K04 correspondence (dropped pending lines)', 'model %s recorder %s case=%s' % (sorted(md.items())[:6], sorted(rd.items())[:6], corelib.case_digest(case))))
        if getattr(ctx, 'driver_ok', True):
            diffs = corelib.compare_case(r)
            if diffs:
                kdiff += 1
                if status in ('ok', 'alias', 'skip', 'padding-clash'):
                    ctx.broken.append(('K04 correspondence', '; '.join(diffs)[:800]))
                    ctx.write_replay({'property': 'C04', 'kind': 'correspondence-disagreement', 'case': case, 'diffs': diffs})
        if tw and pr in ('both', 'original-only', 'twin-only') and r['oracle']:
            nontrivial.add(corelib.case_digest(case))
    ctx.coverage.update({
        'evaluations': len(cases), 'distinct_nontrivial': len(nontrivial),
        'rule': 'G_prog programs with a byte-identical twin (same file; other file with identical line numbers; other file with overlapping line range) '
                'x registered subsets forcing original-only / twin-only / both; non-trivial = a twin pair with at least one member registered and executed',
        'traces_validated_against_impl': len(cases) - kdiff, 'correspondence_disagreements': kdiff, 'distribution': dist, 'corpus_cases': ncorpus,
        'cases_with_functions_padded_by_an_earlier_profiler': sum(1 for c in cases if c.get('presession'))})
    ctx.coverage['samples'].append({'registered': cases[-1]['registered'], 'twin_mode': cases[-1].get('twin_mode'),
                                    'files': [f for f, _ in cases[-1]['prog']['files']],
                                    'real_final_snapshot': results[-1].get('real_snaps', ['?'])[-1][:300]})
    ctx.assumptions += ['NoCollision (checked per run)',
                        'NoAlias is NOT assumed by the oracle: aliasing by unregistered byte-identical code is detected and classified as known finding F-C04a '
                        'only when the excess equals exactly the line events of such code']
    return ctx.finish('Lean: unregistered_inert, other_block_inert, attribution_exact (what is stored for a block depends only on its own events), '
                      'twin_gets_fresh_block, alias_witness; K04 + per-code-object oracle on programs with twins')


def replay(ctx, path):
    data = json.load(open(path))
    case = data.get('witness', data).get('case') or data.get('case')
    results = corelib.run_real(ctx.build(), [case])
    corelib.run_model(results)
    print(json.dumps({'diffs': corelib.compare_case(results[0]), 'oracle': oracle(results[0])}, indent=1))
    return 0
