"""Worker for the core properties (C01 C02 C04 C12 C13): runs under /venv/bin/python with the scratch
build first on sys.path.

For every case it performs the two runs of DESIGN §3.3:
  run A — the program under an independent recorder (sys.settrace) that mirrors the profiler API and
          writes the op stream for the Lean model, plus an independent oracle count;
  run B — the same program under the real LineProfiler (virtual clock when asked).
JSON in on stdin: {"cases": [...], "delta": int}; JSON out: one line {"lpverif": {...}}.

A case: {"prog": <G_prog dict>, "steps": [[op, ...], ...]} with steps
  ["add", fname] ["decorate", fname] ["enbc"] ["disbc"] ["call", arg] ["with_call", arg] ["snapshot"]
"""
import ctypes
import json
import os
import sys
import threading
import opcode

import line_profiler
from line_profiler import _line_profiler as _ext

NOP = opcode.opmap['NOP'].to_bytes(2, sys.byteorder)
A2L = ctypes.pythonapi.PyCode_Addr2Line
A2L.argtypes = [ctypes.py_object, ctypes.c_int]
A2L.restype = ctypes.c_int
CLIB = ctypes.CDLL(_ext.__file__)
for _n in ('verif_clock_set', 'verif_clock_advance'):
    getattr(CLIB, _n).argtypes = [ctypes.c_longlong]
CLIB.verif_clock_mode.argtypes = [ctypes.c_int, ctypes.c_longlong]
CLIB.verif_clock_advance.restype = None
CLIB.verif_clock_get.restype = ctypes.c_longlong
CLIB.verif_clock_reads.restype = ctypes.c_longlong


def code_lines(code):
    return sorted({A2L(code, o) for o in range(0, len(code.co_code), 2)})


class Interner:
    def __init__(self):
        self.d = {}

    def get(self, k):
        if k not in self.d:
            self.d[k] = len(self.d)
        return self.d[k]


class Blocks:
    """co_code value -> (base id, pad)"""

    def __init__(self):
        self.bases = Interner()

    def blk(self, bs):
        if bs in self.bases.d:
            return (self.bases.d[bs], 0)
        k, cur = 0, bs
        while cur.endswith(NOP) and len(cur) > 2:
            cur = cur[:-2]
            k += 1
            if cur in self.bases.d:
                return (self.bases.d[cur], k)
        return (self.bases.get(bs), 0)


def load_program(prog, extra):
    """exec the files; returns (namespaces by file, function objects [(file, name, func)])."""
    nss = {}
    for fname, src in prog['files']:
        ns = {'__name__': fname[:-3]}
        ns.update(extra)
        exec(compile(src, fname, 'exec'), ns)
        nss[fname] = ns
    # cross-populate public callables so files can call each other
    pub = {}
    for fname, ns in nss.items():
        for k, v in ns.items():
            if not k.startswith('__') and k not in extra and callable(v):
                pub.setdefault(k, v)
    for ns in nss.values():
        for k, v in pub.items():
            ns.setdefault(k, v)
    funcs = [(fname, name, nss[fname][name]) for fname, name, kind in prog['funcs']]
    return nss, funcs


def rebind(nss, old, new):
    for ns in nss.values():
        for k, v in list(ns.items()):
            if v is old:
                ns[k] = new


class Recorder:
    """Independent re-implementation of the by-count window over sys.settrace (run A)."""

    def __init__(self, progfiles, labels, blocks):
        self.ops = []
        self.count = 0
        self.tracing = False
        self.progfiles = progfiles
        self.labels = labels
        self.blocks = blocks
        self.frames = Interner()
        self.shadow = line_profiler.LineProfiler()    # never enabled: only performs the real NOP padding
        self.fidx = {}            # id(function object) -> model index
        self.keep = []
        # oracle
        self.regcodes = {}        # id(code) -> label id   (codes of functions registered so far)
        self.regkeys = {}         # (blk, line) -> label id of the registered code owning that key
        self.alias = {}
        self.alias_blocks = set()       # registered bytecodes that unregistered look-alikes ran on
        # self.alias: (label, line) -> LINE events of *unregistered* code the callback cannot tell apart
        self.counts = {}
        self.inflight = {}
        self.slot = {}            # bytecode -> (label, line) of its pending line (one slot per bytecode, as in the callback)
        self.dropped = {}         # (label, line) -> pending lines thrown away by a disable() while they were executing
        self.midflight_disable = False
        self.nevents = 0
        self.kinds = set()
        # independent per-invocation time accounting (C02 oracle; exact when the clock costs nothing per read)
        self.clock = 0
        self.open = {}            # frame -> (label, line, blk, clock at the LINE event)
        self.incl = {}            # (label, line) -> ticks from each LINE event to the same frame's next event
        self.reentrant = set()    # labels whose code ran re-entrantly (another live invocation had a line in flight)
        self.enabled_at = None
        self.enabled_span = 0

    # -- declarations
    def declare(self, funcs):
        for i, (fname, name, fn) in enumerate(funcs):
            self.fidx[id(fn)] = i
            self.keep.append(fn)
            c = fn.__code__
            base, pad = self.blocks.blk(c.co_code)
            lab = self.labels.get((c.co_filename, c.co_firstlineno, c.co_name))
            ls = code_lines(c)
            # pad > 0: the function arrives with bytecode an earlier profiler of this process had padded (case option `presession`)
            self.ops.append('decl %d %d %d %s' % (i, base, lab, ','.join(map(str, ls)) or '-') + (' %d' % pad if pad else ''))

    # -- profiler API
    def add_function(self, fn):
        self.regcodes[id(fn.__code__)] = self.label_of(fn.__code__)
        self.keep.append(fn.__code__)
        import warnings
        with warnings.catch_warnings():
            warnings.simplefilter('ignore')
            self.shadow.add_function(fn)
        self.regcodes[id(fn.__code__)] = self.label_of(fn.__code__)
        self.keep.append(fn.__code__)
        blk = self.blocks.blk(fn.__code__.co_code)
        for l in code_lines(fn.__code__):
            self.regkeys.setdefault((blk, l), self.label_of(fn.__code__))
        self.ops.append('add %d' % self.fidx[id(fn)])

    def label_of(self, c):
        return self.labels.get((c.co_filename, c.co_firstlineno, c.co_name))

    def __call__(self, fn):
        import functools
        import inspect
        self.add_function(fn)
        rec = self
        if inspect.isgeneratorfunction(fn):
            @functools.wraps(fn)
            def wrapper(*a, **k):
                # mirrors the by-count windows of the profiler's generator wrapper (send / throw / close forwarded, value returned)
                g = fn(*a, **k)
                method, x = g.send, None
                while True:
                    rec.enable_by_count()
                    try:
                        item = method(x)
                    except StopIteration as e:
                        return e.value
                    finally:
                        rec.disable_by_count()
                    try:
                        x = (yield item)
                    except BaseException as e:   # noqa
                        method, x = g.throw, e
                    else:
                        method = g.send
        elif inspect.iscoroutinefunction(fn):
            @functools.wraps(fn)
            async def wrapper(*a, **k):
                rec.enable_by_count()
                try:
                    return await fn(*a, **k)
                finally:
                    rec.disable_by_count()
        else:
            @functools.wraps(fn)
            def wrapper(*a, **k):
                rec.enable_by_count()
                try:
                    return fn(*a, **k)
                finally:
                    rec.disable_by_count()
        return wrapper

    def tracer(self, frame, event, arg):
        if event == 'line' or event == 'return':
            code = frame.f_code
            if code.co_filename in self.progfiles:
                base, pad = self.blocks.blk(code.co_code)
                fr = self.frames.get(id(frame))
                line = frame.f_lineno
                self.ops.append('ev 0 %d %d %d %d %s' % (fr, base, pad, line, 'L' if event == 'line' else 'R'))
                self.nevents += 1
                lab = self.regcodes.get(id(code))
                if lab is not None:
                    o = self.open.pop(fr, None)
                    if o is not None:
                        self.incl[(o[0], o[1])] = self.incl.get((o[0], o[1]), 0) + (self.clock - o[3])
                    if event == 'line':
                        self.counts[(lab, line)] = self.counts.get((lab, line), 0) + 1
                        self.inflight[fr] = (lab, line)
                        self.slot[(base, pad)] = (lab, line)        # the line whose hit is still pending for this bytecode
                        if any(v[2] == (base, pad) for v in self.open.values()):
                            self.reentrant.add(lab)
                        self.open[fr] = (lab, line, (base, pad), self.clock)
                    else:
                        self.inflight.pop(fr, None)
                        self.slot.pop((base, pad), None)
                elif event == 'line':
                    owner = self.regkeys.get(((base, pad), line))
                    if owner is not None:
                        self.alias[(owner, line)] = self.alias.get((owner, line), 0) + 1
                        self.alias_blocks.add((base, pad))
        return self.tracer

    def _on(self, f):
        if not self.tracing:
            self.tracing = True
            self.enabled_at = self.clock
            while f is not None:
                f.f_trace = self.tracer
                f = f.f_back
            sys.settrace(self.tracer)

    def _off(self, f):
        if self.tracing:
            self.tracing = False
            sys.settrace(None)
            while f is not None:
                f.f_trace = None
                f = f.f_back
            if self.inflight:
                self.midflight_disable = True
                self.inflight.clear()
            # disable() drops the pending line of every bytecode: those line events never become hits
            for (lab, line) in self.slot.values():
                self.dropped[(lab, line)] = self.dropped.get((lab, line), 0) + 1
            self.slot.clear()
            self.open.clear()
            self.enabled_span += self.clock - self.enabled_at

    def enable_by_count(self):
        if self.count == 0:
            self._on(sys._getframe(1))
        self.ops.append('enbc 0')
        self.count += 1

    def disable_by_count(self):
        if self.count > 0:
            self.count -= 1
            if self.count == 0:
                self._off(sys._getframe(1))
        self.ops.append('disbc 0')

    def enable(self):
        # the raw switch: tracing on, the count untouched
        self.ops.append('enable 0')
        self._on(sys._getframe(1))

    def disable(self):
        self.ops.append('disable 0')
        self._off(sys._getframe(1))

    def __enter__(self):
        self.enable_by_count()

    def __exit__(self, *a):
        self.disable_by_count()

    def tick(self, n):
        self.clock += n
        self.ops.append('tick %d' % n)

    def snapshot(self):
        self.ops.append('stats')


def canon_stats(timings, labels, with_time):
    out = {}
    for key, entries in timings.items():
        lab = labels.get(tuple(key))
        out[lab] = [[l, h, (t if with_time else 0)] for (l, h, t) in entries]
    return '|'.join('%d:%s' % (lab, ';'.join('%d,%d,%d' % tuple(e) for e in out[lab])) for lab in sorted(out))


def run_steps(prog, steps, prof, nss, funcs, on_snapshot, on_add=None):
    byname = {name: fn for (_f, name, fn) in funcs}
    results = []
    for st in steps:
        op = st[0]
        if op == 'add':
            prof.add_function(byname[st[1]])
            if on_add:
                on_add(byname[st[1]])
        elif op == 'add_module':
            # the functions defined in one file, registered the way `kernprof -p module` / `%lprun -m` do: LineProfiler.add_module
            import types
            own = {k: v for k, v in nss[st[1]].items() if isinstance(v, types.FunctionType) and v.__code__.co_filename == st[1]}
            if hasattr(prof, 'add_module') and not isinstance(prof, Recorder):
                prof.add_module(types.SimpleNamespace(**own))
                for f in own.values():
                    if on_add:
                        on_add(f)
            else:
                for f in own.values():
                    prof.add_function(f)
        elif op == 'decorate':
            old = byname[st[1]]
            new = prof(old)
            rebind(nss, old, new)
            if on_add:
                on_add(old)
        elif op == 'enbc':
            prof.enable_by_count()
        elif op == 'disbc':
            prof.disable_by_count()
        elif op == 'enable_raw':
            prof.enable()
        elif op == 'disable_raw':
            prof.disable()
        elif op == 'call':
            try:
                results.append(repr(nss['prog_main.py'][prog['driver']](st[1])))
            except BaseException as e:   # noqa
                results.append('EXC ' + type(e).__name__)
        elif op == 'with_call':
            try:
                with prof:
                    results.append(repr(nss['prog_main.py'][prog['driver']](st[1])))
            except BaseException as e:   # noqa
                results.append('EXC ' + type(e).__name__)
        elif op == 'snapshot':
            on_snapshot()
        else:
            raise ValueError(op)
    return results


def presession(case, funcs, blocks):
    """case['presession'] = names registered, in that order, with an earlier profiler of the same process (a previous %lprun / in-process
    kernprof run): byte-identical functions among them keep the padded bytecode that profiler gave them"""
    for (_f, _n, fn) in funcs:
        blocks.blk(fn.__code__.co_code)          # the compiler's own bytecodes first: padded ones are named relative to them
    names = case.get('presession')
    if names:
        import warnings
        earlier = line_profiler.LineProfiler()
        with warnings.catch_warnings():
            warnings.simplefilter('ignore')
            for nm in names:
                for (_f, n, fn) in funcs:
                    if n == nm:
                        earlier.add_function(fn)
                        break


def run_case(case, delta):
    prog, steps = case['prog'], case['steps']
    progfiles = {f for f, _ in prog['files'] if f != 'prog_lib.py'}
    with_time = case.get('time', False)
    # ---- run A
    labels = Interner()
    blocks = Blocks()
    rec = Recorder(progfiles, labels, blocks)
    inner = case.get('inner_snaps', True)

    def limited(f, budget=12):
        # a program may reach its snap() in a loop: only the first few calls take a snapshot (the same ones in both runs)
        left = [budget]

        def g():
            if left[0] > 0:
                left[0] -= 1
                f()
        return g
    def renable_rec():
        if rec.count > 0:
            rec.enable()                        # the raw enable: nothing changes while tracing is on; switches it back on after a raw disable()
    nss, funcs = load_program(prog, {'tick': rec.tick, 'prof': rec, 'snap': (limited(rec.snapshot) if inner else (lambda: None)), 'renable': renable_rec})
    presession(case, funcs, blocks)
    rec.declare(funcs)
    rec.ops.append('delta %d' % (delta if with_time else 0))
    resA = run_steps(prog, steps, rec, nss, funcs, rec.snapshot)
    if rec.count:
        rec.count = 1
        rec.disable_by_count()
    if rec.tracing:
        rec.disable()
    oracle = {'%d:%d' % k: v for k, v in sorted(rec.counts.items())}
    alias = {'%d:%d' % k: v for k, v in sorted(rec.alias.items())}
    # ---- run B
    labelsB = Interner()
    blocksB = Blocks()
    p = line_profiler.LineProfiler()
    CLIB.verif_clock_set(0)
    CLIB.verif_clock_mode(1 if with_time else 0, delta)
    realtick = CLIB.verif_clock_advance
    snaps = []

    def snap():
        # the statistics are also read through the two other public readers, which must be as pure as get_stats(): the report printer and
        # the dump (every third snapshot each); what is compared is get_stats() right afterwards
        k = len(snaps) % 3
        if k == 1:
            import io
            p.print_stats(io.StringIO())
        elif k == 2:
            import tempfile
            with tempfile.NamedTemporaryFile(prefix='lpverif-dump-', dir=os.environ.get('LPVERIF_SCRATCH', '/var/tmp')) as fh:
                p.dump_stats(fh.name)
        snaps.append('stats ' + canon_stats(p.get_stats().timings, labelsB, with_time))
    def renable_real():
        if p.enable_count > 0:
            p.enable()
    nssB, funcsB = load_program(prog, {'tick': realtick, 'prof': p, 'snap': (limited(snap) if inner else (lambda: None)), 'renable': renable_real})
    presession(case, funcsB, blocksB)
    for i, (fname, name, fn) in enumerate(funcsB):
        c = fn.__code__
        blocksB.blk(c.co_code)
        labelsB.get((c.co_filename, c.co_firstlineno, c.co_name))
    blks = []

    def on_add(fn):
        blks.append('blk %d %d' % blocksB.blk(fn.__code__.co_code))

    import warnings
    with warnings.catch_warnings():
        warnings.simplefilter('ignore')
        try:
            resB = run_steps(prog, steps, p, nssB, funcsB, snap, on_add)
        finally:
            while p.enable_count > 0:
                p.disable_by_count()
            p.disable()
            CLIB.verif_clock_mode(0, 0)
    # NoCollision on the concrete hashes of this run
    # (computed from the code objects themselves, not from the profiler's own tables: those are under test)
    pairs = {(c.co_code, -1 if l is None else l) for c in p.code_hash_map for (_s, _e, l) in c.co_lines()}
    collision = len({hash(cc) ^ l for cc, l in pairs}) != len(pairs)
    return {'ops': rec.ops, 'resA': resA, 'resB': resB, 'real_snaps': snaps, 'real_blks': blks,
            'oracle': oracle, 'alias': alias, 'alias_blocks': len(rec.alias_blocks), 'dropped': {'%d:%d' % k: v for k, v in sorted(rec.dropped.items())},
            'incl': {'%d:%d' % k: v for k, v in sorted(rec.incl.items())}, 'reentrant': sorted(rec.reentrant),
            'enabled_span': rec.enabled_span, 'clock_end_B': CLIB.verif_clock_get(), 'midflight_disable': rec.midflight_disable, 'nevents': rec.nevents,
            'collision': collision, 'labels': {str(v): list(k) for k, v in labels.d.items()}}


def main():
    payload = json.load(sys.stdin)
    out = []
    for case in payload['cases']:
        try:
            out.append(run_case(case, payload.get('delta', 0)))
        except Exception as e:   # harness error: reported, never silently dropped
            import traceback
            out.append({'error': traceback.format_exc()})
    sys.stdout.write('\n{"lpverif": %s}\n' % json.dumps({'results': out}))


if __name__ == '__main__':
    sys.setrecursionlimit(10000)
    main()
