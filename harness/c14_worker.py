"""Worker for C14: drives real GlobalProfiler objects in-process (histories) and runs show() in a scratch directory.
JSON in: {"cases": [{"env": str|None, "argv": [...], "ops": [[op, arg?], ...]}], "shows": [{"cfg": {...}, "prefix": str}], "probe": bool}"""
import contextlib
import io
import json
import os
import re
import sys
import tempfile

import line_profiler
from line_profiler import explicit_profiler as ep


def run_case(case):
    old_env = os.environ.pop('LINE_PROFILE', None)
    old_argv = sys.argv
    old_reg, old_LP = ep.atexit.register, ep.LineProfiler
    created, registered, given = [], [], {}
    try:
        if case['env'] is not None:
            os.environ['LINE_PROFILE'] = case['env']
        sys.argv = list(case['argv'])

        class FakeAtexit:
            @staticmethod
            def register(fn, *a, **k):
                registered.append(fn)
                return fn

        def make(*a, **k):
            p = old_LP(*a, **k)
            created.append(p)
            return p
        ep.atexit = FakeAtexit
        ep.LineProfiler = make
        gp = ep.GlobalProfiler()
        out = []

        def ref(p):
            if p is None:
                return 'None'
            for i, q in enumerate(created):
                if q is p:
                    return 'own%d' % i
            for n, q in given.items():
                if q is p:
                    return 'given%d' % n
            return 'foreign'

        def state():
            return '%s %s %d %d %s' % (gp.enabled, ref(gp._profile), len(created),
                                       sum(1 for r in registered if getattr(r, '__self__', None) is gp and r.__name__ == 'show'),
                                       gp.output_prefix)
        for op in case['ops']:
            if op[0] == 'decorate':
                def f(x):
                    return x + 1
                try:
                    r = gp(f)
                except TypeError:
                    out.append('typeError | ' + state())
                    continue
                if r is f:
                    res = 'same'
                else:
                    owner = [p for p in created + list(given.values()) if f in p.functions]
                    res = 'wrapped ' + (ref(owner[0]).replace('own', 'own ').replace('given', 'given ') if len(owner) == 1 else 'ambiguous%d' % len(owner))
                    if r(1) != 2 or getattr(r, '__wrapped__', None) is not f:
                        res += ' (wrapper does not behave like f)'
                out.append(res + ' | ' + state())
            elif op[0] == 'enable':
                gp.enable(*op[1:])
                out.append(state())
            elif op[0] == 'disable':
                gp.disable()
                out.append(state())
            elif op[0] == 'kernprof':
                if op[1] is None:
                    gp._kernprof_overwrite(None)
                else:
                    given.setdefault(op[1], old_LP())
                    gp._kernprof_overwrite(given[op[1]])
                out.append(state())
        return out
    finally:
        ep.atexit = __import__('atexit')
        ep.LineProfiler = old_LP
        sys.argv = old_argv
        os.environ.pop('LINE_PROFILE', None)
        if old_env is not None:
            os.environ['LINE_PROFILE'] = old_env


def run_show(sh):
    """show() with the given write_config / prefix in an empty directory: which files appear, how often the report is printed"""
    old = os.getcwd()
    with tempfile.TemporaryDirectory(dir=os.environ.get('LPVERIF_SCRATCH', '/var/tmp')) as d:
        os.chdir(d)
        try:
            gp = ep.GlobalProfiler()
            gp._profile = line_profiler.LineProfiler()

            def g(n):
                return sum(range(n))
            gp._profile(g)(10)
            gp.write_config.update(sh['cfg'])
            gp.show_config['rich'] = 0
            if sh.get('prefix') is not None:
                gp.output_prefix = sh['prefix']
            buf = io.StringIO()
            with contextlib.redirect_stdout(buf):
                gp.show()
            files = []
            for root, dn, fn in os.walk('.'):
                for f in fn:
                    files.append(os.path.relpath(os.path.join(root, f), '.'))
            canon = sorted(re.sub(r'_\d{4}-\d\d-\d\dT\d{6}\.txt$', '_<TS>.txt', f) for f in files)
            text = buf.getvalue()
            return {'files': canon, 'reports_on_stdout': text.count('Timer unit:'),
                    'wrote_lines': sorted(re.sub(r'_\d{4}-\d\d-\d\dT\d{6}\.txt$', '_<TS>.txt', l.split('to ', 1)[1])
                                          for l in text.splitlines() if l.startswith('Wrote profile results to '))}
        finally:
            os.chdir(old)


def probe_lower():
    """no non-ASCII code point lower-cases into the alphabet of _FALSY_STRINGS"""
    alpha = set(''.join(ep._FALSY_STRINGS))
    bad = []
    for cp in range(128, 0x110000):
        if 0xD800 <= cp <= 0xDFFF:
            continue
        if set(chr(cp).lower()) & alpha:
            bad.append(cp)
    return bad


def main():
    payload = json.load(sys.stdin)
    res = {'cases': [], 'shows': []}
    for c in payload.get('cases', []):
        try:
            res['cases'].append({'out': run_case(c)})
        except Exception:
            import traceback
            res['cases'].append({'error': traceback.format_exc()})
    for sh in payload.get('shows', []):
        try:
            res['shows'].append(run_show(sh))
        except Exception:
            import traceback
            res['shows'].append({'error': traceback.format_exc()})
    if payload.get('probe'):
        res['lower_probe_bad'] = probe_lower()
        res['falsy'] = sorted(ep._FALSY_STRINGS)
    sys.stdout.write('\n{"lpverif": %s}\n' % json.dumps(res))


main()
