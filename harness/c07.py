"""C07 — kernprof runs a program the way python itself would.
Proof (the part that is logic): Props/C07.lean — env_equiv on the model of _main's set-up code (argv0_module_witness = F-C07b),
timers_stopped and setup_once_first_unprofiled over the control skeletons dumped from the tree, findScript_spec.
Tie / oracle: K07 — differential: the same program run by `python …` and by `python -m kernprof [options] …` in fresh processes, for
option combinations x script placements (relative, sub-directory, absolute, on PATH) x -m module / package / package.module: the
environment the program observes, its stdout (kernprof may only append its closing lines), stderr (must stay empty), exit latency;
setup file: exactly once, first, with no profiler present.
stdout / stderr / latency are runtime facts: exercised, not proved (level stated as partial in the manifest)."""
import concurrent.futures as cf
import json
import os
import shutil
import subprocess
import tempfile
import time

from common import real_env, PY, SCRATCH_ROOT, lean_driver, run_worker

LEVEL = 'proof'

ENVDUMP = '''\
import json, os, sys
import helper_sibling
import helper_wrapped
from os import getcwd as c_level_function          # callables implemented in C, imported by name
from math import sqrt as another_c_level_function
def annotated(x: int, y: "str" = "") -> float: return 0.0          # annotations are evaluated when the def runs (no __future__ import here)
print("ANN " + json.dumps({k: repr(v) for k, v in sorted(annotated.__annotations__.items())}))
print("ENV " + json.dumps({"argv": sys.argv, "name": __name__, "file": os.path.abspath(__file__), "path0": os.path.abspath(sys.path[0]), "path0_raw": sys.path[0],
                           "cwd": os.getcwd(), "sibling": os.path.abspath(helper_sibling.__file__)}))
with open(os.path.join(os.environ["C07_LOG_DIR"], "order.log"), "a") as fh:
    fh.write("prog\\n")
print("wrapped helper", helper_wrapped.twice(4))
import builtins as _b                     # no builtin is hidden by a name the runner left in the program's global namespace
print("builtins hidden by globals:", sorted(n for n in globals() if hasattr(_b, n) and not n.startswith("__")), "dir works:", callable(dir) and "X" in dir(helper_sibling))
pattern = "\\d+ items"        # (not a raw string: the parser warns about the escape, once)
print("program output line 1")
print("program output line 2")
'''
SETUP = '''\
import builtins, os, sys
with open(os.path.join(os.environ["C07_LOG_DIR"], "order.log"), "a") as fh:
    fh.write("setup profile_in_builtins=%s tracing=%s\\n" % (hasattr(builtins, "profile"), sys.gettrace() is not None))
'''
CLOSING = ('Wrote profile results to ', 'Inspect results with:', '/venv/bin/python -m ', 'python -m ', 'python3 -m ', 'Timer unit:', 'Total time:', 'File: ',
           'Function: ', 'Line #', '=====', '   ', '')


WRAPPED = '''\
import functools
def logged(fn):
    @functools.wraps(fn)
    def inner(*args):
        return fn(*args)
    return inner
@logged
def twice(x):
    return 2 * x
'''
WRAPPED_WARNING = 'UserWarning: Adding a function with a __wrapped__ attribute'


def only_wrapped_warning(err):
    """classifier of F-C07g: standard error holds nothing but add_function's warning about a function with `__wrapped__` (message line + the
    source line the warnings module echoes)"""
    lines = [l for l in err.splitlines() if l.strip()]
    return bool(lines) and all(WRAPPED_WARNING in l or l.strip().startswith('self.add_function(') for l in lines) and any(WRAPPED_WARNING in l for l in lines)


# a program that changes directory before it imports a second sibling (the import path root must not move with it)
CHDIR = ENVDUMP + '''\
os.chdir(os.environ["C07_LOG_DIR"])
import helper_late
print("late sibling", helper_late.Y)
'''


def layout(d):
    """files: a script with a sibling in the top directory, in a sub-directory, in a bin directory on PATH, a module and a package"""
    files = {'top.py': ENVDUMP, 'helper_sibling.py': 'X = 1\n', 'helper_wrapped.py': WRAPPED, 'sub/helper_wrapped.py': WRAPPED, 'bin/helper_wrapped.py': WRAPPED, 'sub/inner.py': ENVDUMP, 'sub/helper_sibling.py': 'X = 2\n',
             'bin/onpath.py': ENVDUMP, 'bin/helper_sibling.py': 'X = 3\n', 'modx.py': ENVDUMP,
             'pkgm/__init__.py': '', 'pkgm/__main__.py': ENVDUMP.replace('import helper_sibling', 'import helper_sibling'),
             'pkgm/leaf.py': ENVDUMP, 'setup_file.py': SETUP, 'sub/setup_in_sub.py': SETUP,
             'raises.py': ENVDUMP + 'raise ValueError("the program fails at its end")\n',
             'sub/chdir_then_import.py': CHDIR, 'sub/helper_late.py': 'Y = 5\n', 'linkdir/.keep': '',
             # a directory name with an apostrophe, a space and a backslash-free quote pair: the path goes into a command string in cProfile mode
             "bob's \"old\" scripts/quoted.py": ENVDUMP, "bob's \"old\" scripts/helper_sibling.py": 'X = 4\n', "bob's \"old\" scripts/helper_wrapped.py": WRAPPED}
    for rel, text in files.items():
        p = os.path.join(d, rel)
        os.makedirs(os.path.dirname(p), exist_ok=True)
        with open(p, 'w') as fh:
            fh.write(text)
    # a script reached through a symbolic link in another directory: python puts the directory of the file itself on the import path
    os.symlink(os.path.join('..', 'sub', 'inner.py'), os.path.join(d, 'linkdir', 'linked.py'))


TARGETS = [
    # (name, python argv tail, kernprof argv tail, is_module)
    ('relative', ['top.py'], ['top.py'], False),
    ('subdir', ['sub/inner.py'], ['sub/inner.py'], False),
    ('absolute', ['{D}/sub/inner.py'], ['{D}/sub/inner.py'], False),
    ('on-PATH', ['{D}/bin/onpath.py'], ['onpath.py'], False),
    ('module', ['-m', 'modx'], ['-m', 'modx'], True),
    ('package', ['-m', 'pkgm'], ['-m', 'pkgm'], True),
    ('package.module', ['-m', 'pkgm.leaf'], ['-m', 'pkgm.leaf'], True),
    ('raises', ['raises.py'], ['raises.py'], False),
    ('symlink', ['linkdir/linked.py'], ['linkdir/linked.py'], False),
    ('chdir-then-import', ['sub/chdir_then_import.py'], ['sub/chdir_then_import.py'], False),
    ('quoted-path', ['bob\'s "old" scripts/quoted.py'], ['bob\'s "old" scripts/quoted.py'], False),
]
OPTSETS = [[], ['-l'], ['-b'], ['-l', '-b'], ['-l', '-v'], ['-l', '-z', '-u', '1e-3'], ['-l', '-i', '5'], ['-b', '-i', '5'], ['-i', '3'],
           ['-l', '-o', 'custom.out'], ['-l', '-s', 'setup_file.py'], ['-s', 'setup_file.py'], ['-l', '-p', 'helper_sibling'],
           ['-l', '-p', 'helper_sibling', '--prof-imports'], ['-l', '-r'], ['-l', '-s', 'sub/setup_in_sub.py', '-i', '2'],
           ['-l', '-p', '{SELF}', '--prof-imports'], ['-l', '-p', '{SELF}'], ['-l', '-p', 'helper_wrapped']]          # the program itself selected for auto-profiling
PROG_ARGS = [[], ['a', '-l', '--view'], ['x', '--', '-m', 'y']]


def run_one(build, target, opts, pargs):
    name, py_tail, kp_tail, is_module = target
    d = tempfile.mkdtemp(prefix='c07-', dir=SCRATCH_ROOT)
    try:
        layout(d)
        logdir = os.path.join(d, 'logs')
        os.makedirs(logdir)
        e = real_env(build, C07_LOG_DIR=logdir)
        e['PATH'] = os.path.join(d, 'bin') + os.pathsep + e.get('PATH', '')
        e['PYTHONPATH'] = build
        sub = lambda xs: [x.replace('{D}', d) for x in xs]   # noqa
        shield = ['--'] if (not is_module and '-m' in pargs) else []
        t0 = time.time()
        a = subprocess.run([PY] + sub(py_tail) + pargs, cwd=d, env=e, capture_output=True, text=True, timeout=120)
        t_py = time.time() - t0
        if os.path.exists(os.path.join(logdir, 'order.log')):
            os.remove(os.path.join(logdir, 'order.log'))
        t0 = time.time()
        kp_pargs = (shield + pargs) if shield else pargs
        self_sel = kp_tail[-1].replace('{D}', d)
        if name == 'on-PATH':
            self_sel = os.path.join(d, 'bin', 'onpath.py')
        opts = [o.replace('{SELF}', self_sel) for o in opts]
        b = subprocess.run([PY, '-m', 'kernprof'] + opts + sub(kp_tail) + kp_pargs, cwd=d, env=e, capture_output=True, text=True, timeout=120)
        t_kp = time.time() - t0
        order = open(os.path.join(logdir, 'order.log')).read().splitlines() if os.path.exists(os.path.join(logdir, 'order.log')) else []
        return {'py': {'rc': a.returncode, 'out': a.stdout, 'err': a.stderr[-500:], 't': t_py},
                'kp': {'rc': b.returncode, 'out': b.stdout, 'err': b.stderr[-800:], 't': t_kp}, 'order': order, 'dir': d}
    finally:
        shutil.rmtree(d, ignore_errors=True)


def env_of(out):
    for line in out.splitlines():
        if line.startswith('ENV '):
            return json.loads(line[4:])
    return None


def compare(target, opts, pargs, r):
    """-> (violations, known) lists"""
    name, _py, _kp, is_module = target
    viol, known = [], []
    if name == 'raises':
        # a program that dies from an uncaught exception: same traceback tail, and kernprof must not outlive it
        if r['py']['rc'] == 0 or r['kp']['rc'] == 0:
            viol.append({'exit_codes': [r['py']['rc'], r['kp']['rc']]})
        if 'ValueError: the program fails at its end' not in r['kp']['err']:
            viol.append({'traceback_missing': r['kp']['err'][-300:]})
        if r['kp']['t'] > r['py']['t'] + 1.5:
            viol.append({'exit_latency_s': round(r['kp']['t'], 2), 'python_s': round(r['py']['t'], 2)})
        return viol, known
    if r['py']['rc'] != 0:
        return [{'harness': 'direct python run failed', 'stderr': r['py']['err']}], []
    if r['kp']['rc'] != 0:
        viol.append({'kernprof_exit_code': r['kp']['rc'], 'stderr': r['kp']['err']})
        return viol, known
    ea, eb = env_of(r['py']['out']), env_of(r['kp']['out'])
    if ea is None or eb is None:
        return [{'no_environment_line': r['kp']['out'][-300:]}], []
    for key in ('name', 'file', 'path0', 'path0_raw', 'cwd', 'sibling'):
        if ea[key] != eb[key]:
            viol.append({'differs': key, 'python': ea[key], 'kernprof': eb[key]})
    if ea['argv'][1:] != eb['argv'][1:]:
        viol.append({'differs': 'argv[1:]', 'python': ea['argv'][1:], 'kernprof': eb['argv'][1:]})
    if ea['argv'][0] != eb['argv'][0] and name != 'on-PATH':      # python has no PATH lookup to compare argv[0] with
        d = {'differs': 'argv[0]', 'python': ea['argv'][0], 'kernprof': eb['argv'][0]}
        (known if is_module else viol).append(d)
    # stdout: the program's own output first, then only kernprof's closing lines / report
    pa = [l for l in r['py']['out'].splitlines() if not l.startswith('ENV ')]
    pb = [l for l in r['kp']['out'].splitlines() if not l.startswith('ENV ')]
    if pb[:len(pa)] != pa:
        viol.append({'stdout_prefix_differs': {'python': pa, 'kernprof': pb[:len(pa) + 2]}})
    else:
        rest = pb[len(pa):]
        if not rest or not rest[0].startswith('Wrote profile results to '):
            viol.append({'unexpected_after_program_output': rest[:3]})
    def warn_lines(err):
        # what the parser says about the program's own source (python says it too): compared, not forbidden
        import re as _re
        return sorted(_re.sub(r'^.*?([^/ ]+\.py:\d+: SyntaxWarning)', r'\1', l) for l in err.splitlines() if 'SyntaxWarning' in l)
    kp_other = '\n'.join(l for i, l in enumerate(r['kp']['err'].splitlines())
                         if 'SyntaxWarning' not in l and not (i and 'SyntaxWarning' in r['kp']['err'].splitlines()[i - 1]))
    if warn_lines(r['kp']['err']) != warn_lines(r['py']['err']):
        viol.append({'parser_warnings_differ': {'python': warn_lines(r['py']['err']), 'kernprof': warn_lines(r['kp']['err'])}})
    if kp_other.strip():
        r = dict(r, kp=dict(r['kp'], err=kp_other))
        if only_wrapped_warning(r['kp']['err']) and '-p' in opts:
            known.append({'stderr_wrapped_warning': r['kp']['err'][-300:]})
        else:
            viol.append({'stderr_not_empty': r['kp']['err'][-400:]})
    if r['kp']['t'] > r['py']['t'] + 1.5:
        viol.append({'exit_latency_s': round(r['kp']['t'], 2), 'python_s': round(r['py']['t'], 2)})
    if '-s' in opts:
        if len(r['order']) != 2 or not r['order'][0].startswith('setup') or r['order'][1] != 'prog':
            viol.append({'setup_order': r['order']})
        elif 'profile_in_builtins=False tracing=False' not in r['order'][0]:
            viol.append({'setup_was_not_unprofiled': r['order'][0]})
    elif r['order'] != ['prog']:
        viol.append({'program_ran': r['order']})
    return viol, known


# ------------------------------------------------------------------------------------------------- K07t: the -i timer under thread schedules
def timer_schedules(rng, n):
    out = [['main', 'main'], ['main', 'fire', 'run 0', 'main', 'run 0', 'run 0'], ['main', 'fire', 'main', 'run 0', 'run 0', 'run 0'],
           ['main', 'fire', 'run 0', 'run 0', 'main', 'run 0'], ['main', 'fire', 'run 0', 'run 0', 'fire', 'run 1', 'main', 'run 1', 'run 0', 'run 1']]
    for i in range(n):
        r = rng.fork('t%d' % i)
        sched = ['main'] if r.chance(4, 5) else []
        for _ in range(r.below(14) + 2):
            k = r.below(10)
            sched.append('main' if k < 2 else 'fire' if k < 5 else 'fireLeaked' if k < 6 else 'run %d' % r.below(3))
        out.append(sched)
    return out


def timer_model_states(program, sched):
    """state lines of the Lean model for one schedule, rewritten to the worker's form (remaining counts -> source lines)"""
    main_lines = [i['line'] for i in program['ctor'] + program['stop']]
    run_lines = [i['line'] for i in program['run']]
    out = []
    for ln in lean_driver('timer', ['reset'] + sched):
        f = dict(x.split('=', 1) for x in ln.split())
        m = int(f['main'])
        rs = [int(x) for x in f['runs'].split(',') if x != '']
        out.append('r=%s s=%s cur=%s leaked=%s dumps=%s mainline=%d runlines=%s' % (
            f['r'], f['s'], f['cur'], f['leaked'], f['dumps'], main_lines[len(main_lines) - m] if m else 0,
            ','.join(str(run_lines[len(run_lines) - a] if a else 0) for a in rs)))
    return out


def timer_check(ctx, build):
    import extract
    program = extract.timer_program()
    nrand = 120 if ctx.quick else 1500
    depth = 7 if ctx.quick else 10
    if ctx.broken:
        nrand, depth = nrand * 4, depth + 2
    scheds = timer_schedules(ctx.rng.fork('timer'), nrand)
    nw = 6
    parts = [{'program': program, 'schedules': scheds[i::nw], 'enumerate': 0} for i in range(nw)]
    parts.append({'program': program, 'schedules': [], 'enumerate': depth, 'limit': 3000 if ctx.quick else 60000})
    with cf.ThreadPoolExecutor(max_workers=nw + 1) as ex:
        outs = list(ex.map(lambda p: run_worker(build, 'c07_timer_worker.py', p, 3000), parts))
    results = [r for o in outs for r in o['results']]
    ctx.log('%d schedules of the real RepeatedTimer (%d enumerated up to depth %d)' % (len(results), len(outs[-1]['results']), depth))
    kdiff = 0
    stats = {'schedules': len(results), 'enumerated': len(outs[-1]['results']), 'stop_while_run_in_flight': 0, 'max_threads': 0, 'live_after_stop': 0}
    model_ok = getattr(ctx, 'driver_ok', True)
    # the model on all schedules in one driver call per chunk
    for r in results:
        if 'error' in r:
            ctx.broken.append(('harness (timer)', str(r['error'])[-800:] + ' schedule=%s' % r.get('schedule')))
            continue
        d = r['drained']
        nthreads = len(r['states'][-1].split('runlines=')[1].split(',')) if r['states'][-1].split('runlines=')[1] else 0
        stats['max_threads'] = max(stats['max_threads'], nthreads)
        if any('mainline=0' in s and any(x not in ('', '0') for x in s.split('runlines=')[1].split(',')) for s in r['states']):
            stats['stop_while_run_in_flight'] += 1
        bad = None
        if d['live_timers_after_stop']:
            bad = {'live_timers_after_stop_returned': d['live_timers_after_stop']}
            stats['live_after_stop'] += 1
        elif d.get('dumps_after_stop_returned'):
            bad = {'periodic_dumps_written_after_stop_returned': d['dumps_after_stop_returned']}
        elif d['errors']:
            bad = {'exception_in_thread': d['errors']}
        elif not d['settled']:
            bad = {'threads_did_not_finish': True}
        if bad:
            ctx.fail('with -i: after stop() returned a timer is still live (kernprof would never terminate) or a periodic dump is still written (over the final statistics)',
                     {'finding_class': None, 'schedule': r['schedule'], 'difference': bad, 'states': r['states'][-4:]})
    if model_ok:
        chunks = [results[i::8] for i in range(8)]

        def one(chunk):
            n = 0
            for r in chunk:
                if 'error' in r:
                    continue
                ms = timer_model_states(program, r['schedule'])
                if ms != r['states']:
                    n += 1
                    k = next((i for i, (a, b) in enumerate(zip(ms, r['states'])) if a != b), min(len(ms), len(r['states'])))
                    r['kdiff'] = 'schedule %s: after %d choices model %r real %r' % (r['schedule'], k, ms[k:k + 1], r['states'][k:k + 1])
            return n
        with cf.ThreadPoolExecutor(max_workers=8) as ex:
            kdiff = sum(ex.map(one, chunks))
        for r in results:
            if 'kdiff' in r:
                ctx.broken.append(('K07t correspondence', r['kdiff']))
                break
    stats['correspondence_disagreements'] = kdiff
    return stats


def run(ctx):
    ctx.prove('LPVerif.Props.C07', 'LPVerif/Props/C07.lean', drivers=('Skel', 'Timer'))
    build = ctx.build()
    tstats = timer_check(ctx, build)
    combos = [(t, o, p) for t in TARGETS for o in OPTSETS for p in PROG_ARGS]
    if ctx.quick:
        base = [(t, o, PROG_ARGS[(i + j) % 3]) for i, t in enumerate(TARGETS) for j, o in enumerate(OPTSETS) if (i + j) % 3 == 0 or o in (['-l', '-i', '5'], ['-l', '-s', 'setup_file.py'])]
        base += [(TARGETS[-1], o, []) for o in (['-l', '-i', '5'], ['-b', '-i', '5'], ['-i', '3'])]
        base += [(t, ['-l', '-p', '{SELF}', '--prof-imports'], []) for t in (TARGETS[0], TARGETS[2], TARGETS[4])]
        combos = base + ctx.rng.fork('c').sample(combos, 12)
    if ctx.broken:
        combos = [(t, o, p) for t in TARGETS for o in OPTSETS for p in PROG_ARGS[:2]]
    ctx.log('%d differential runs (python vs kernprof, fresh processes)' % len(combos))
    with cf.ThreadPoolExecutor(max_workers=12) as ex:
        res = list(ex.map(lambda c: run_one(build, *c), combos))
    nontrivial = set()
    dist = {}
    relat = 0
    for (t, o, p), r in zip(combos, res):
        viol, known = compare(t, o, p, r)
        if viol and all('exit_latency_s' in v for v in viol):
            # wall-clock latency depends on the machine's load: measured again, alone, before it is believed
            relat += 1
            r = run_one(build, t, o, p)
            viol, known = compare(t, o, p, r)
        for v in viol[:2]:
            ctx.fail('the program does not see / produce under kernprof what it does under python', {'finding_class': None, 'target': t[0], 'kernprof_options': o,
                                                                                                 'program_args': p, 'difference': v})
        for k in known:
            if 'stderr_wrapped_warning' in k:
                ctx.fail('-p: a warning on standard error for a selected function that has __wrapped__', {'finding_class': 'F-C07g', 'target': t[0], 'kernprof_options': o, 'difference': k})
            else:
                ctx.fail('-m: sys.argv[0] is the module name', {'finding_class': 'F-C07b', 'target': t[0], 'difference': k})
        dist[t[0]] = dist.get(t[0], 0) + 1
        if o or p:
            nontrivial.add(json.dumps([t[0], o, p]))
    ctx.coverage.update({
        'evaluations': len(combos), 'distinct_nontrivial': len(nontrivial),
        'rule': '7 placements (relative, sub-directory, absolute, on PATH, -m module, -m package, -m package.module) + a program dying from an uncaught exception, x 16 option sets '
                '(-l -b -v -z -u -i -o -s -p --prof-imports -r) x 3 program-argument lists (sampled in quick); each run twice (python, kernprof) in fresh processes',
        'traces_validated_against_impl': len(combos) + tstats['schedules'] - tstats['correspondence_disagreements'], 'target_distribution': dist, 'latency_remeasured': relat,
        'timer_schedules': tstats})
    ctx.coverage['samples'].append({'target': combos[-1][0][0], 'options': combos[-1][1], 'program_args': combos[-1][2],
                                    'kernprof_stdout_tail': res[-1]['kp']['out'][-300:], 'latency': [round(res[-1]['py']['t'], 2), round(res[-1]['kp']['t'], 2)]})
    ctx.assumptions += ['the -i timer: statement-level atomicity (the interpreter switches threads between, not inside, the simple statements of RepeatedTimer); '
                        'threading.Timer fires at most once and never after cancel(); K07t drives the real class through schedules with a trace-function scheduler',
                        'stdout / stderr content and exit latency are runtime behaviour: compared on sampled option sets, not proved',
                        'F-C07b (known): in -m mode sys.argv[0] is the module name (python: the file path); pinned by tests/test_kernprof.py::test_kernprof_m_parsing',
                        'module attributes such as __package__/__spec__ of the exec namespace are C08\'s finding F-C08d, not compared here']
    return ctx.finish('Lean: env_equiv on the set-up model, timers_stopped / setup_once_first_unprofiled over the dumped skeletons, findScript_spec; '
                      'timer_quiet_after_stop / timer_never_two / after_stop_winds_down for every schedule of the RepeatedTimer program read from the tree (K07t); '
                      'K07: python vs kernprof differential in fresh processes')


def replay(ctx, path):
    data = json.load(open(path))
    w = data.get('witness', data)
    t = next(x for x in TARGETS if x[0] == w['target'])
    r = run_one(ctx.build(), t, w.get('kernprof_options', []), w.get('program_args', []))
    print(json.dumps({'compare': compare(t, w.get('kernprof_options', []), w.get('program_args', []), r), 'real': r}, indent=1)[:6000])
    return 0
