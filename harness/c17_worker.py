"""Worker for C17: the real get_module_from_importfrom and the real AstTreeModuleProfiler tree rewrite, next to
Python's own resolver (importlib.util.resolve_name)."""
import ast
import importlib.util
import json
import os
import sys
import tempfile

from line_profiler.autoprofile.run_module import get_module_from_importfrom, AstTreeModuleProfiler


def unit(case):
    node = ast.ImportFrom(module=case['target'], names=[ast.alias(name='n', asname=None)], level=case['level'])
    try:
        real = get_module_from_importfrom(node, case['modname'])
    except Exception as e:
        real = 'EXC ' + type(e).__name__
    package = case['modname'].rpartition('.')[0]
    try:
        py = importlib.util.resolve_name('.' * case['level'] + (case['target'] or ''), package)
    except Exception as e:
        py = 'EXC ' + type(e).__name__
    return {'real': real, 'python': py}


def tree_case(case, root):
    """case: {'pkg': ['a','b','c'], 'kind': 'plain'|'init'|'main', 'imports': [[level, target|None, [[name, asname], ...]], ...]}"""
    d = root
    if case.get('link'):
        # the top-level package is reached through a symbolic link whose target has another name (versioned / vendored installs):
        # Python names the module after the path it found it under
        real = os.path.join(root, 'store%d' % case['link'], 'impl_v2')
        os.makedirs(real, exist_ok=True)
        d = os.path.join(root, 'site%d' % case['link'])
        os.makedirs(d, exist_ok=True)
        if not os.path.lexists(os.path.join(d, case['pkg'][0])):
            os.symlink(real, os.path.join(d, case['pkg'][0]))
    for comp in case['pkg']:
        d = os.path.join(d, comp)
        os.makedirs(d, exist_ok=True)
        init = os.path.join(d, '__init__.py')
        if not os.path.exists(init):
            open(init, 'w').close()
    fname = {'plain': case.get('modfile', 'modx') + '.py', 'init': '__init__.py', 'main': '__main__.py'}[case['kind']]
    path = os.path.join(d, fname)
    # every relative import sits in another kind of statement block (module level, function, class, if / else, try body,
    # except handler, finally, with, loop, loop-else, match case): the rewrite has to reach all of them
    CONTAINERS = [
        '{imp}',
        'def fn{i}():\n    {imp}',
        'class K{i}:\n    {imp}',
        'if True:\n    {imp}',
        'if False:\n    pass\nelse:\n    {imp}',
        'try:\n    {imp}\nexcept ImportError:\n    pass',
        'try:\n    raise ImportError\nexcept ImportError:\n    {imp}',
        'try:\n    pass\nfinally:\n    {imp}',
        'with open(__file__):\n    {imp}',
        'for _x in (1,):\n    {imp}',
        'while False:\n    pass\nelse:\n    {imp}',
        'match 1:\n    case 1:\n        {imp}',
        'async def afn{i}():\n    {imp}',
    ]
    lines = []
    for i, (level, target, names) in enumerate(case['imports']):
        imp = 'from %s%s import %s' % ('.' * level, target or '', ', '.join(n if not a else '%s as %s' % (n, a) for n, a in names))
        lines.append(CONTAINERS[(i + case.get('shift', 0)) % len(CONTAINERS)].format(imp=imp, i=i))
    lines.append('from os import path as p0')
    text = '\n'.join(lines) + '\n'
    with open(path, 'w') as fh:
        fh.write(text)
    # a search-path entry that points *inside* the package (PYTHONPATH=<root>/pkg, a setup script living in a sub-package, ...):
    # `-m pkg.sub.mod` still names the module from the top-level package
    inner = None
    if case.get('inner_path'):
        inner = os.path.join(root, *case['pkg'][:case['inner_path']])
        sys.path.insert(0, inner)
    try:
        tree = AstTreeModuleProfiler._get_script_ast_tree(path)
    finally:
        if inner:
            sys.path.remove(inner)
    got = [[n.module, n.level, [[a.name, a.asname] for a in n.names], n.lineno] for n in ast.walk(tree) if isinstance(n, ast.ImportFrom)]
    got.sort(key=lambda g: g[3])
    # what Python does from that file's position: its own resolver on every `from … import` of the original text
    dotted = '.'.join(case['pkg'])
    package = dotted                       # __package__ of pkg/__init__.py, pkg/__main__.py and pkg/modx.py alike
    exp = []
    for n in sorted((n for n in ast.walk(ast.parse(text)) if isinstance(n, ast.ImportFrom)), key=lambda n: n.lineno):
        mod = importlib.util.resolve_name('.' * n.level + (n.module or ''), package) if n.level else n.module
        exp.append([mod, 0, [[a.name, a.asname] for a in n.names], n.lineno])
    if case['kind'] == 'init':
        os.remove(path)
        open(path, 'w').close()
    else:
        os.remove(path)
    return {'got': got, 'expected': exp}


def main():
    payload = json.load(sys.stdin)
    out = []
    with tempfile.TemporaryDirectory(prefix='lpverif-c17-') as root:
        # earlier in the same process the directories that will become packages were plain folders holding a script that was named once
        # (a project that grows an __init__.py between two profiling runs of one session): nothing remembered from then may come back
        from line_profiler.autoprofile.util_static import modpath_to_modname
        loose = []
        d = root
        for comp in ('pkg', 'sub', 'deep'):
            d = os.path.join(d, comp)
            os.makedirs(d, exist_ok=True)
            f = os.path.join(d, 'loose_script.py')
            open(f, 'w').close()
            loose.append(f)
        for f in reversed(loose):
            modpath_to_modname(f)
        for case in payload['cases']:
            try:
                out.append(unit(case) if 'modname' in case else tree_case(case, root))
            except Exception:
                import traceback
                out.append({'error': traceback.format_exc()})
    sys.stdout.write('\n{"lpverif": %s}\n' % json.dumps({'results': out}))


if __name__ == '__main__':
    main()
