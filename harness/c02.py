"""C02 — line time accounting is exact, inclusive of callees, and conserved.
Proof: Props/C02.lean (time_exact, time_inclusive under NoReentry, time_nonneg, time_conserved, time_no_disabled;
reentrancy_witness = F-C02a).
Tie: K02 — virtual-clock build (tools/vclock_timers.c wraps the tree's timers.c), one tick per clock read (delta=1) so that
the two reads of a LINE event differ: every total_time cell of the model (fed the recorded trace of run A) must equal the
real profiler's (run B).
Oracle: independent per-invocation accounting in run A (each LINE event to the same frame's next event, clock advanced
only by the program's tick(n) calls) against a second real run with a free clock (delta=0); non-negativity; per function
sum of line times <= ticks elapsed while the profiler was enabled.  Real-clock calibration (unit) is a test, labelled so."""
import json
import os

import corelib
import progs
from common import ROOT, run_worker

LEVEL = 'proof'


def make_case(rng):
    prog = progs.gen_program(rng, twins=False, opts={'ticks': True, 'windows': rng.chance(1, 2), 'closures': True, 'renable': rng.fork('renable').chance(1, 2)})
    names = [n for (_f, n, _k) in prog['funcs']]
    k = rng.below(len(names)) + 1
    reg = sorted(set(rng.sample(names, k)), key=names.index)
    mode = rng.choice(['window', 'window', 'decorate', 'with'])
    args = [rng.below(7) for _ in range(rng.below(2) + 1)]
    steps = []
    if mode == 'decorate':
        steps += [['decorate', n] for n in reg]
        for a in args:
            steps += [['call', a]]
            if rng.chance(1, 3):
                steps.append(['snapshot'])
    elif mode == 'with':
        steps += [['add', n] for n in reg]
        steps += [['with_call', a] for a in args]
    else:
        steps += [['add', n] for n in reg]
        steps.append(['enbc'])
        steps += [['call', a] for a in args]
        steps.append(['disbc'])
        if rng.chance(1, 3):     # a second window after a pause: nothing of the pause may be charged
            steps += [['call', 1], ['enbc'], ['call', args[0]], ['disbc']]
    steps.append(['snapshot'])
    return {'prog': prog, 'steps': steps, 'mode': mode, 'registered': reg, 'time': True}


def oracle(r0, recursive=None):
    """r0: result of the delta=0 run. Returns (violations, known) lists of detail dicts."""
    viol, known = [], []
    labels = r0['labels']
    real = corelib.parse_stats(r0['real_snaps'][-1])
    incl = {}
    for key, v in r0['incl'].items():
        lab, line = map(int, key.split(':'))
        incl.setdefault(lab, {})[line] = v
    reentrant = set(r0['reentrant'])
    for lab in sorted(set(real) | set(incl)):
        tot = 0
        for line in sorted(set(real.get(lab, {})) | set(incl.get(lab, {}))):
            rt = real.get(lab, {}).get(line, (0, 0))[1]
            ot = incl.get(lab, {}).get(line, 0)
            tot += rt
            if rt < 0:
                viol.append({'kind': 'negative-time', 'label': labels.get(str(lab)), 'line': line, 'reported': rt})
            if rt != ot:
                d = {'kind': 'time-differs', 'label': labels.get(str(lab)), 'line': line, 'reported_ticks': rt,
                     'per_invocation_ticks': ot, 'reentrant': lab in reentrant}
                # F-C02a: the same bytecode re-entered in one thread (recursion, or closures of one factory of which the inner one is not
                # registered and therefore not padded) shares one pending slot
                if lab in reentrant and rt < ot:
                    known.append(d)
                else:
                    viol.append(d)
        # (closures of one factory are reported under one label: when one instance calls another, the caller's inclusive line time and the
        # callee's own lines are both in that label's sum — two functions, not one, so the per-function bound does not apply to the label)
        if tot > r0['enabled_span'] and (labels.get(str(lab)) or [None, None, None])[2] != 'h':
            viol.append({'kind': 'not-conserved', 'label': labels.get(str(lab)), 'sum_of_line_times': tot,
                         'ticks_while_enabled': r0['enabled_span']})
    return viol, known


def labels_of(r):
    return r.get('labels', {})


def thread_cases(ctx, build):
    """two threads on one profiler: the main thread's outermost scope ends (once or several times) while the other thread is in the middle
    of a profiled line.  The real run and the model (`Model.Prof` has one pending table and one count per thread) on the same history,
    plus the plain oracle: the line in flight keeps its one execution and lasts exactly the ticks that passed."""
    from common import run_worker, lean_driver
    rng = ctx.rng.fork('threads')
    cases = [{'ticks_main': rng.choice([0, 7, 1000, 2 ** 33]), 'ticks_b': rng.choice([1, 500, 2 ** 32 + 5]), 'how': how, 'quick_calls': k}
             for how in ('with', 'decorator', 'bycount') for k in (1, 3)]
    res = run_worker(build, 'c02_thread_worker.py', {'cases': cases}, 600)['results']
    for c, r in zip(cases, res):
        if 'error' in r:
            ctx.broken.append(('harness', r['error'][-1500:]))
            continue
        ls, lq = r['lines']['slow'], r['lines']['quick']
        body_s, body_q = [l for l in ls if l > ls[0]], [l for l in lq if l > lq[0]]
        total = c['ticks_main'] + c['ticks_b']
        want = {'slow': [[body_s[0], 1, 0], [body_s[1], 1, total], [body_s[2], 1, 0]], 'quick': [[l, c['quick_calls'], 0] for l in body_q]}
        if r['stats'] != want or r['alive']:
            ctx.fail('a line in flight in one thread loses its execution / its time when another thread\'s profiling scope ends',
                     {'finding_class': None, 'threads_case': c, 'program': 'harness/c02_thread_worker.py SRC', 'reported': r['stats'], 'expected_exactly': want})
        if getattr(ctx, 'driver_ok', True) and not r['same_bytecode']:
            ev = lambda t, fr, base, line, kind: 'ev %d %d %d 0 %d %s' % (t, fr, base, line, kind)
            ops = ['reset', 'delta 0', 'decl 0 0 0 %s' % ','.join(map(str, ls)), 'decl 1 1 1 %s' % ','.join(map(str, lq)), 'add 0', 'add 1',
                   'enbc 1', ev(1, 1, 0, body_s[0], 'L'), ev(1, 1, 0, body_s[1], 'L')]
            for k in range(c['quick_calls']):
                ops += ['enbc 0'] + [ev(0, 2 + k, 1, l, 'L') for l in body_q] + [ev(0, 2 + k, 1, body_q[-1], 'R'), 'disbc 0']
            ops += ['tick %d' % c['ticks_main'], 'tick %d' % c['ticks_b'], ev(1, 1, 0, body_s[2], 'L'), ev(1, 1, 0, body_s[2], 'R'), 'disbc 1', 'stats', 'clock']
            mo = lean_driver('prof', ops)
            mst = [corelib.parse_stats(x) for x in mo if x.startswith('stats')]
            real = {0: {l: (h, t) for l, h, t in r['stats'].get('slow', [])}, 1: {l: (h, t) for l, h, t in r['stats'].get('quick', [])}}
            real = {k: v for k, v in real.items() if v}
            if not mst or mst[-1] != real or any(x in ('bad-op', 'undeclared', 'bad-model') for x in mo):
                ctx.broken.append(('K02 correspondence (two threads)', 'case %s: model %s real %s' % (c, mst[-1:] or mo[-3:], real)))
    ctx.coverage['two_thread_histories'] = len(cases)


def run(ctx):
    ctx.prove('LPVerif.Props.C02', 'LPVerif/Props/C02.lean')
    build = ctx.build()
    thread_cases(ctx, build)
    n = 200 if ctx.quick else 3000
    if ctx.broken:
        n *= 4
    cases = []
    corpus_dir = os.path.join(ROOT, 'corpus', 'C02')
    if os.path.isdir(corpus_dir):
        for f in sorted(os.listdir(corpus_dir)):
            cases.append(json.load(open(os.path.join(corpus_dir, f))))
    ncorpus = len(cases)
    for i in range(n):
        cases.append(make_case(ctx.rng.fork('case%d' % i)))
    ctx.log('running %d cases (%d from corpus) twice on the virtual-clock build (delta=1 for K02, delta=0 for the oracle)' % (len(cases), ncorpus))
    res1 = corelib.run_real(build, cases, delta=1)
    res0 = corelib.run_real(build, cases, delta=0)
    if getattr(ctx, 'driver_ok', True):
        corelib.run_model(res1)
    kdiff = 0
    feats, modes = {}, {}
    nontrivial = set()
    ticks_total = 0
    n_known = 0
    n_reentrant = 0
    for case, r1, r0 in zip(cases, res1, res0):
        if 'error' in r1 or 'error' in r0:
            ctx.broken.append(('harness', (r1.get('error') or r0.get('error'))[-1500:]))
            continue
        for f in case['prog']['features']:
            feats[f] = feats.get(f, 0) + 1
        modes[case.get('mode', '?')] = modes.get(case.get('mode', '?'), 0) + 1
        if r1['collision'] or r0['collision']:
            ctx.assumptions.append('NoCollision violated on a concrete run (case skipped)')
            continue
        viol, known = oracle(r0)
        if r0['reentrant']:
            n_reentrant += 1
        aliased = {tuple(labels_of(r0).get(k.split(':')[0], [])) for k, v in r0.get('alias', {}).items() if v}
        for d in viol[:3]:
            # F-C04a (unregistered byte-identical code on a registered line feeds that function) also adds that code's time
            cls = 'F-C04a' if d.get('kind') in ('time-differs', 'not-conserved') and tuple(d.get('label') or []) in aliased \
                and d.get('reported_ticks', 1) >= d.get('per_invocation_ticks', 0) else None
            ctx.fail('reported line time differs from the per-invocation accounting / is negative / is not conserved',
                     {'finding_class': cls, 'case': case, 'difference': d})
        if known:
            n_known += 1
            ctx.fail('re-entrant invocation: caller line time excludes the re-entrant callee',
                     {'finding_class': 'F-C02a', 'case': case, 'difference': known[0]})
        if getattr(ctx, 'driver_ok', True):
            diffs = corelib.compare_case(r1)
            if diffs:
                kdiff += 1
                if not viol:
                    ctx.broken.append(('K02 correspondence', '; '.join(diffs)[:800] + ' case=' + corelib.case_digest(case)))
                    ctx.write_replay({'property': 'C02', 'kind': 'correspondence-disagreement', 'case': case, 'diffs': diffs})
        tt = sum(r0['incl'].values())
        ticks_total += tt
        if tt > 0 and len([v for v in r0['incl'].values() if v > 0]) >= 2:
            nontrivial.add(corelib.case_digest(case))
    # real-clock calibration: a *test* of the unit (seconds per tick), not part of the proof
    cal = run_worker(build, 'c02_worker.py', {})
    ctx.coverage['real_clock_calibration_test'] = cal
    if not cal['ok']:
        ctx.fail('time * unit is not seconds on the real clock', {'finding_class': None, 'calibration': cal})
    ctx.coverage.update({
        'evaluations': len(cases) * 2, 'distinct_nontrivial': len(nontrivial),
        'rule': 'G_prog programs with tick(n) statements (in a line, inside a multi-line expression, in callees, in driven generators, '
                'before raises, between windows) and optional `with prof:` windows inside function bodies, x registered subset x mode, '
                'run with delta=1 (K02) and delta=0 (oracle); non-trivial = at least two distinct lines carry ticks',
        'traces_validated_against_impl': len(cases) - kdiff, 'correspondence_disagreements': kdiff,
        'oracle_ticks_total': ticks_total, 'cases_with_reentrancy': n_reentrant, 'cases_showing_F-C02a': n_known,
        'feature_distribution': feats, 'mode_distribution': modes, 'corpus_cases': ncorpus})
    if cases:
        s = cases[-1]
        ctx.coverage['samples'].append({'registered': s['registered'], 'mode': s['mode'], 'steps': s['steps'],
                                        'program_file': s['prog']['files'][1][1][:1500],
                                        'real_final_snapshot_delta0': res0[-1].get('real_snaps', ['?'])[-1][:400],
                                        'per_invocation_oracle': res0[-1].get('incl')})
    ctx.assumptions += ['the clock is the virtual clock of tools/vclock_timers.c wrapped around the tree\'s own timers.c in the scratch build; '
                        'CLOCK_MONOTONIC and the unit are exercised only by the calibration test',
                        'NoCollision as in C01; recorded trace of run A predicts run B (checked by K02 itself)',
                        'F-C02a (known): with re-entrancy the stored time is per (thread, bytecode) slot, not per invocation']
    return ctx.finish('Lean: time_exact / time_inclusive (NoReentry) / time_nonneg / time_conserved / time_no_disabled for every event list; '
                      'K02 compares every total_time cell of model and real profiler under a virtual clock; oracle = per-invocation accounting')


def replay(ctx, path):
    data = json.load(open(path))
    case = data.get('witness', data).get('case') or data.get('case')
    build = ctx.build()
    tc = data.get('witness', data).get('threads_case')
    if tc:
        from common import run_worker
        print(json.dumps({'threads_case': tc, 'real': run_worker(build, 'c02_thread_worker.py', {'cases': [tc]}, 600)['results'][0]}, indent=1))
        return 0
    r1 = corelib.run_real(build, [case], delta=1)
    r0 = corelib.run_real(build, [case], delta=0)
    corelib.run_model(r1)
    print(json.dumps({'K02_diffs': corelib.compare_case(r1[0]), 'oracle': oracle(r0[0])}, indent=1))
    return 0
