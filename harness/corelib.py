"""Shared by the core checks: run cases on the real code (two-run tie) and on the Lean model, compare."""
import concurrent.futures as cf
import hashlib
import json
import os

from common import run_worker, lean_driver

NWORKERS = int(os.environ.get('LPVERIF_JOBS', '12'))


def chunks(lst, n):
    k = max(1, (len(lst) + n - 1) // n)
    return [lst[i:i + k] for i in range(0, len(lst), k)]


def run_real(build, cases, delta=1, worker='core_worker.py'):
    """-> list of per-case result dicts (see core_worker.run_case)"""
    parts = chunks(cases, NWORKERS)
    out = []
    with cf.ThreadPoolExecutor(max_workers=NWORKERS) as ex:
        futs = [ex.submit(run_worker, build, worker, {'cases': p, 'delta': delta}, 7200) for p in parts]
        for f in futs:
            out.extend(f.result()['results'])
    return out


def run_model(results):
    """Feeds every case's op stream to the Lean driver (model `prof`); attaches 'model_out' (list of lines)."""
    idx = [i for i, r in enumerate(results) if 'error' not in r]
    parts = chunks(idx, NWORKERS)

    def one(part):
        lines = []
        for i in part:
            lines.append('reset')
            lines.extend(results[i]['ops'])
            lines.append('acct')      # delivered / dropped / pending per (label, line): the quantities of C01.reported_hits_exact
            lines.append('clock')     # sentinel: one 'clock N' line closes each case
        out = lean_driver('prof', lines)
        cur, k = [], 0
        for ln in out:
            cur.append(ln)
            if ln.startswith('clock '):
                results[part[k]]['model_out'] = cur
                cur = []
                k += 1
        if k != len(part):
            raise RuntimeError('driver output truncated: %d of %d cases' % (k, len(part)))

    with cf.ThreadPoolExecutor(max_workers=NWORKERS) as ex:
        list(ex.map(one, parts))
    return results


def parse_stats(line):
    """'stats lab:l,h,t;l,h,t|lab:...' -> {lab: {line: (hits, time)}} without empty labels"""
    assert line.startswith('stats')
    body = line[5:].strip()
    out = {}
    if not body:
        return out
    for part in body.split('|'):
        lab, _, es = part.partition(':')
        d = {}
        for e in es.split(';'):
            if e:
                l, h, t = e.split(',')
                d[int(l)] = (int(h), int(t))
        if d:
            out[int(lab)] = d
    return out


def compare_case(r):
    """K: model vs real for one case. Returns list of disagreement strings."""
    diffs = []
    if r['resA'] != r['resB']:
        diffs.append('two-run tie: program results differ between recorder run and profiler run')
    mo = r.get('model_out', [])
    if any(x in ('bad-op', 'undeclared', 'bad-model') for x in mo):
        diffs.append('driver rejected an op')
    mblk = [x for x in mo if x.startswith('blk ')]
    if mblk != r['real_blks']:
        diffs.append('padding: model %s real %s' % (mblk, r['real_blks']))
    mst = [parse_stats(x) for x in mo if x.startswith('stats')]
    rst = [parse_stats(x) for x in r['real_snaps']]
    if len(mst) != len(rst):
        diffs.append('snapshot count: model %d real %d' % (len(mst), len(rst)))
    for i, (a, b) in enumerate(zip(mst, rst)):
        if a != b:
            keys = sorted(set(a) | set(b))
            det = []
            for k in keys:
                if a.get(k) != b.get(k):
                    ls = sorted(set(a.get(k, {})) | set(b.get(k, {})))
                    det.append('label %d: ' % k + ', '.join(
                        'line %d model %s real %s' % (l, a.get(k, {}).get(l), b.get(k, {}).get(l))
                        for l in ls if a.get(k, {}).get(l) != b.get(k, {}).get(l)))
            diffs.append('snapshot %d: %s' % (i, ' ; '.join(det)[:600]))
    return diffs


def parse_acct(line):
    """'acct lab:l,delivered,dropped,pending;...|...' -> {(lab, line): (delivered, dropped, pending)}"""
    out = {}
    body = line[5:].strip()
    for part in (body.split('|') if body else []):
        lab, _, es = part.partition(':')
        for e in es.split(';'):
            if e:
                l, a, b, c = map(int, e.split(','))
                out[(int(lab), l)] = (a, b, c)
    return out


def case_digest(case):
    return hashlib.sha256(json.dumps(case, sort_keys=True).encode()).hexdigest()[:12]
