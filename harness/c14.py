"""C14 — @profile is inert unless profiling was requested.
Proof: Props/C14.lean (requested_iff, requested_active, enable_then_active, disable_then_inert, single_profiler,
decorate_result, kernprof_handover, show_writes_exactly) over Model.Explicit; kernprof_hands_over_before_program /
kernprof_builtin_before_program over the control skeleton of kernprof._main dumped from the tree (every option set, every crash point); translator: the five GlobalProfiler methods
and the tables (_FALSY_STRINGS, environ/cli flags, the outputs of show()) are re-emitted from the tree on every run and
Bridge/Explicit.lean proves emitted = model.
Tie: K14 — real GlobalProfiler objects driven in-process through histories vs the model driver; show() in a scratch directory
for all 16 write_config subsets; real interpreter exits in subprocesses.
Oracle: the property stated directly in Python (requested <=> env spelling not in the five falsy strings or a flag in argv)."""
import concurrent.futures as cf
import itertools
import json
import os
import re
import shutil
import subprocess
import tempfile

from common import run_worker, lean_driver, real_env, PY, SCRATCH_ROOT

LEVEL = 'proof'

FALSY = {'', '0', 'off', 'false', 'no'}           # the property's own list
ENVS = [None, '', '0', 'off', 'OFF', 'Off', 'oFf', 'false', 'FALSE', 'False', 'no', 'NO', 'No', 'nO', '1', 'true', 'yes', 'on', 'ON',
        '00', ' ', 'off ', ' no', 'none', 'null', 'f', 'n', 'disable', 'of', 'offf', 'fals', 'O', '-1', '0.0', 'nope', 'o ff',
        'ＯＦＦ', 'ｏｆｆ', 'K', 'nö', 'NȮ', 'faſe', 'İ']
ARGVS = [['prog'], ['prog', '--line-profile'], ['prog', '--line_profile'], ['prog', 'x', '--line-profile', 'y'], ['prog', '--line-profil'],
         ['prog', '--line-profile=1'], ['prog', '-line-profile'], ['--line_profile'], [], ['prog', '--LINE-PROFILE'], ['prog', '--line_profile', '--line-profile']]
OPS = [['decorate'], ['enable'], ['enable', 'pfx2'], ['disable']]
KOPS = [['kernprof', 7], ['kernprof', None], ['kernprof', 8]]


def requested(env, argv):
    return (env is not None and env.lower() not in FALSY) or '--line-profile' in argv or '--line_profile' in argv


def enc(v):
    if v is None:
        return '@unset'
    if v == '':
        return '@empty'
    return v.replace(' ', '%20')


def model_lines(case):
    out = ['new %s %s' % (enc(case['env']), ' '.join(case['argv']))]
    for op in case['ops']:
        if op[0] == 'kernprof':
            out.append('kernprof %s' % ('none' if op[1] is None else op[1]))
        else:
            out.append(' '.join(op))
    return out


def oracle_case(case, real):
    """direct statement of the property on the real outputs; returns a description of the failure or None"""
    req = requested(case['env'], case['argv'])
    decided = None          # explicit decision so far
    kern = False
    created_max = 0
    for op, line in zip(case['ops'], real):
        st = line.split(' | ')[-1].split(' ')
        created, atexit_n = int(st[2]), int(st[3])
        if op[0] == 'kernprof':
            kern = True
            decided = True
            continue
        if op[0] == 'enable':
            decided = True
        elif op[0] == 'disable':
            decided = False
        elif op[0] == 'decorate':
            res = line.split(' | ')[0]
            if decided is None:
                decided = req
                if not req and (res != 'same' or created != 0 or atexit_n != 0):
                    return 'not requested, but the first decoration gave %r (created=%d atexit=%d)' % (res, created, atexit_n)
                if req and not res.startswith('wrapped'):
                    return 'requested, but the first decoration gave %r' % res
            if not kern:
                if decided and res != 'wrapped own 0':
                    return 'active, but decoration gave %r' % res
                if not decided and res != 'same':
                    return 'inert (disabled / not requested), but decoration gave %r' % res
        if not kern:
            if created > 1:
                return 'more than one profiler created (%d)' % created
            if atexit_n != created:
                return 'atexit registrations (%d) != profilers created (%d)' % (atexit_n, created)
    return None


SCRIPT = '''\
import sys
from line_profiler import profile
%s
@profile
def f(n):
    return sum(range(n))
f(10)
%s
'''


def exit_cases(quick, rng):
    """(name, env, argv, pre, post, expect) for real interpreter exits"""
    allcfg = [dict(zip(['lprof', 'text', 'timestamped_text', 'stdout'], bits)) for bits in itertools.product([True, False], repeat=4)]
    out = []
    for env in [None, '0', 'OFF', 'No', 'false', '']:
        out.append(('inert-%s' % env, env, [], '', '', None))
    out.append(('env-1', '1', [], '', '', {}))
    out.append(('env-yes-upper', 'YES', [], '', '', {}))
    out.append(('flag-dash', None, ['--line-profile'], '', '', {}))
    out.append(('flag-underscore', None, ['a', '--line_profile'], '', '', {}))
    out.append(('in-code-enable-prefix', None, [], 'profile.enable(output_prefix="zzz")', '', {'prefix': 'zzz'}))
    out.append(('exit-by-exception', '1', [], '', 'raise RuntimeError("boom")', {}))
    out.append(('exit-by-sysexit', '1', [], '', 'sys.exit(3)', {}))
    cfgs = allcfg if not quick else rng.sample(allcfg, 5)
    for cfg in cfgs:
        pre = 'profile.write_config.update(%r)\nprofile.show_config["rich"] = 0' % cfg
        out.append(('cfg-%s' % ''.join('1' if cfg[k] else '0' for k in cfg), 'on', [], pre, '', {'cfg': cfg}))
    return out


def run_exit(build, name, env, argv, pre, post):
    d = tempfile.mkdtemp(prefix='c14-', dir=SCRATCH_ROOT)
    try:
        with open(os.path.join(d, 'prog.py'), 'w') as fh:
            fh.write(SCRIPT % (pre, post))
        e = real_env(build)
        if env is not None:
            e['LINE_PROFILE'] = env
        p = subprocess.run([PY, 'prog.py'] + argv, cwd=d, env=e, capture_output=True, text=True, timeout=120)
        files = sorted(re.sub(r'_\d{4}-\d\d-\d\dT\d{6}\.txt$', '_<TS>.txt', f) for f in os.listdir(d) if f != 'prog.py')
        loadable = None
        if any(f.endswith('.lprof') for f in files):
            q = subprocess.run([PY, '-c', 'import sys,line_profiler;s=line_profiler.load_stats(sys.argv[1]);'
                                'print(sum(h for v in s.timings.values() for (_l,h,_t) in v))',
                                [f for f in os.listdir(d) if f.endswith('.lprof')][0]], cwd=d, env=e, capture_output=True, text=True)
            loadable = q.stdout.strip()
        return {'files': files, 'reports': p.stdout.count('Timer unit:'), 'stdout_len': len(p.stdout), 'rc': p.returncode,
                'stderr_tail': p.stderr[-300:], 'lprof_total_hits': loadable}
    finally:
        shutil.rmtree(d, ignore_errors=True)


KSCRIPT = '''\
import sys
from line_profiler import profile
@profile
def f(n):
    return sum(range(n))
class K:
    @profile
    def g(self, n):
        return f(n) + 1
K().g(10)
f(3)
print('LPV14', type(profile._profile).__name__, profile.enabled, hasattr(f, '__wrapped__'), hasattr(K.g, '__wrapped__'), file=sys.stderr)
'''

KOPTS = [[], ['-l'], ['-b'], ['-l', '-b'], ['-l', '-p', 'prog.py'], ['-o', 'res.out'], ['-l', '-o', 'res.out'], ['-i', '1'], ['-l', '-i', '1'], ['-b', '-i', '1']]


def kern_cases(quick, rng):
    """(opts, LINE_PROFILE, program argv, as_module): the explicit decorator in a program run by the real kernprof, in every run mode"""
    out = []
    for opts in KOPTS:
        for env in (None, '1', '0'):
            for argv in ([], ['--line-profile']):
                for mod in (False, True):
                    out.append((opts, env, argv, mod))
    return out if not quick else rng.sample(out, 24) + [([], '1', [], False), ([], None, ['--line-profile'], False)]


def run_kern(build, opts, env, argv, mod):
    d = tempfile.mkdtemp(prefix='c14k-', dir=SCRATCH_ROOT)
    try:
        with open(os.path.join(d, 'prog.py'), 'w') as fh:
            fh.write(KSCRIPT)
        e = real_env(build)
        e.pop('LINE_PROFILE', None)
        if env is not None:
            e['LINE_PROFILE'] = env
        opts = ['prog' if (mod and o == 'prog.py') else o for o in opts]
        cmd = [PY, '-m', 'kernprof'] + opts + (['-m', 'prog'] if mod else ['prog.py']) + argv
        p = subprocess.run(cmd, cwd=d, env=e, capture_output=True, text=True, timeout=180)
        files = sorted(f for f in os.listdir(d) if f != 'prog.py' and f != '__pycache__')
        outfile = 'res.out' if '-o' in opts else ('prog' if mod else 'prog.py') + ('.lprof' if '-l' in opts else '.prof')
        seen = None
        if outfile in files:
            if '-l' in opts:
                code = ('import sys,line_profiler;s=line_profiler.load_stats(sys.argv[1]);'
                        'print(sorted((k[2], sum(h for (_l,h,_t) in v)) for k, v in s.timings.items()))')
            else:
                code = ('import sys,pstats;s=pstats.Stats(sys.argv[1]);'
                        'print(sorted((k[2], v[0]) for k, v in s.stats.items() if k[0].endswith("prog.py")))')
            q = subprocess.run([PY, '-c', code, outfile], cwd=d, env=e, capture_output=True, text=True)
            seen = q.stdout.strip() or q.stderr[-200:]
        marker = [l for l in p.stderr.splitlines() if l.startswith('LPV14 ')]
        return {'files': files, 'outfile': outfile, 'rc': p.returncode, 'seen': seen, 'reports': p.stdout.count('Timer unit:'),
                'decorator': marker[0][6:] if marker else None, 'stderr_tail': p.stderr[-300:]}
    finally:
        shutil.rmtree(d, ignore_errors=True)


AFTER_SCRIPT = '''\
import atexit, sys
import kernprof
from line_profiler import profile
%(pre)s
with open("inner.py", "w") as fh:
    fh.write("x = 1\\n")
kernprof.main(%(args)r)
def f():
    return 1
g = profile(f)
print("LPV14R", g is f, profile.enabled, file=sys.stderr)
profile.write_config.update(lprof=False, text=False, timestamped_text=False, stdout=False)
'''
PRE_STATES = {'untouched': ('', 'True False'), 'enabled': ('profile.enable()', 'False True'), 'enabled-then-disabled': ('profile.enable()\nprofile.disable()', 'True False'),
              'disabled': ('profile.disable()', 'True False')}


def run_after(build, pre, args):
    """an in-process kernprof run between the application's own use of the decorator and later decorations: the decorator is back to what it was"""
    d = tempfile.mkdtemp(prefix='c14a-', dir=SCRATCH_ROOT)
    try:
        with open(os.path.join(d, 'app.py'), 'w') as fh:
            fh.write(AFTER_SCRIPT % {'pre': PRE_STATES[pre][0], 'args': args})
        e = real_env(build)
        e.pop('LINE_PROFILE', None)
        p = subprocess.run([PY, 'app.py'], cwd=d, env=e, capture_output=True, text=True, timeout=180)
        marker = [l for l in p.stderr.splitlines() if l.startswith('LPV14R ')]
        return {'rc': p.returncode, 'after': marker[0][7:] if marker else None, 'stderr_tail': p.stderr[-300:]}
    finally:
        shutil.rmtree(d, ignore_errors=True)


def kern_check(opts, r):
    """the property under kernprof: the decorator hands its functions to kernprof's profiler (so they are in kernprof's output),
    creates no profiler of its own and writes no output of its own"""
    if r['rc'] != 0:
        return 'kernprof exited with %s' % r['rc']
    if r['files'] != [r['outfile']]:
        return "files written: %s (expected only kernprof's %s)" % (r['files'], r['outfile'])
    if r['reports']:
        return "a line-profile report was printed although -v was not given (the decorator's own exit report)"
    kind = 'LineProfiler' if '-l' in opts else 'ContextualProfile'
    if r['decorator'] != '%s True True True' % kind:
        return "decorator state inside the program: %r (expected kernprof's %s, enabled, functions wrapped)" % (r['decorator'], kind)
    if "('f', 2)" not in (r['seen'] or '') or "('g', 1)" not in (r['seen'] or ''):
        return "kernprof's output does not hold the decorated functions: %s" % r['seen']
    return None


def expected_files(prefix, cfg):
    out = []
    if cfg.get('text', True):
        out.append(prefix + '.txt')
    if cfg.get('timestamped_text', True):
        out.append(prefix + '_<TS>.txt')
    if cfg.get('lprof', True):
        out.append(prefix + '.lprof')
    return sorted(out)


def run(ctx):
    ctx.prove('LPVerif.Props.C14', 'LPVerif/Props/C14.lean', extra_modules=['LPVerif.Bridge.Explicit'], drivers=('Explicit',))
    build = ctx.build()
    maxlen = 3 if ctx.quick else 4
    if ctx.broken:
        maxlen = 4
    cases = []
    # every env spelling x argv shape with a single decoration (the requested_iff table) ...
    for env in ENVS:
        for argv in ARGVS:
            cases.append({'env': env, 'argv': argv, 'ops': [['decorate']]})
    # ... every history up to maxlen over {decorate, enable, enable(prefix), disable} for representative environments ...
    for env, argv in [(None, ['prog']), ('0', ['prog']), ('OFF', ['prog', '--line-profile']), ('1', ['prog']), ('No', ['prog', '--line_profile'])]:
        for L in range(1, maxlen + 1):
            for ops in itertools.product(OPS, repeat=L):
                cases.append({'env': env, 'argv': argv, 'ops': [list(o) for o in ops] + [['decorate']]})
    # ... and random longer ones, kernprof's hook included
    for i in range(200 if ctx.quick else 15000):
        r = ctx.rng.fork('h%d' % i)
        ops = [list(r.choice(OPS + OPS + KOPS)) for _ in range(r.below(8) + 2)]
        cases.append({'env': r.choice(ENVS), 'argv': r.choice(ARGVS), 'ops': ops})
    allcfg = [dict(zip(['lprof', 'text', 'timestamped_text', 'stdout'], bits)) for bits in itertools.product([True, False], repeat=4)]
    shows = [{'cfg': c, 'prefix': p} for c in allcfg for p in (None, 'out/x.y')]
    for sh in shows:
        if sh['prefix'] and '/' in sh['prefix']:
            sh['prefix'] = 'x.y'
    ctx.log('%d histories, %d show() configurations on the real GlobalProfiler' % (len(cases), len(shows)))
    nw = 8
    parts = [cases[i::nw] for i in range(nw)]
    with cf.ThreadPoolExecutor(max_workers=nw) as ex:
        futs = [ex.submit(run_worker, build, 'c14_worker.py', {'cases': p, 'shows': shows if i == 0 else [], 'probe': i == 0})
                for i, p in enumerate(parts)]
        outs = [f.result() for f in futs]
    real = [None] * len(cases)
    for i, o in enumerate(outs):
        for j, r in enumerate(o['cases']):
            real[i + j * nw] = r
    probe_bad = outs[0]['lower_probe_bad']
    real_shows = outs[0]['shows']
    # model
    model = None
    if getattr(ctx, 'driver_ok', True):
        lines = []
        for c in cases:
            lines += model_lines(c)
        for sh in shows:
            c = sh['cfg']
            lines.append('show %d %d %d %d %s <TS>' % (c['lprof'], c['text'], c['timestamped_text'], c['stdout'], sh['prefix'] or 'profile_output'))
        mo = lean_driver('explicit', lines)
        model, k = [], 0
        for c in cases:
            model.append(mo[k:k + len(c['ops'])])
            k += len(c['ops'])
        model_shows = mo[k:]
    kdiff = 0
    nontrivial = set()
    for i, (c, r) in enumerate(zip(cases, real)):
        if 'error' in r:
            ctx.broken.append(('harness', r['error'][-1200:]))
            continue
        why = oracle_case(c, r['out'])
        if why:
            ctx.fail(why, {'finding_class': None, 'case': c, 'real': r['out']})
        if model is not None and model[i] != r['out']:
            kdiff += 1
            if not why:
                ctx.broken.append(('K14 correspondence', 'case %s model %s real %s' % (json.dumps(c), model[i], r['out'])))
        if requested(c['env'], c['argv']) or any(o[0] != 'decorate' for o in c['ops']):
            nontrivial.add(json.dumps(c, sort_keys=True))
    # show(): files and report
    for j, (sh, r) in enumerate(zip(shows, real_shows)):
        if 'error' in r:
            ctx.broken.append(('harness', r['error'][-1200:]))
            continue
        pfx = sh['prefix'] or 'profile_output'
        exp = expected_files(pfx, sh['cfg'])
        if r['files'] != exp or r['reports_on_stdout'] != (1 if sh['cfg']['stdout'] else 0) or r['wrote_lines'] != exp:
            ctx.fail('show() does not write exactly the switched-on outputs once under the prefix',
                     {'finding_class': None, 'show': sh, 'expected_files': exp, 'real': r})
        if model is not None:
            toks = [x for x in model_shows[j].split(' ')[1:] if '=' in x]
            mfiles = sorted(x.split('=', 1)[1] for x in toks if x.split('=', 1)[1])
            mstdout = any(x == 'stdout=' for x in toks)
            if mfiles != r['files'] or mstdout != (r['reports_on_stdout'] == 1):
                kdiff += 1
                ctx.broken.append(('K14 correspondence (show)', 'cfg %s model %s real %s' % (sh, model_shows[j], r)))
    if probe_bad:
        ctx.broken.append(('lower-case probe', 'non-ASCII code points lower-casing into the falsy alphabet: %s' % probe_bad[:10]))
    # real interpreter exits
    ecs = exit_cases(ctx.quick, ctx.rng.fork('exit'))
    with cf.ThreadPoolExecutor(max_workers=12) as ex:
        eres = list(ex.map(lambda c: run_exit(build, *c[:5]), ecs))
    for (name, env, argv, pre, post, expect), r in zip(ecs, eres):
        if expect is None:
            ok = r['files'] == [] and r['stdout_len'] == 0 and r['rc'] == 0
            exp = {'files': [], 'stdout': ''}
        else:
            cfg = expect.get('cfg', {})
            exp = {'files': expected_files(expect.get('prefix', 'profile_output'), cfg), 'reports': 1 if cfg.get('stdout', True) else 0}
            ok = r['files'] == exp['files'] and r['reports'] == exp['reports']
            if cfg.get('lprof', True):
                ok = ok and r['lprof_total_hits'] not in (None, '', '0')
        if not ok:
            ctx.fail('at interpreter exit the explicit profiler did not write exactly the expected outputs',
                     {'finding_class': None, 'exit_case': name, 'env': env, 'argv': argv, 'pre': pre, 'post': post, 'expected': exp, 'real': r})
    # the explicit decorator inside programs run by the real kernprof
    kcs = kern_cases(ctx.quick, ctx.rng.fork('kern'))
    with cf.ThreadPoolExecutor(max_workers=12) as ex:
        kres = list(ex.map(lambda c: run_kern(build, *c), kcs))
    for (opts, env, argv, mod), r in zip(kcs, kres):
        why = kern_check(opts, r)
        if why:
            ctx.fail('under kernprof: ' + why, {'finding_class': None, 'kern_case': [opts, env, argv, mod], 'real': r})
    ctx.coverage['kernprof_runs'] = len(kcs)
    acs = [(pre, args) for pre in PRE_STATES for args in (['-l', 'inner.py'], ['inner.py'], ['-b', 'inner.py'])]
    with cf.ThreadPoolExecutor(max_workers=12) as ex:
        ares = list(ex.map(lambda c: run_after(build, *c), acs))
    for (pre, args), r in zip(acs, ares):
        if r['rc'] != 0 or r['after'] != PRE_STATES[pre][1]:
            ctx.fail('after an in-process kernprof run the decorator is not back to deciding as before', {'finding_class': None, 'after_case': [pre, args],
                                                                                                         '[decoration returns f itself, enabled]': r['after'], 'expected': PRE_STATES[pre][1], 'real': r})
    ctx.coverage['after_kernprof_cases'] = len(acs)
    ctx.coverage.update({
        'evaluations': len(cases) + len(shows) + len(ecs) + len(kcs) + len(acs), 'distinct_nontrivial': len(nontrivial),
        'rule': '%d LINE_PROFILE spellings (unset, empty, every letter case of the falsy words, near misses, non-ASCII look-alikes) x %d argv shapes '
                'x one decoration; every history of length <= %d over {decorate, enable, enable(prefix), disable} in 5 environments; random '
                'histories with kernprof\'s hook; show() under all 16 write_config subsets x 2 prefixes; %d real interpreter exits; the decorator in a program run by the real kernprof (10 option sets x LINE_PROFILE x --line-profile x script/-m). '
                'non-trivial = requested, or the history contains an explicit enable/disable/kernprof op' % (len(ENVS), len(ARGVS), maxlen, len(ecs)),
        'traces_validated_against_impl': len(cases) + len(shows) - kdiff, 'correspondence_disagreements': kdiff,
        'lower_probe_code_points': 0x110000 - 128 - 2048, 'exit_cases': [e[0] for e in ecs], 'exhaustive': True})
    ctx.coverage['samples'].append({'case': cases[-1], 'real': real[-1], 'model': model[-1] if model else None})
    ctx.coverage['samples'].append({'exit_case': ecs[-1][0], 'real': eres[-1]})
    ctx.assumptions += ['str.lower agrees with ASCII lower-casing on membership in _FALSY_STRINGS (probed over all code points on every run)',
                        'atexit runs each registered callback once at interpreter exit (exercised by the subprocess cases)',
                        'the translator matches library expressions of the five methods by exact source text; control flow is translated structurally']
    return ctx.finish('Lean: requested_iff & co. over the methods emitted from the tree (bridge: emitted = model); K14 drives real GlobalProfiler objects, '
                      'show() and real interpreter exits')


def replay(ctx, path):
    data = json.load(open(path))
    w = data.get('witness', data)
    build = ctx.build()
    if 'case' in w:
        r = run_worker(build, 'c14_worker.py', {'cases': [w['case']]})
        print(json.dumps({'real': r['cases'][0], 'oracle': oracle_case(w['case'], r['cases'][0].get('out', [])),
                          'model': lean_driver('explicit', model_lines(w['case']))}, indent=1))
    elif 'show' in w:
        print(json.dumps(run_worker(build, 'c14_worker.py', {'shows': [w['show']]}), indent=1))
    elif 'kern_case' in w:
        r = run_kern(build, *w['kern_case'])
        print(json.dumps({'real': r, 'oracle': kern_check(w['kern_case'][0], r)}, indent=1))
    elif 'exit_case' in w:
        print(json.dumps(run_exit(build, w['exit_case'], w['env'], w['argv'], w['pre'], w['post']), indent=1))
    return 0
