"""C16 — decorating any supported callable really profiles its code.
Proof: Props/C16.lean (underlying_registered, runs_under_profiler, every_path_wrapped_once, wrap_idempotent,
redecorate_registers_nothing — structural induction over towers of any depth) + the tables of
_get_underlying_functions / wrap_callable regenerated from the tree.
Tie: K16 — real towers decorated by a real LineProfiler vs the model's wrap / registered / invoke.
Oracle: after using the decorated object (and the twice-decorated one), the statistics show, for every underlying
function, exactly as many hits on its body line as it was executed; decorating again returns an equal tower
(no second layer) and registers nothing."""
import json

import wraplib
from common import run_worker

LEVEL = 'proof'


def plain_tower(t):
    return 'w' not in t


def oracle(case, r):
    bad = []
    x = r.get('line')
    if x is None:
        return bad
    # exact number of executions in the statistics
    runs = {k: v for k, v in x['runs_while_wrapped'].items()}
    hits = x['hits']
    if plain_tower(case['tower']):
        for fid, n in runs.items():
            if hits.get(fid, 0) != n:
                bad.append({'function': int(fid), 'executions_through_decorated_object': n, 'reported_hits': hits.get(fid, 0)})
        for fid, h in hits.items():
            if runs.get(fid, 0) != h:
                bad.append({'function': int(fid), 'executions_through_decorated_object': runs.get(fid, 0), 'reported_hits': h})
    # clean-up code of generator bodies (run inside close() / aclose()) is profiled like the rest of the body
    if plain_tower(case['tower']) and 'cleanup_runs' in x:
        cr = {}
        for fid, depth in x['cleanup_runs']:
            cr[str(fid)] = cr.get(str(fid), 0) + 1
            if depth < 1:
                bad.append({'function': fid, 'clean_up_code_ran_outside_the_profiler': depth})
        if cr != x['cleanup_hits']:
            bad.append({'clean_up_line_executions': cr, 'reported_hits': x['cleanup_hits']})
    # using the decorated object executes the underlying function (the one the undecorated object executes)
    for acc, a in zip(case['accesses'], x['accesses']):
        fids = lambda evs: [e.split(':')[1] for e in evs if e.startswith('run:')]   # noqa
        if fids(a['orig']) != fids(a['wrapped']) or fids(a['orig']) != fids(a['again']):
            bad.append({'access': acc, 'functions_run_by_original': fids(a['orig']), 'by_decorated': fids(a['wrapped']), 'by_decorated_twice': fids(a['again'])})
    # … and hands back what the undecorated object hands back (for generator results: the first item, and what comes back when the consumer
    # closes them or throws an exception in)
    for acc, a in zip(case['accesses'], x['accesses']):
        if ' at 0x' not in a['orig_value'] and (a['orig_value'] != a['wrapped_value'] or a['orig_value'] != a['again_value']):
            bad.append({'access': acc, 'result_of_original': a['orig_value'], 'of_decorated': a['wrapped_value'], 'of_decorated_twice': a['again_value']})
    # every run under the profiler
    for acc, a in zip(case['accesses'], x['accesses']):
        for ev in a['wrapped'] + a['again']:
            if ev.startswith('run:') and int(ev.rsplit(':', 1)[1]) < 1:
                bad.append({'access': acc, 'event_outside_profiler': ev})
            if ev.startswith('run:') and plain_tower(case['tower']) and int(ev.rsplit(':', 1)[1]) != 1:
                bad.append({'access': acc, 'event_under_more_than_one_layer': ev})
    # no second layer, nothing registered again
    if x['again'] != x['wrapped']:
        bad.append({'decorated': ' '.join(x['wrapped']), 'decorated_again': ' '.join(x['again'])})
    if x.get('registered_again'):
        bad.append({'registered_by_second_decoration': x['registered_again']})
    return bad


def run(ctx):
    ctx.prove('LPVerif.Props.C16', 'LPVerif/Props/C16.lean', drivers=('Wrap',))
    build = ctx.build()
    widen = bool(ctx.broken)
    towers = [c for c in wraplib.tower_cases(ctx.rng.fork('towers16'), ctx.quick, widen)]
    for c in towers:
        c['profilers'] = ['line']
    ctx.log('%d towers on the real LineProfiler' % len(towers))
    _, rt = wraplib.run_real(build, [], towers)
    mt = wraplib.run_model_towers(towers) if getattr(ctx, 'driver_ok', True) else None
    kdiff = 0
    dist = {}
    nontrivial = set()
    for i, (c, r) in enumerate(zip(towers, rt)):
        if 'error' in r:
            ctx.broken.append(('harness', r['error'][-1500:]))
            continue
        dist[c['tower'][0]] = dist.get(c['tower'][0], 0) + 1
        bad = oracle(c, r)
        for b in bad[:2]:
            ctx.fail('decorated callable is not profiled exactly', {'finding_class': None, 'tower_case': c, 'difference': b})
        if mt is not None:
            x = r['line']
            diffs = []
            if x['wrapped'] != mt[i]['wrapped']:
                diffs.append('wrap: model %s real %s' % (' '.join(mt[i]['wrapped']), ' '.join(x['wrapped'])))
            if x['again'] != mt[i]['again']:
                diffs.append('wrap twice: model %s real %s' % (' '.join(mt[i]['again']), ' '.join(x['again'])))
            if sorted(map(tuple, x['registered'])) != sorted(map(tuple, mt[i]['registered'])):
                diffs.append('registered: model %s real %s' % (mt[i]['registered'], x['registered']))
            if sorted(map(tuple, x['registered_again'])) != sorted(map(tuple, mt[i]['registered_again'])):
                diffs.append('registered again: model %s real %s' % (mt[i]['registered_again'], x['registered_again']))
            for acc, a, m in zip(c['accesses'], x['accesses'], mt[i]['accesses']):
                if a['wrapped'] != m['wrapped']:
                    diffs.append('access %s: model %s real %s' % (acc, m['wrapped'], a['wrapped']))
            if diffs:
                kdiff += 1
                if not bad:
                    ctx.broken.append(('K16 correspondence', 'tower %s p=%d: %s' % (' '.join(c['tower']), c['p'], '; '.join(diffs)[:700])))
        if len(c['tower']) > 4:
            nontrivial.add(json.dumps(c, sort_keys=True))
    # the same decorated text in several files (a copied / vendored module): every copy is profiled for itself
    copies = [{'copies': 2, 'calls': [3, 5]}, {'copies': 3, 'calls': [1, 2, 4]}, {'copies': 2, 'calls': [2, 0]}]
    for c, r in zip(copies, run_worker(build, 'wrap_worker.py', {'copies': copies})['copies']):
        if 'error' in r:
            ctx.broken.append(('harness', r['error'][-1500:]))
        elif {k: v for k, v in r['executions'].items() if v} != r['reported'] or r['count_after'] != 0:
            diff = {k: [r['executions'].get(k, 0), r['reported'].get(k, 0)] for k in set(r['executions']) | set(r['reported']) if r['executions'].get(k, 0) != r['reported'].get(k, 0)}
            ctx.fail('decorated callables of a copied module are not profiled exactly, each copy for itself',
                     {'finding_class': None, 'copies_case': c, '[executions, reported hits] where they differ': diff, 'enable_count_after': r['count_after']})
    ctx.coverage['copied_module_cases'] = len(copies)
    # the importable `profile` of the explicit mode as the outermost decorator over every kind (descriptor objects that are not callable themselves included)
    globs = [{'calls': 2}, {'calls': 5}]
    for c, r in zip(globs, run_worker(build, 'wrap_worker.py', {'globals': globs})['globals']):
        if 'error' in r:
            ctx.broken.append(('harness', r['error'][-1500:]))
        elif r['executions'] != r['reported'] or r['count_after'] != 0:
            diff = {k: [r['executions'].get(k, 0), r['reported'].get(k, 0)] for k in set(r['executions']) | set(r['reported']) if r['executions'].get(k, 0) != r['reported'].get(k, 0)}
            ctx.fail('callables decorated with the enabled global `profile` object are not profiled exactly',
                     {'finding_class': None, 'global_case': c, '[executions, reported hits] where they differ': diff, 'enable_count_after': r['count_after']})
    ctx.coverage['global_decorator_cases'] = len(globs)
    # decorated callables used in a second thread while the thread that started it is inside a decorated callable itself
    thr = [{'n': 3, 'calls': 2}, {'n': 1, 'calls': 4}]
    for c, r in zip(thr, run_worker(build, 'wrap_worker.py', {'threads': thr})['threads']):
        if 'error' in r:
            ctx.broken.append(('harness', r['error'][-1500:]))
        elif r['executions'] != r['reported'] or r['count_after'] != 0:
            diff = {k: [r['executions'].get(k, 0), r['reported'].get(k, 0)] for k in set(r['executions']) | set(r['reported']) if r['executions'].get(k, 0) != r['reported'].get(k, 0)}
            ctx.fail('decorated callables used concurrently (a worker thread started from inside a decorated callable; overlapping asyncio tasks) are not profiled exactly',
                     {'finding_class': None, 'thread_case': c, '[executions, reported hits] where they differ': diff, 'enable_count_after': r['count_after']})
    ctx.coverage['thread_cases'] = len(thr)
    ctx.coverage.update({
        'evaluations': len(towers) + len(copies) + len(globs) + len(thr), 'distinct_nontrivial': len(nontrivial),
        'rule': 'all 8 property shapes (gaps included), every single-layer kind x {plain, generator, coroutine, async generator} function, callable '
                'instances, + random towers of depth <= 4 with layers pre-wrapped by the same / other profilers; each used through its natural access '
                '(call / get / set / delete) undecorated, decorated and decorated twice; non-trivial = at least two layers',
        'traces_validated_against_impl': len(towers) - kdiff, 'correspondence_disagreements': kdiff, 'top_level_distribution': dist})
    ctx.coverage['samples'].append({'tower_case': towers[-1], 'real': rt[-1], 'model': mt[-1] if mt else None})
    ctx.assumptions += ['hit counts while the profiler is enabled are exact (C01); this check adds: every underlying function is registered and runs inside the bracket',
                        'descriptor semantics of CPython are modelled for sensible compositions only (a callable chain under at most one descriptor)',
                        'towers containing wrappers of other profilers: only the structural claims are compared (the other profiler\'s wrapper is what gets registered)']
    return ctx.finish('Lean: structural induction over towers (registered = leaves, every run inside exactly one bracket, idempotence); K16 on real towers; '
                      'oracle = hits in the statistics equal executions')


def replay(ctx, path):
    data = json.load(open(path))
    w = data.get('witness', data)
    build = ctx.build()
    _, rt = wraplib.run_real(build, [], [w['tower_case']])
    print(json.dumps({'real': rt[0], 'oracle': oracle(w['tower_case'], rt[0]), 'model': wraplib.run_model_towers([w['tower_case']])}, indent=1))
    return 0
