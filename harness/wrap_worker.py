"""Worker for C03 / C16: real generators, coroutines, async generators built from scripts, and real towers of
descriptors / partials built from the token form the Lean driver uses; both undecorated and decorated by a real profiler.
JSON in: {"gens": [...], "towers": [...]}; JSON out: {"lpverif": {...}}."""
import functools
import inspect
import json
import sys
import types

import line_profiler
import kernprof


class User(Exception):
    def __init__(self, k):
        super().__init__(k)
        self.k = k


# exceptions outside the `Exception` hierarchy (the model's `user k` for k >= 900)
import asyncio
BASE_EXC = {900: KeyboardInterrupt, 901: SystemExit, 902: asyncio.CancelledError}


def make_exn(code):
    if code[0] == 'u' and int(code[1:]) in BASE_EXC:
        return BASE_EXC[int(code[1:])]()
    if code == 'g':
        return GeneratorExit()
    if code == 's':
        return StopIteration()
    if code == 't':
        return TypeError('t')
    if code == 'r':
        return RuntimeError('r')
    return User(int(code[1:]))


def exn_code(e):
    for k, cls in BASE_EXC.items():
        if type(e) is cls:
            return 'u%d' % k
    if isinstance(e, User):
        return 'u%d' % e.k
    if isinstance(e, GeneratorExit):
        return 'g'
    if isinstance(e, (StopIteration, StopAsyncIteration)):
        return 's'
    if isinstance(e, TypeError):
        return 't'
    if isinstance(e, RuntimeError):
        return 'r'
    return 'other:' + type(e).__name__


def echo(resume):
    kind, val = resume
    if kind == 'start' or val is None:
        return 0
    if kind == 'value':
        return val
    if isinstance(val, User):
        return 100 + val.k
    for k, cls in BASE_EXC.items():
        if type(val) is cls:
            return 100 + k
    return 99


def parse_act(s):
    if s == 're':
        return ('retEcho',)
    if s == 'rr':
        return ('reraise',)
    if s == 'r-':
        return ('ret', None)
    if s[0] == 'r':
        return ('ret', int(s[1:]))
    if s[0] == 'x':
        return ('raise', s[1:])
    if s[0] == 'e':
        return ('yieldEcho', int(s[1:]))
    v, n = s[1:].split(',')
    return ('yieldC', int(v), int(n))


def parse_script(text):
    return [[parse_act(a) for a in row.split(';')] for row in text.split('|')]


class Suspend:
    def __init__(self, v):
        self.v = v

    def __await__(self):
        got = yield self.v
        return got


def pick(script, state, resume):
    row = script[state]
    kind, val = resume
    if kind == 'throw':
        return row[2] if isinstance(val, GeneratorExit) else row[1]
    return row[0]


def make_gen(script, log):
    def body():
        state, resume = 0, ('start', None)
        while True:
            if state >= len(script):
                return None
            act = pick(script, state, resume)
            t = act[0]
            if t in ('yieldC', 'yieldEcho'):
                v = act[1] if t == 'yieldC' else 100 + echo(resume)
                state = act[2] if t == 'yieldC' else act[1]
                log.append(v)
                try:
                    got = yield v
                    resume = ('value', got)
                except BaseException as e:
                    resume = ('throw', e)
            elif t == 'ret':
                return act[1]
            elif t == 'retEcho':
                return echo(resume)
            elif t == 'raise':
                raise make_exn(act[1])
            else:
                if resume[0] == 'throw':
                    raise resume[1]
                raise User(0)
    return body


def make_coro(script, log):
    async def body():
        state, resume = 0, ('start', None)
        while True:
            if state >= len(script):
                return None
            act = pick(script, state, resume)
            t = act[0]
            if t in ('yieldC', 'yieldEcho'):
                v = act[1] if t == 'yieldC' else 100 + echo(resume)
                state = act[2] if t == 'yieldC' else act[1]
                log.append(v)
                try:
                    got = await Suspend(v)
                    resume = ('value', got)
                except BaseException as e:
                    resume = ('throw', e)
            elif t == 'ret':
                return act[1]
            elif t == 'retEcho':
                return echo(resume)
            elif t == 'raise':
                raise make_exn(act[1])
            else:
                if resume[0] == 'throw':
                    raise resume[1]
                raise User(0)
    return body


def make_agen(script, log, inner_await):
    async def body():
        state, resume = 0, ('start', None)
        while True:
            if state >= len(script):
                return
            act = pick(script, state, resume)
            t = act[0]
            if t in ('yieldC', 'yieldEcho'):
                v = act[1] if t == 'yieldC' else 100 + echo(resume)
                state = act[2] if t == 'yieldC' else act[1]
                log.append(v)
                if inner_await:
                    await Suspend(-1)       # a suspension to the event loop inside the step
                try:
                    got = yield v
                    resume = ('value', got)
                except BaseException as e:
                    resume = ('throw', e)
            elif t in ('ret', 'retEcho'):
                return
            elif t == 'raise':
                raise make_exn(act[1])
            else:
                if resume[0] == 'throw':
                    raise resume[1]
                raise User(0)
    return body


def drive_awaitable(aw):
    """complete one asend/athrow/aclose awaitable, answering event-loop suspensions with None"""
    try:
        while True:
            aw.send(None)
    except StopIteration as e:
        return e.value


def run_ops(kind, obj, ops, prof):
    out = []
    counts = []
    for op in ops:
        thrown = make_exn(op[1:]) if op[0] == 't' else None
        try:
            if kind == 'agen':
                if op == 'c':
                    drive_awaitable(obj.aclose())
                    out.append('C')
                elif op[0] == 's':
                    v = drive_awaitable(obj.asend(None if op == 's-' else int(op[1:])))
                    out.append('Y%d' % v)
                else:
                    v = drive_awaitable(obj.athrow(thrown))
                    out.append('C' if v is None else 'Y%d' % v)     # athrow on a finished async generator completes with None
            else:
                if op == 'c':
                    obj.close()
                    out.append('C')
                elif op[0] == 's':
                    v = obj.send(None if op == 's-' else int(op[1:]))
                    out.append('Y%d' % v)
                else:
                    v = obj.throw(thrown)
                    out.append('Y%d' % v)
        except StopIteration as e:
            if e is thrown:       # the very exception that was thrown in came back
                out.append('Rs')
            else:
                out.append('S-' if e.value is None else 'S%d' % e.value)
        except StopAsyncIteration:
            out.append('S-')
        except BaseException as e:   # noqa
            out.append('R' + exn_code(e))
        if prof is not None:
            counts.append(prof.enable_count)
    return out, counts


def run_gen_case(case):
    script = parse_script(case['script'])
    kind = case['kind']
    res = {}
    for pname in case.get('profilers', ['line']):
        logs = {}
        outs = {}
        counts = None
        for variant in ('orig', 'wrapped'):
            log = []
            if kind == 'gen':
                fn = make_gen(script, log)
            elif kind == 'coro':
                fn = make_coro(script, log)
            else:
                fn = make_agen(script, log, case.get('inner_await', False))
            prof = None
            if variant == 'wrapped':
                prof = line_profiler.LineProfiler() if pname == 'line' else kernprof.ContextualProfile()
                w = prof(fn)
                meta = {'same_kind': (inspect.isgeneratorfunction(w), inspect.iscoroutinefunction(w), inspect.isasyncgenfunction(w))
                        == (inspect.isgeneratorfunction(fn), inspect.iscoroutinefunction(fn), inspect.isasyncgenfunction(fn)),
                        'name': w.__name__ == fn.__name__, 'sig': str(inspect.signature(w)) == str(inspect.signature(fn)),
                        'again_same_object': prof(w) is w}
                fn = w
            obj = fn()
            o, c = run_ops(kind, obj, case['ops'], prof)
            if kind == 'coro' and variant == 'orig':
                pass
            outs[variant] = o
            logs[variant] = list(log)       # side effects of the operations applied; what the harness' own closing below and the collector provoke is not compared
            if variant == 'wrapped':
                counts = c
                while prof.enable_count > 0:
                    prof.disable_by_count()
            try:      # avoid "never awaited" noise
                if kind == 'agen':
                    drive_awaitable(obj.aclose())
                else:
                    obj.close()
            except BaseException:   # noqa
                pass
        res[pname] = {'orig': outs['orig'], 'wrapped': outs['wrapped'], 'log_orig': logs['orig'], 'log_wrapped': logs['wrapped'],
                      'counts': counts, 'meta': meta}
    return res


# ----------------------------------------------------------------------------------------------------- towers
class World:
    def __init__(self, nprof, pkind):
        self.profs = [(line_profiler.LineProfiler() if pkind == 'line' else kernprof.ContextualProfile()) for _ in range(nprof)]
        self.under_test = None
        self.log = []
        self.fnid = {}      # id(function) -> (id, kind)
        self.keep = []
        self.insts = {}
        self.host = None
        self.cleanlog = []

    def depth(self):
        return self.under_test.enable_count if self.under_test is not None else 0

    def canon_arg(self, a):
        if isinstance(a, int):
            return a
        if isinstance(a, type):
            return 0
        return getattr(a, 'tag', -1)

    def make_fn(self, fid, kind):
        key = ('fn', fid, kind)
        for f, k in self.keep:
            if k == key:
                return f
        src = '\n' * (10 * fid + 1)
        if kind == 'plain':
            src += 'def f%d(*a):\n    W.log.append((%d, [W.canon_arg(x) for x in a], W.depth()))\n    return ("r", %d)\n' % (fid, fid, fid)
        elif kind == 'gen':
            src += ('def f%d(*a):\n    W.log.append((%d, [W.canon_arg(x) for x in a], W.depth()))\n    try:\n        yield ("r", %d)\n'
                    '    finally:\n        W.cleanlog.append((%d, W.depth()))\n' % (fid, fid, fid, fid))
        elif kind == 'coro':
            src += 'async def f%d(*a):\n    W.log.append((%d, [W.canon_arg(x) for x in a], W.depth()))\n    return ("r", %d)\n' % (fid, fid, fid)
        else:
            src += ('async def f%d(*a):\n    W.log.append((%d, [W.canon_arg(x) for x in a], W.depth()))\n    try:\n        yield ("r", %d)\n'
                    '    finally:\n        W.cleanlog.append((%d, W.depth()))\n' % (fid, fid, fid, fid))
        ns = {'W': self}
        exec(compile(src, 'tower_fn_%d_%s.py' % (fid, kind), 'exec'), ns)
        f = ns['f%d' % fid]
        f.__doc__ = 'doc of f%d' % fid
        self.fnid[id(f)] = (fid, kind)
        self.keep.append((f, key))
        return f

    def inst(self, tag):
        if tag not in self.insts:
            o = type('Inst', (), {})()
            o.tag = tag
            self.insts[tag] = o
        return self.insts[tag]

    def build(self, toks):
        t = toks.pop(0)
        if t == 'fn':
            fid, kind = int(toks.pop(0)), toks.pop(0)
            return self.make_fn(fid, kind)
        if t == 'obj':
            oid, f = int(toks.pop(0)), int(toks.pop(0))
            call = self.make_fn(f, 'plain')
            cls = type('O%d' % oid, (), {'__call__': call})
            o = cls()
            o.tag = oid
            o.oid = (oid, f)
            self.keep.append((o, ('obj', oid)))
            return o
        if t == 'w':
            p = int(toks.pop(0))
            inner = self.build(toks)
            return self.profs[p](inner)
        if t == 'cm':
            return classmethod(self.build(toks))
        if t == 'sm':
            return staticmethod(self.build(toks))
        if t == 'bd':
            s = int(toks.pop(0))
            return types.MethodType(self.build(toks), self.inst(s))
        if t in ('pa', 'pm'):
            n = int(toks.pop(0))
            a = [int(toks.pop(0)) for _ in range(n)]
            inner = self.build(toks)
            return functools.partial(inner, *a) if t == 'pa' else functools.partialmethod(inner, *a)
        if t == 'pr':
            doc, _name = int(toks.pop(0)), int(toks.pop(0))
            impls = []
            for _ in range(3):
                if toks[0] == 'none':
                    toks.pop(0)
                    impls.append(None)
                else:
                    impls.append(self.build(toks))
            return property(*impls, doc='doc%d' % doc)
        if t == 'cp':
            a = toks.pop(0)
            cp = functools.cached_property(self.build(toks))
            if a != '-':
                cp.attrname = 'attr'
            return cp
        raise ValueError(t)

    def canon(self, o):
        if o is None:
            return ['none']
        if isinstance(o, classmethod):
            return ['cm'] + self.canon(o.__func__)
        if isinstance(o, staticmethod):
            return ['sm'] + self.canon(o.__func__)
        if isinstance(o, types.MethodType):
            return ['bd', str(self.canon_arg(o.__self__))] + self.canon(o.__func__)
        if isinstance(o, functools.partialmethod):
            return ['pm', str(len(o.args))] + [str(x) for x in o.args] + (['KW'] if o.keywords else []) + self.canon(o.func)
        if isinstance(o, functools.partial):
            return ['pa', str(len(o.args))] + [str(x) for x in o.args] + (['KW'] if o.keywords else []) + self.canon(o.func)
        if isinstance(o, property):
            doc = o.__doc__[3:] if (o.__doc__ or '').startswith('doc') and o.__doc__[3:].isdigit() else 'X'
            return ['pr', doc, '0'] + self.canon(o.fget) + self.canon(o.fset) + self.canon(o.fdel)
        if isinstance(o, functools.cached_property):
            return ['cp', '1' if o.attrname == 'attr' else '-' if o.attrname is None else 'X'] + self.canon(o.func)
        if isinstance(o, types.FunctionType):
            if id(o) in self.fnid:
                fid, kind = self.fnid[id(o)]
                return ['fn', str(fid), kind]
            marker = vars(o).get('__line_profiler_id__')
            for i, p in enumerate(self.profs):
                if marker == id(p) and hasattr(o, '__wrapped__'):
                    return ['w', str(i)] + self.canon(o.__wrapped__)
            return ['unknown-function']
        if hasattr(o, 'oid'):
            return ['obj', str(o.oid[0]), str(o.oid[1])]
        return ['unknown:' + type(o).__name__]

    def access(self, obj, acc):
        """perform the access on the object (hosting descriptors on a class); returns the events"""
        self.log.clear()
        self.cleanlog.clear()
        hosted = isinstance(obj, (classmethod, staticmethod, functools.partialmethod, property, functools.cached_property))
        res = None
        try:
            if hosted:
                Host = type('Host', (), {})
                setattr(Host, 'attr', obj)      # no __set_name__: a rebuilt cached_property must carry its name
                h = Host()
                h.tag = 50
                if acc[0] == 'call':
                    args = acc[1]
                    if isinstance(obj, functools.partialmethod):
                        if not args:
                            raise TypeError('unbound')
                        h.tag = args[0]
                        res = h.attr(*args[1:])
                    else:
                        res = Host.attr(*args)
                elif acc[0] == 'get':
                    h.tag = acc[1]
                    res = h.attr
                elif acc[0] == 'set':
                    h.tag = acc[1]
                    h.attr = acc[2]
                else:
                    h.tag = acc[1]
                    del h.attr
            else:
                if acc[0] != 'call':
                    raise TypeError('not a descriptor')
                res = obj(*acc[1])
            # consume generator / coroutine results so the body runs
            # (generators: the first item, then an early close — the clean-up code of the body runs inside close())
            # (every other access: an exception is thrown in at the first item instead — it is raised at the `yield`, the clean-up code runs, and
            # the very exception comes back to the caller)
            throw_in = acc[0] == 'call' and len(acc[1]) % 2 == 1
            if inspect.isgenerator(res):
                g = res
                res = [next(g)]
                if throw_in:
                    try:
                        g.throw(ValueError('thrown in'))
                        res.append('nothing came back')
                    except (ValueError, StopIteration) as e:
                        res.append('%s came back' % type(e).__name__)
                else:
                    g.close()
            elif inspect.iscoroutine(res):
                res = drive_awaitable(res)
            elif inspect.isasyncgen(res):
                g = res
                res = [drive_awaitable(g.asend(None))]
                if throw_in:
                    try:
                        drive_awaitable(g.athrow(ValueError('thrown in')))
                        res.append('nothing came back')
                    except (ValueError, StopAsyncIteration) as e:
                        res.append('%s came back' % type(e).__name__)
                else:
                    drive_awaitable(g.aclose())
        except (AttributeError, TypeError) as e:
            evs = ['run:%d:%s:%d' % (f, ','.join(map(str, a)), d) for (f, a, d) in self.log]
            return evs + ['err'], 'EXC ' + type(e).__name__
        evs = ['run:%d:%s:%d' % (f, ','.join(map(str, a)), d) for (f, a, d) in self.log]
        return evs, repr(res)


def run_tower_case(case):
    out = {}
    for pkind in case.get('profilers', ['line']):
        w = World(case.get('nprof', 3), pkind)
        p = case['p']
        orig = w.build(list(case['tower']))
        w.under_test = w.profs[p]
        prof = w.profs[p]
        r = {'built': w.canon(orig)}
        nfuncs_before = len(prof.functions) if pkind == 'line' else 0
        wrapped = prof(orig)
        r['wrapped'] = w.canon(wrapped)
        if pkind == 'line':
            r['registered'] = [w.canon(f) for f in prof.functions[nfuncs_before:]]
        again = prof(wrapped)
        r['again'] = w.canon(again)
        if pkind == 'line':
            r['registered_again'] = [w.canon(f) for f in prof.functions[nfuncs_before + len(r['registered']):]]
        accs = []
        runs_total = {}
        cleanups = []
        for acc in case['accesses']:
            a = tuple(acc)
            e0, v0 = w.access(orig, a)
            e1, v1 = w.access(wrapped, a)
            cleanups += list(w.cleanlog)
            for ev in e1:
                if ev.startswith('run:'):
                    fid = int(ev.split(':')[1])
                    runs_total[fid] = runs_total.get(fid, 0) + 1
            e2, v2 = w.access(again, a)
            cleanups += list(w.cleanlog)
            for ev in e2:
                if ev.startswith('run:'):
                    fid = int(ev.split(':')[1])
                    runs_total[fid] = runs_total.get(fid, 0) + 1
            accs.append({'orig': e0, 'orig_value': v0, 'wrapped': e1, 'wrapped_value': v1, 'again': e2, 'again_value': v2,
                         'count_after': prof.enable_count})
        r['accesses'] = accs
        # metadata of function-level objects
        if isinstance(orig, types.FunctionType):
            r['meta'] = {'name': wrapped.__name__ == orig.__name__, 'doc': wrapped.__doc__ == orig.__doc__,
                         'sig': str(inspect.signature(wrapped)) == str(inspect.signature(orig)),
                         'kind': [inspect.isgeneratorfunction(wrapped), inspect.iscoroutinefunction(wrapped), inspect.isasyncgenfunction(wrapped)]
                         == [inspect.isgeneratorfunction(orig), inspect.iscoroutinefunction(orig), inspect.isasyncgenfunction(orig)]}
        # statistics: hits of the last line (return / yield) of every leaf function: one line event per execution
        # (the logging line holds an inlined comprehension: several line events per execution on 3.12)
        if pkind == 'line':
            hits = {}
            clean_hits = {}
            for (fname, first, name), entries in prof.get_stats().timings.items():
                if fname.startswith('tower_fn_'):
                    fid = int(fname.split('_')[2])
                    kind = fname.split('_')[3][:-3]
                    body = first + (3 if kind in ('gen', 'agen') else 2)       # the yield sits inside `try:` there
                    for (l, h, _t) in entries:
                        if l == body:
                            hits[fid] = hits.get(fid, 0) + h
                        if kind in ('gen', 'agen') and l == first + 5:
                            clean_hits[fid] = clean_hits.get(fid, 0) + h
            r['hits'] = {str(k): v for k, v in hits.items()}
            r['cleanup_hits'] = {str(k): v for k, v in clean_hits.items()}
            r['cleanup_runs'] = [[f, d] for (f, d) in cleanups]
            r['runs_while_wrapped'] = {str(k): v for k, v in runs_total.items()}
        out[pkind] = r
    return out



COPY_SRC = '''\
import functools

@profile
def handle(x):
    y = x + 1
    return y

@profile
def stream(x):
    yield x
    yield x + 1

@profile
async def fetch(x):
    y = x * 2
    return y

class Service:
    @profile
    def method(self, x):
        return x

    @profile
    @staticmethod
    def sm(x):
        return x

    @profile
    @classmethod
    def cm(cls, x):
        return x

    @profile
    @property
    def prop(self):
        return 7

bound = profile(functools.partial(handle.__wrapped__ if hasattr(handle, '__wrapped__') else handle, 3))
'''


def run_copies_case(case):
    """the same decorated source text in two (or three) files — a copied or vendored module: each copy's callables are profiled for themselves"""
    prof = line_profiler.LineProfiler()
    mods = []
    for i in range(case['copies']):
        fname = 'copy_v%d/handlers.py' % i
        ns = {'profile': prof, '__name__': 'handlers_v%d' % i}
        exec(compile(COPY_SRC, fname, 'exec'), ns)
        mods.append((fname, ns))
    want = {}
    for (fname, ns), n in zip(mods, case['calls']):
        svc = ns['Service']()
        for _ in range(n):
            ns['handle'](1)
            list(ns['stream'](1))
            drive_awaitable(ns['fetch'](2))
            svc.method(1)
            ns['Service'].sm(1)
            ns['Service'].cm(1)
            svc.prop
        for name in ('handle', 'stream', 'fetch', 'method', 'sm', 'cm', 'prop'):
            want['%s:%s' % (fname, name)] = n
    got = {}
    for (fname, first, name), entries in prof.get_stats().timings.items():
        if entries:
            # executions = hits of the function's last recorded line (return / last yield)
            got['%s:%s' % (fname, name)] = max(entries)[1]
    return {'executions': want, 'reported': got, 'count_after': prof.enable_count}

GLOBAL_SRC = '''\
import functools

def plain(x):
    return x + 1

class Host:
    @profile
    @classmethod
    def cm(cls, x):
        return x

    @profile
    @staticmethod
    def sm(x):
        return x

    @profile
    @property
    def prop(self):
        return 7

    @profile
    @functools.cached_property
    def cached(self):
        return 8

    def _base(self, a, b):
        return a + b

    pm = profile(functools.partialmethod(_base, 1))

    @profile
    def method(self, x):
        return x

wrapped_plain = profile(plain)
wrapped_partial = profile(functools.partial(plain, 3))
'''


def run_global_case(case):
    """the importable `profile` object of the explicit mode (an enabled GlobalProfiler) as the outermost decorator over every kind"""
    from line_profiler.explicit_profiler import GlobalProfiler
    gp = GlobalProfiler()
    gp.enable()
    import atexit
    atexit.unregister(gp.show)
    ns = {'profile': gp, '__name__': 'global_case'}
    exec(compile(GLOBAL_SRC, 'global_case.py', 'exec'), ns)
    n = case['calls']
    h = ns['Host']()
    for _ in range(n):
        ns['Host'].cm(1)
        ns['Host'].sm(1)
        h.prop
        h.pm(2)
        h.method(1)
        ns['wrapped_plain'](1)
        ns['wrapped_partial']()
    h.cached
    want = {'cm': n, 'sm': n, 'prop': n, 'cached': 1, '_base': n, 'method': n, 'plain': 2 * n}
    got = {}
    for (fname, first, name), entries in gp._profile.get_stats().timings.items():
        if entries:
            got[name] = max(entries)[1]
    return {'executions': want, 'reported': got, 'count_after': gp._profile.enable_count}


THREAD_SRC = '''\
import threading

@profile
def inner(n):
    t = 0
    for i in range(n):
        t += i
    return t

@profile
def inner_gen(n):
    for i in range(n):
        yield i

class Box:
    @profile
    def run(self, n):
        th = threading.Thread(target=inner, args=(n,))
        th.start()
        th.join()
        return list(inner_gen(n))

import asyncio

@profile
async def quick():
    await asyncio.sleep(0)
    return 1

@profile
async def slow(n):
    await asyncio.sleep(0)
    await asyncio.sleep(0)
    t = 0
    for i in range(n):
        t += i
    return t

async def both(n):
    # overlapping tasks on one thread: the one that entered its wrapper first finishes first
    return await asyncio.gather(quick(), slow(n))

@profile
def outer(n):
    th = threading.Thread(target=lambda: (inner(n), list(inner_gen(n))))
    th.start()
    th.join()
    return inner(1)
'''


def run_thread_case(case):
    """a decorated callable used in another thread while the thread that started it is itself inside a decorated callable"""
    prof = line_profiler.LineProfiler()
    ns = {'profile': prof, '__name__': 'thread_case'}
    exec(compile(THREAD_SRC, 'thread_case.py', 'exec'), ns)
    n, k = case['n'], case['calls']
    for _ in range(k):
        ns['outer'](n)
        ns['Box']().run(n)
        ns['asyncio'].run(ns['both'](n))
    # executions of each function's last line (the return / the last yield-loop line)
    # total line executions per function (every line of every body, from the program text)
    want = {'outer': 4 * k, 'run': 4 * k, 'inner': k * (2 * (2 * n + 3) + 5), 'inner_gen': 2 * k * (2 * n + 1), 'quick': 2 * k, 'slow': k * (n + 5 + n)}
    got = {}
    for (fname, first, name), entries in prof.get_stats().timings.items():
        if entries:
            got[name] = sum(h for (_l, h, _t) in entries)
    return {'executions': want, 'reported': got, 'count_after': prof.enable_count}


def main():
    payload = json.load(sys.stdin)
    res = {'gens': [], 'towers': [], 'copies': [], 'globals': [], 'threads': []}
    import warnings
    warnings.simplefilter('ignore')
    for c in payload.get('gens', []):
        try:
            res['gens'].append(run_gen_case(c))
        except Exception:
            import traceback
            res['gens'].append({'error': traceback.format_exc()})
    for c in payload.get('towers', []):
        try:
            res['towers'].append(run_tower_case(c))
        except Exception:
            import traceback
            res['towers'].append({'error': traceback.format_exc()})
    for c in payload.get('threads', []):
        try:
            res['threads'].append(run_thread_case(c))
        except Exception:
            import traceback
            res['threads'].append({'error': traceback.format_exc()})
    for c in payload.get('globals', []):
        try:
            res['globals'].append(run_global_case(c))
        except Exception:
            import traceback
            res['globals'].append({'error': traceback.format_exc()})
    for c in payload.get('copies', []):
        try:
            res['copies'].append(run_copies_case(c))
        except Exception:
            import traceback
            res['copies'].append({'error': traceback.format_exc()})
    sys.stdout.write('\n{"lpverif": %s}\n' % json.dumps(res))


main()
