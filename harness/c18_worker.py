"""Worker for C18 (and C09's tree queries): materialises generated directory trees and asks the real util_static functions and
importlib's PathFinder.  JSON in: {"cases": [{"roots": [tree, ...], "names": [...], "walks": [[rootidx, "a/b"], ...]}]}
tree = {"name": {...} | None}  (dict = directory, None = file)"""
import importlib.machinery
import json
import os
import sys
import tempfile

from line_profiler.autoprofile import util_static as us


def materialise(tree, d):
    for name, sub in tree.items():
        p = os.path.join(d, name)
        if sub is None:
            with open(p, 'w') as fh:
                fh.write('# generated\n')
        else:
            os.makedirs(p)
            materialise(sub, p)


def pathfinder(roots, name):
    """component-wise, as `import a.b.c` resolves; -> (root index, 'pkg'|'mod') | None | 'namespace' """
    parts = name.split('.')
    search = list(roots)
    spec = None
    for i in range(len(parts)):
        full = '.'.join(parts[:i + 1])
        try:
            spec = importlib.machinery.PathFinder.find_spec(full, search)
        except KeyError:
            return 'namespace'     # a nested namespace portion: its _NamespacePath wants the parent in sys.modules
        if spec is None:
            return None
        if spec.origin is None or spec.loader is None or type(spec.loader).__name__ == 'NamespaceLoader' or spec.origin == 'namespace':
            return 'namespace'
        if i < len(parts) - 1:
            if spec.submodule_search_locations is None:
                return None            # not a package: `import` fails
            search = list(spec.submodule_search_locations)
    origin = spec.origin
    kind = 'pkg' if spec.submodule_search_locations is not None else 'mod'
    for k, r in enumerate(roots):
        if os.path.commonpath([os.path.abspath(origin), os.path.abspath(r)]) == os.path.abspath(r):      # (links inside the trees are not resolved)
            return [k, kind, os.path.relpath(origin, r)]
    return ['?', kind, origin]


def run_case(c, d):
    roots = []
    for i, tree in enumerate(c['roots']):
        r = os.path.join(d, 'root%d' % i if i != 1 else 'root1[v2]')       # a directory name with glob metacharacters is a directory name
        os.makedirs(r)
        materialise(tree, r)
        roots.append(r)
    # some module files / sub-package directories inside packages are symbolic links to things stored elsewhere under another name (shared or
    # vendored code linked into a package): the import system, and the names, go by the path inside the package
    import shutil
    for n, (ri, rel) in enumerate(c.get('links', [])):
        src = os.path.join(roots[ri], rel)
        if os.path.lexists(src) and not os.path.islink(src):
            store = os.path.join(d, 'store')
            os.makedirs(store, exist_ok=True)
            target = os.path.join(store, 'impl_%d_v2%s' % (n, '.py' if src.endswith('.py') else ''))
            shutil.move(src, target)
            os.symlink(target, src)
    importlib.invalidate_caches()
    out = {'lookup': {}, 'pathfinder': {}, 'roundtrip': {}, 'walk': {}}
    out['spelling'] = {}
    for name in c['names']:
        p = us.modname_to_modpath(name, sys_path=roots)
        # the same search path written the way people write PYTHONPATH entries: with a trailing separator, with a `./` inside
        for how, alt in (('trailing-slash', [r + os.sep for r in roots]), ('dot-segment', [os.path.join(os.path.dirname(r), '.', os.path.basename(r)) for r in roots])):
            q = us.modname_to_modpath(name, sys_path=alt)
            same = (p is None and q is None) or (p is not None and q is not None and os.path.realpath(p) == os.path.realpath(q))
            if not same:
                out['spelling'][name] = [how, None if p is None else os.path.relpath(p, d), None if q is None else os.path.relpath(q, d)]
        # the entry '' that `python -c`, the interactive interpreter and IPython put first: the current directory
        for ri in range(len(roots)):
            here = os.getcwd()
            os.chdir(roots[ri])
            try:
                q = us.modname_to_modpath(name, sys_path=[('' if j == ri else r) for j, r in enumerate(roots)])
                q = None if q is None else os.path.realpath(q)
            finally:
                os.chdir(here)
            same = (p is None and q is None) or (p is not None and q is not None and os.path.realpath(p) == q)
            if not same and name not in out['spelling']:
                out['spelling'][name] = ['empty-string entry for root %d (the current directory)' % ri, None if p is None else os.path.relpath(p, d), None if q is None else os.path.relpath(q, d)]
        if p is None:
            out['lookup'][name] = None
        else:
            k = next(i for i, r in enumerate(roots) if os.path.commonpath([os.path.abspath(p), r]) == r)
            out['lookup'][name] = [k, 'pkg' if os.path.isdir(p) else 'mod', os.path.relpath(p, roots[k])]
            try:
                out['roundtrip'][name] = us.modpath_to_modname(p)
            except Exception as e:   # noqa
                out['roundtrip'][name] = 'EXC %s' % type(e).__name__
            # the same with the interpreter's own search path holding the roots *and* every package directory on the way to the file
            # (a script run from inside a package puts that directory first on sys.path): the name does not depend on it
            inner, cur = [], os.path.dirname(p)
            while os.path.abspath(cur) != roots[k] and len(cur) > len(roots[k]):
                inner.append(cur)
                cur = os.path.dirname(cur)
            if inner:
                saved = list(sys.path)
                sys.path[:0] = inner + roots
                try:
                    alt = us.modpath_to_modname(p)
                except Exception as e:   # noqa
                    alt = 'EXC %s' % type(e).__name__
                finally:
                    sys.path[:] = saved
                if alt != out['roundtrip'][name]:
                    out['roundtrip'][name] = '%s (but %s with the package directories on sys.path)' % (out['roundtrip'][name], alt)
        out['pathfinder'][name] = pathfinder(roots, name)
    for (ri, rel) in c['walks']:
        pkg = os.path.join(roots[ri], rel)
        try:
            found = sorted(os.path.relpath(p, pkg) for p in us.package_modpaths(pkg))
        except Exception as e:   # noqa
            found = 'EXC %s' % type(e).__name__
        out['walk']['%d:%s' % (ri, rel)] = found
        try:
            foundp = sorted(os.path.relpath(p, pkg) for p in us.package_modpaths(pkg, with_pkg=True))
        except Exception as e:   # noqa
            foundp = 'EXC %s' % type(e).__name__
        out.setdefault('walk_pkg', {})['%d:%s' % (ri, rel)] = foundp
    return out


def main():
    payload = json.load(sys.stdin)
    res = []
    import shutil
    # one directory for all the cases of this process: the same paths hold another tree each time (a project that changes between two lookups of
    # one session) — an answer remembered from an earlier tree must not come back
    with tempfile.TemporaryDirectory(prefix='c18-', dir=os.environ.get('LPVERIF_SCRATCH', '/var/tmp')) as d:
        d = os.path.realpath(d)
        for c in payload['cases']:
            for n in os.listdir(d):
                p = os.path.join(d, n)
                shutil.rmtree(p) if os.path.isdir(p) and not os.path.islink(p) else os.remove(p)
            try:
                res.append(run_case(c, d))
            except Exception:
                import traceback
                res.append({'harness_error': traceback.format_exc()})
    sys.stdout.write('\n{"lpverif": %s}\n' % json.dumps({'results': res}))


main()
