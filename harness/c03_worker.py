"""C03: several profilers at once (one profiler being active never makes code decorated by another profiler fail)."""
import cProfile
import json
import sys

import line_profiler
import kernprof


def scenario(fn):
    try:
        r = fn()
        return 'ok' if r == 'fine' else 'wrong result %r' % (r,)
    except BaseException as e:   # noqa
        return 'EXC %s: %s' % (type(e).__name__, e)


def main():
    json.load(sys.stdin)
    out = {}
    classes = {}

    def two_line_profilers():
        p1, p2 = line_profiler.LineProfiler(), line_profiler.LineProfiler()

        @p2
        def g():
            return 'fine'

        @p1
        def f():
            return g()
        return f()
    out['LineProfiler inside LineProfiler'] = scenario(two_line_profilers)

    def line_inside_cprofile():
        p = line_profiler.LineProfiler()

        @p
        def g():
            return 'fine'
        c = cProfile.Profile()
        c.enable()
        try:
            return g()
        finally:
            c.disable()
    out['LineProfiler-decorated call while cProfile is active'] = scenario(line_inside_cprofile)

    def line_inside_contextual():
        p = line_profiler.LineProfiler()
        c = kernprof.ContextualProfile()

        @p
        def g():
            return 'fine'

        @c
        def f():
            return g()
        return f()
    out['LineProfiler-decorated call inside a ContextualProfile-decorated one'] = scenario(line_inside_contextual)

    def line_with_block_then_other():
        p1, p2 = line_profiler.LineProfiler(), line_profiler.LineProfiler()

        @p2
        def g():
            return 'fine'
        with p1:
            r = g()
        return r
    out['LineProfiler-decorated call inside `with other_line_profiler:`'] = scenario(line_with_block_then_other)

    def gen_interleaved():
        p1, p2 = line_profiler.LineProfiler(), line_profiler.LineProfiler()

        @p1
        def g1():
            yield 1
            yield 2

        @p2
        def g2():
            yield 10
            yield 20
        a, b = g1(), g2()
        got = [next(a), next(b), next(a), next(b)]
        return 'fine' if got == [1, 10, 2, 20] else got
    out['generators of two LineProfilers interleaved'] = scenario(gen_interleaved)

    def contextual_inside_line():
        p = line_profiler.LineProfiler()
        c = kernprof.ContextualProfile()

        @c
        def g():
            return 'fine'

        @p
        def f():
            return g()
        return f()
    name = 'ContextualProfile-decorated call inside a LineProfiler-decorated one'
    out[name] = scenario(contextual_inside_line)
    classes[name] = 'F-C03e'
    # leave no tool id behind
    import sys as _s
    out['tool id free afterwards'] = 'ok' if _s.monitoring.get_tool(_s.monitoring.PROFILER_ID) is None else 'tool id still held'
    sys.stdout.write('\n{"lpverif": %s}\n' % json.dumps({'scenarios': out, 'classes': classes}))


main()
