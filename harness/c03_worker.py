"""C03: several profilers at once (one profiler being active never makes code decorated by another profiler fail)."""
import cProfile
import json
import sys

import line_profiler
import kernprof


def scenario(fn):
    try:
        r = fn()
        return 'ok' if r == 'fine' else 'wrong result %r' % (r,)
    except BaseException as e:   # noqa
        return 'EXC %s: %s' % (type(e).__name__, e)


def main():
    json.load(sys.stdin)
    out = {}
    classes = {}

    def two_line_profilers():
        p1, p2 = line_profiler.LineProfiler(), line_profiler.LineProfiler()

        @p2
        def g():
            return 'fine'

        @p1
        def f():
            return g()
        return f()
    out['LineProfiler inside LineProfiler'] = scenario(two_line_profilers)

    def line_inside_cprofile():
        p = line_profiler.LineProfiler()

        @p
        def g():
            return 'fine'
        c = cProfile.Profile()
        c.enable()
        try:
            return g()
        finally:
            c.disable()
    out['LineProfiler-decorated call while cProfile is active'] = scenario(line_inside_cprofile)

    def line_inside_contextual():
        p = line_profiler.LineProfiler()
        c = kernprof.ContextualProfile()

        @p
        def g():
            return 'fine'

        @c
        def f():
            return g()
        return f()
    out['LineProfiler-decorated call inside a ContextualProfile-decorated one'] = scenario(line_inside_contextual)

    def line_with_block_then_other():
        p1, p2 = line_profiler.LineProfiler(), line_profiler.LineProfiler()

        @p2
        def g():
            return 'fine'
        with p1:
            r = g()
        return r
    out['LineProfiler-decorated call inside `with other_line_profiler:`'] = scenario(line_with_block_then_other)

    def gen_interleaved():
        p1, p2 = line_profiler.LineProfiler(), line_profiler.LineProfiler()

        @p1
        def g1():
            yield 1
            yield 2

        @p2
        def g2():
            yield 10
            yield 20
        a, b = g1(), g2()
        got = [next(a), next(b), next(a), next(b)]
        return 'fine' if got == [1, 10, 2, 20] else got
    out['generators of two LineProfilers interleaved'] = scenario(gen_interleaved)

    def contextual_inside_line():
        p = line_profiler.LineProfiler()
        c = kernprof.ContextualProfile()

        @c
        def g():
            return 'fine'

        @p
        def f():
            return g()
        return f()
    name = 'ContextualProfile-decorated call inside a LineProfiler-decorated one'
    out[name] = scenario(contextual_inside_line)
    classes[name] = 'F-C03e'

    def contextual_after_worker_thread():
        import threading
        p = line_profiler.LineProfiler()
        c = kernprof.ContextualProfile()

        @p
        def in_thread():
            return 1

        @c
        def g():
            return 'fine'
        t = threading.Thread(target=in_thread)
        t.start()
        t.join()
        return g()
    out['ContextualProfile-decorated call after a LineProfiler-decorated call finished in a worker thread'] = scenario(contextual_after_worker_thread)

    # ---- keyword arguments: "same results and raised exceptions for all arguments" includes every keyword name, in particular the names the
    # wrappers use for their own parameters and locals (collected from the code objects of the profiler classes, so new helpers are covered)
    import functools
    import inspect
    import types

    def own_names():
        names = set()
        for cls in (line_profiler.LineProfiler, kernprof.ContextualProfile) + line_profiler.LineProfiler.__mro__[1:] + kernprof.ContextualProfile.__mro__[1:]:
            for v in vars(cls).values():
                f = getattr(v, '__func__', v)
                todo = [f.__code__] if isinstance(f, types.FunctionType) else []
                while todo:
                    c = todo.pop()
                    names.update(c.co_varnames)
                    names.update(c.co_freevars)
                    todo += [k for k in c.co_consts if isinstance(k, types.CodeType)]
        return sorted(n for n in names if n.isidentifier()) + ['x', 'n']

    def drive(obj):
        if inspect.isgenerator(obj):
            return ['gen'] + list(obj)
        if inspect.iscoroutine(obj):
            try:
                obj.send(None)
            except StopIteration as e:
                return ['coro', e.value]
        if inspect.isasyncgen(obj):
            items = []
            while True:
                try:
                    obj.asend(None).send(None)
                except StopIteration as e:
                    items.append(e.value)
                except StopAsyncIteration:
                    return ['agen'] + items
        return obj

    def outcome(fn, *a, **kw):
        try:
            return ('ok', repr(drive(fn(*a, **kw))))
        except Exception as e:   # noqa
            return ('exc', type(e).__name__, str(e))

    def shapes():
        def plain(*a, **kw):
            return ('plain', a, sorted(kw.items()))

        def gen(*a, **kw):
            yield ('gen', a, sorted(kw.items()))

        async def coro(*a, **kw):
            return ('coro', a, sorted(kw.items()))

        async def agen(*a, **kw):
            yield ('agen', a, sorted(kw.items()))

        def fixed(x, n=0):                       # a signature that rejects most keywords: the TypeError must be the function's own
            return ('fixed', x, n)
        return {'function': plain, 'generator function': gen, 'coroutine function': coro, 'async generator function': agen, 'fixed signature': fixed,
                'partial': functools.partial(plain, 7), 'staticmethod': staticmethod(plain), 'classmethod': classmethod(plain)}

    def kw_transparency(pkind):
        bad = []
        names = own_names()
        for sname, orig in shapes().items():
            prof = line_profiler.LineProfiler() if pkind == 'line' else kernprof.ContextualProfile()
            wrapped = prof(orig)
            if isinstance(orig, (staticmethod, classmethod)):
                H0, H1 = type('H', (), {'m': orig}), type('H', (), {'m': wrapped})
                c0, c1 = H0.m, H1.m
            else:
                c0, c1 = orig, wrapped
            for nm in names:
                a, b = outcome(c0, 1, **{nm: 2}), outcome(c1, 1, **{nm: 2})
                if a != b:
                    bad.append('%s called with (1, %s=2): undecorated %r, decorated %r' % (sname, nm, a, b))
            if sname == 'function':
                for nm in names:
                    a, b = outcome(orig, 1, **{nm: 2}), outcome(prof.runcall, orig, 1, **{nm: 2})
                    if a != b:
                        bad.append('runcall(f, 1, %s=2): direct %r, runcall %r' % (nm, a, b))
        return 'fine' if not bad else '%d keyword names mishandled, e.g. %s' % (len(bad), '; '.join(bad[:3]))
    def meta_transparency(pkind):
        # what a caller can read off the callable: names, docstring, module, signature, attributes of its own — also when they live in the
        # instance dict of a partial object (functools.update_wrapper on a partial, attributes assigned by hand)
        import inspect
        sh = {k: v for k, v in shapes().items() if not isinstance(v, (staticmethod, classmethod))}
        pm = functools.partial(sh['fixed signature'], n=2)
        functools.update_wrapper(pm, sh['fixed signature'])
        pm.__name__, pm.__doc__, pm.tag = 'square', 'doc of square', 'kept'
        sh['partial carrying metadata of its own'] = pm

        def meta(o):
            d = {k: repr(getattr(o, k, '<absent>')) for k in ('__name__', '__qualname__', '__doc__', '__module__', 'tag')}
            try:
                d['signature'] = str(inspect.signature(o))
            except Exception as e:   # noqa
                d['signature'] = 'EXC ' + type(e).__name__
            return d
        bad = []
        for sname, orig in sh.items():
            prof = line_profiler.LineProfiler() if pkind == 'line' else kernprof.ContextualProfile()
            before = meta(orig)
            after = meta(prof(orig))
            if before != after:
                bad.append('%s: %s' % (sname, {k: (before[k], after[k]) for k in before if before[k] != after[k]}))
        return 'fine' if not bad else '; '.join(bad[:3])
    out['names, docstring, signature and attributes of a LineProfiler-decorated callable are those of the original'] = scenario(lambda: meta_transparency('line'))
    out['names, docstring, signature and attributes of a ContextualProfile-decorated callable are those of the original'] = scenario(lambda: meta_transparency('ctx'))
    out['keyword arguments of every name reach a LineProfiler-decorated callable'] = scenario(lambda: kw_transparency('line'))
    out['keyword arguments of every name reach a ContextualProfile-decorated callable'] = scenario(lambda: kw_transparency('ctx'))
    out['keyword names tried'] = 'ok' if len(own_names()) > 20 else 'too few names collected: %s' % own_names()
    # leave no tool id behind
    import sys as _s
    out['tool id free afterwards'] = 'ok' if _s.monitoring.get_tool(_s.monitoring.PROFILER_ID) is None else 'tool id still held'
    sys.stdout.write('\n{"lpverif": %s}\n' % json.dumps({'scenarios': out, 'classes': classes}))


main()
