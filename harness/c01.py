"""C01 — per-line hit counts are exact.  Proof: Props/C01.lean; tie: K01 (model vs real on recorded
traces of generated programs); oracle: count of the interpreter's own line events."""
import json
import os

import corelib
import progs
from common import ROOT

LEVEL = 'proof'
NONTRIVIAL_FEATS = {'loop', 'exception', 'yield', 'generator-driven', 'recursion', 'await', 'coroutine-driven', 'with'}


def make_case(rng, twins_both=True):
    r0 = rng.fork('renable')
    o = {}
    if r0.chance(1, 3):
        o['renable'] = True
    if r0.chance(1, 3):
        o['snaps'] = True            # statistics read (get_stats / print_stats / dump_stats in turn) from inside running profiled code
    prog = progs.gen_program(rng, opts=o or None)
    names = [n for (_f, n, _k) in prog['funcs']]
    twin = [n for n in names if n.endswith('t')]
    k = rng.below(len(names)) + 1
    reg = rng.sample(names, k)
    if twin:
        t = twin[0]
        base = t[:-1]
        # C01 keeps clear of the aliasing finding F-C04a (checked by C04): twins are registered together
        if (t in reg) != (base in reg):
            reg = [n for n in reg if n not in (t, base)] + ([t, base] if rng.chance(1, 2) else [])
    reg = sorted(set(reg), key=names.index)
    if not reg:
        reg = [names[0]] + ([names[0] + 't'] if names[0] + 't' in names else [])
    mode = rng.choice(['window', 'window', 'decorate', 'with'])
    args = [rng.below(7) for _ in range(rng.below(2) + 1)]
    steps = []
    if mode == 'decorate':
        steps += [['decorate', n] for n in reg]
        steps += [['call', a] for a in args]
    elif mode == 'with':
        steps += [['add', n] for n in reg]
        steps += [['with_call', a] for a in args]
    else:
        r3 = rng.fork('late')
        late = []
        if r3.chance(1, 4) and len(reg) > 1:
            # some functions are registered only after they have already run (unregistered) inside the open window, then run again
            late = [n for n in r3.sample(reg, r3.below(len(reg) - 1) + 1)]
            if twin:
                t, base = twin[0], twin[0][:-1]
                if (t in late) != (base in late):          # byte-identical twins stay together (F-C04a is C04's subject)
                    late = [n for n in late if n not in (t, base)]
        steps += [['add', n] for n in reg if n not in late]
        steps.append(['enbc'])
        steps += [['call', a] for a in args]
        if late:
            steps += [['add', n] for n in late]
            steps += [['call', a] for a in args]
        steps.append(['disbc'])
        r2 = rng.fork('again')
        if r2.chance(1, 4):
            # some functions are registered a second time after they ran (their code object is swapped for a padded copy), then run again
            steps += [['add', n] for n in r2.sample(reg, r2.below(min(2, len(reg))) + 1)]
            steps += [['enbc'], ['call', args[0]], ['disbc']]
    steps.append(['snapshot'])
    return {'prog': prog, 'steps': steps, 'mode': mode, 'registered': reg}


def oracle_check(r):
    """independent statement of C01 on the real result: final snapshot == the interpreter's own line events"""
    real = corelib.parse_stats(r['real_snaps'][-1])
    real = {k: {l: h for l, (h, _t) in v.items()} for k, v in real.items()}
    orc = {}
    for key, n in r['oracle'].items():
        lab, line = map(int, key.split(':'))
        if n:
            orc.setdefault(lab, {})[line] = n
    if real == orc:
        return None
    det = []
    for k in sorted(set(real) | set(orc)):
        for l in sorted(set(real.get(k, {})) | set(orc.get(k, {}))):
            a, b = real.get(k, {}).get(l), orc.get(k, {}).get(l)
            if a != b:
                det.append({'label': r['labels'].get(str(k)), 'line': l, 'reported_hits': a, 'line_events': b})
    return det


def run(ctx, ncases=None):
    ok = ctx.prove('LPVerif.Props.C01', 'LPVerif/Props/C01.lean')
    build = ctx.build()
    n = ncases or (300 if ctx.quick else 8000)
    if ctx.broken:
        n *= 4   # a proof / bridge / driver obligation broke: widen the search for a failing input
    cases = []
    corpus_dir = os.path.join(ROOT, 'corpus', 'C01')
    if os.path.isdir(corpus_dir):
        for f in sorted(os.listdir(corpus_dir)):
            cases.append(json.load(open(os.path.join(corpus_dir, f))))
    # a copied module: the same function text under the same name on the same lines of two files, both registered (function by function and
    # through add_module, the way `kernprof -p` / `%lprun -m` register) — each copy reports its own executions
    import c04
    cases += [c04.same_name_twins_case(False, 3), c04.same_name_twins_case(True, 5), c04.shared_line_case(2)]
    ncorpus = len(cases)
    for i in range(n):
        cases.append(make_case(ctx.rng.fork('case%d' % i)))
    ctx.log('running %d cases (%d from corpus) on the real code' % (len(cases), ncorpus))
    results = corelib.run_real(build, cases)
    if getattr(ctx, 'driver_ok', True):
        corelib.run_model(results)
    feats, modes = {}, {}
    nontrivial = set()
    kdiff = 0
    oracle_run = 0
    acct_checked = 0
    nevents = 0
    for case, r in zip(cases, results):
        if 'error' in r:
            ctx.broken.append(('harness', r['error'][-1500:]))
            continue
        nevents += r['nevents']
        for f in case['prog']['features']:
            feats[f] = feats.get(f, 0) + 1
        modes[case.get('mode', '?')] = modes.get(case.get('mode', '?'), 0) + 1
        if r['collision']:
            ctx.assumptions.append('NoCollision violated on a concrete run (case skipped)')
            continue
        # oracle first: it alone decides whether the real code violates the property
        det = None
        if not r['midflight_disable']:
            oracle_run += 1
            det = oracle_check(r)
            if det:
                # the only recorded way this fails on the unchanged tree: unregistered code the callback cannot tell from a registered
                # function (byte-identical, on one of its line numbers: F-C04a) — accepted only when the excess is exactly that code's events
                import c04
                nwin = sum(1 for st in case['steps'] if st[0] == 'disbc') + sum(1 for st in case['steps'] if st[0] == 'with_call')
                status, _ = c04.oracle(r, max(nwin, 1))
                ctx.fail('reported hits differ from the interpreter\'s own line events',
                         {'finding_class': 'F-C04a' if status == 'alias' else None, 'case': case, 'differences': det[:20]})
        if getattr(ctx, 'driver_ok', True) and not r['midflight_disable']:
            # the right-hand side of C01.reported_hits_exact (LINE events the model delivers to the callback, per label and line) against the
            # interpreter's own line events counted by the recorder (plus those of indistinguishable unregistered code, F-C04a)
            acct = [x for x in r.get('model_out', []) if x.startswith('acct')]
            if acct:
                a = corelib.parse_acct(acct[-1])
                want = {}
                for src in (r['oracle'], r['alias']):
                    for key, n in src.items():
                        lab, line = map(int, key.split(':'))
                        if n:
                            want[(lab, line)] = want.get((lab, line), 0) + n
                got = {k: v[0] for k, v in a.items() if v[0]}
                hyp = all(v[1] == 0 and v[2] == 0 for v in a.values())
                acct_checked += 1 if hyp else 0
                if hyp and got != want:
                    ks = sorted(set(got) | set(want))
                    ctx.broken.append(('K01 correspondence (delivered events)', 'model delivered %s, interpreter %s; case=%s' % (
                        [(k, got.get(k)) for k in ks if got.get(k) != want.get(k)][:6], [(k, want.get(k)) for k in ks if got.get(k) != want.get(k)][:6], corelib.case_digest(case))))
        if getattr(ctx, 'driver_ok', True):
            diffs = corelib.compare_case(r)
            if diffs:
                kdiff += 1
                if not det:
                    ctx.broken.append(('K01 correspondence', '; '.join(diffs)[:800] + ' case=' + corelib.case_digest(case)))
                    ctx.write_replay({'property': 'C01', 'kind': 'correspondence-disagreement', 'case': case, 'diffs': diffs})
        lines_per_label = {}
        for key, cnt in r['oracle'].items():
            lab = key.split(':')[0]
            lines_per_label[lab] = lines_per_label.get(lab, 0) + (1 if cnt else 0)
        if any(v >= 2 for v in lines_per_label.values()) and NONTRIVIAL_FEATS & set(case['prog']['features']):
            nontrivial.add(corelib.case_digest(case))
    cov = ctx.coverage
    cov.update({
        'evaluations': len(cases), 'distinct_nontrivial': len(nontrivial),
        'rule': 'G_prog programs (harness/progs.py) x registered subset x mode {window, decorate, with} x 1-2 arguments, from VERIF_SEED; '
                'non-trivial = some registered function executes >= 2 distinct lines and the program contains a loop, exception, with, '
                'generator/coroutine suspension or recursion; distinct by sha256 of the case',
        'traces_validated_against_impl': len(cases) - kdiff,
        'correspondence_disagreements': kdiff, 'oracle_checked': oracle_run, 'delivered_events_checked_with_theorem_hypotheses': acct_checked,
        'trace_events_total': nevents, 'feature_distribution': feats, 'mode_distribution': modes,
        'corpus_cases': ncorpus,
    })
    if cases:
        s = cases[-1]
        cov['samples'].append({'registered': s['registered'], 'mode': s['mode'], 'steps': s['steps'],
                               'program_main_file': s['prog']['files'][1][1][:1500],
                               'real_final_snapshot': results[-1].get('real_snaps', ['?'])[-1][:400],
                               'ops_head': results[-1].get('ops', [])[:12]})
    ctx.assumptions += ['NoCollision: hash(co_code) XOR line is injective on the (bytes, line) pairs in play (checked on every run\'s concrete hashes)',
                        'the sys.settrace recording of run A predicts the C callback\'s events in run B (checked: model(run A) = real(run B))',
                        'a line in flight when the profiler is disabled is dropped by design (oracle skipped for those cases; K still compares)']
    return ctx.finish('Lean theorems hits_exact / hits_invariant / unexecuted_absent hold for every event list; K01 ties the executable model '
                      'to the real callback + get_stats on recorded traces; the oracle compares real reports with the interpreter\'s own line events')


def replay(ctx, path):
    data = json.load(open(path))
    case = data.get('witness', data).get('case') or data.get('case')
    build = ctx.build()
    results = corelib.run_real(build, [case])
    corelib.run_model(results)
    r = results[0]
    print(json.dumps({'diffs': corelib.compare_case(r), 'oracle': oracle_check(r)}, indent=1))
    return 0
