"""Generator of programs for the auto-profiling properties (C08, C09): a script (or a package module for -m) with every kind of
definition and import style, plus helper modules.  Deterministic output, no ids / addresses / times printed."""

HELPER = '''\
def hf(x):
    return x + 1


def hg(x):
    y = x * 2
    return y


class HK:
    def hm(self, x):
        return x - 1

    @staticmethod
    def hs(x):
        return x + 10


def _private(x):
    return x


class _Loud:
    # a class-level computed attribute: evaluating it is visible (registration must not touch it)
    def __get__(self, obj, cls):
        print('HD.loud evaluated')
        return 1


class HD:
    loud = _Loud()

    def hm2(self, x):
        return x + 2
'''
OTHER = '''\
def of(x):
    return x + 100


def og(x):
    return of(x) + 1
'''
# importing these modules is observable, and what they show depends on what the program did before it imported them: a selection must not get
# them imported earlier than the program does
IMPORT_TRACE = 'import os as _o\nprint("%s imported; mode", _o.environ.get("LPV_MODE", "unset"))\n'
PKG_INIT = 'from .sib import sf\nPKGCONST = 5\n' + IMPORT_TRACE % 'pkgk'
PKG_SIB = 'def sf(x):\n    return x + 7\n\n\ndef sg(x):\n    return x * 3\n'
PKG_DEEP = 'def df(x):\n    return x + 1000\n'
PKG_DPKG = 'def dpf(x):\n    return x + 5000\n'

IMPORT_STYLES = [
    ('import helper', 'helper.hf(1)'),
    ('import helper as hp', 'hp.hg(2)'),
    ('from helper import hf', 'hf(3)'),
    ('from helper import hf as h2, hg', 'h2(4) + hg(5)'),
    ('from helper import HK', 'HK().hm(6)'),
    ('from helper import HD', 'HD().hm2(6)'),
    ('from helper import *', 'hf(7) + hg(8)'),
    ('import other', 'other.of(1)'),
    ('from other import og', 'og(2)'),
    ('import pkgk', 'pkgk.sf(1)'),
    ('import pkgk.sib', 'pkgk.sib.sg(2)'),
    ('import pkgk.sib as ps', 'ps.sg(3)'),
    ('from pkgk import sib', 'sib.sf(4)'),
    ('from pkgk.sib import sg', 'sg(5)'),
    ('from pkgk.sub import deep', 'deep.df(6)'),
    ('from pkgk.sub.deep import df', 'df(7)'),
    ('from pkgk.sub import dpkg', 'dpkg.dpf(8)'),
    ('import os.path', 'os.path.basename("a/b")'),
    ('import json as js', 'js.dumps([1])'),
    ('import helper, other as oth2', 'helper.hg(1) + oth2.of(1)'),      # statements binding several names, some of them bound before
    ('from helper import hf, HK as HKx', 'hf(1) + HKx().hm(1)'),
    ('from os import getcwd', 'bool(getcwd())'),            # callables implemented in C, imported by name
    ('from math import sqrt as root', 'root(4.0)'),
]
FUTURES = ['from __future__ import annotations', 'from __future__ import division', 'from __future__ import generator_stop']

DEFS = [
    ('def plain(n):\n    total = 0\n    for i in range(n):\n        total += i\n    return total\n', 'plain(4)'),
    ('def outer(k):\n    def inner(j):\n        return j * 2\n    return inner(k) + 1\n', 'outer(3)'),
    ('def gen(n):\n    for i in range(n):\n        yield i\n    return "done"\n\n\ndef drive(n):\n    r = yield from gen(n)\n    yield r\n', 'list(drive(2))'),
    ('async def co(n):\n    return n + 1\n', 'asyncio.run(co(5))'),
    ('class C:\n    def m(self, a, *, kw=1):\n        return a + kw\n\n    @staticmethod\n    def s(a):\n        return a * 3\n\n'
     '    @classmethod\n    def c(cls, a):\n        return cls.s(a) + 1\n\n    @property\n    def p(self):\n        return 42\n',
     '(C().m(1, kw=2), C.s(2), C.c(3), C().p)'),
    ('@functools.lru_cache(maxsize=None)\ndef cached(n):\n    return n * n\n', '(cached(3), cached(3))'),
    ('def with_import(n):\n    import helper as inner_helper\n    from other import of as inner_of\n    return inner_helper.hf(n) + inner_of(n)\n', 'with_import(1)'),
    ('def raises(n):\n    if n:\n        raise ValueError("x%d" % n)\n    return 0\n\n\ndef catcher():\n    try:\n        return raises(1)\n    except ValueError as e:\n        return str(e)\n', 'catcher()'),
    ('def kwonly(a, /, b, *args, c=3, **kw):\n    return (a, b, args, c, sorted(kw))\n', 'kwonly(1, 2, 3, c=4, z=5)'),
    ('lam = lambda q: q + 1\n', 'lam(1)'),
    # behaviour that depends on how the program is compiled (annotations evaluated at definition time)
    ('def annotated(value: float, times: int = 2) -> float:\n    return value * times\n', '(annotated(1.5), annotated.__annotations__["value"] is float, sorted(annotated.__annotations__))'),
    ('def meta(n):\n    """doc of meta"""\n    return n\n', '(meta.__name__, meta.__doc__, str(inspect.signature(meta)), inspect.isgeneratorfunction(gen) if "gen" in globals() else None)'),
    ('try:\n    import helper as guarded\nexcept ImportError:\n    guarded = None\n', 'guarded.hg(2) if guarded else None'),
    ('if True:\n    from other import of as cond_of\n', 'cond_of(3)'),
    # imports in branches that do not run (typing-only imports, switched-off optional dependencies): the names stay unbound
    ('TYPE_CHECKING = False\nif TYPE_CHECKING:\n    from helper import HK as TypeOnly\n    import other as typed_other\n', '"TypeOnly" in globals() or "typed_other" in globals()'),
    ('if _os0.environ.get("LPV_NO_SUCH_SWITCH"):\n    import pkgk.sib as fast_impl\nelse:\n    fast_impl = None\n', 'fast_impl is None'),
]
PRELUDE = 'import asyncio\nimport functools\nimport inspect\ntry:\n    profile\nexcept NameError:\n    def profile(f):\n        return f\n'


def gen_program(rng, module_mode=False, force_imports=None):
    futs = rng.sample(FUTURES, rng.below(3)) if rng.chance(1, 2) else []
    imps = rng.sample(IMPORT_STYLES, rng.below(5) + 1)
    if force_imports:
        imps = [i for i in IMPORT_STYLES if i[0] in force_imports]
        imps.sort(key=lambda i: force_imports.index(i[0]))
    # a star import makes `hf`, `hg` … visible: keep the calls consistent by importing helper names only once per style
    defs = rng.sample(DEFS, rng.below(6) + 2)
    if not any(d[0].startswith('def gen(') for d in defs):
        defs = [d for d in defs if 'isgeneratorfunction' not in d[1]] or defs[:1]
    lines = list(futs) + ['import os as _os0', '_os0.environ["LPV_MODE"] = "set by the program"'] + PRELUDE.rstrip('\n').split('\n')
    exprs = []
    for st, ex in imps:
        lines.append(st)
        exprs.append(ex)
    if rng.chance(1, 3):
        if rng.fork('already').chance(1, 2):
            lines.append('@profile\ndef already(n):\n    return n + 2\n')
            exprs.append('already(1)')
        else:
            # an explicitly decorated function with definitions nested in it
            lines.append('@profile\ndef already(n):\n    def already_inner(j):\n        return j + 1\n\n    class Local:\n        def meth(self, a):\n'
                         '            return a * 2\n    return already_inner(n) + Local().meth(n)\n')
            exprs.append('already(1)')
    for src, ex in defs:
        lines.append('')
        lines.append(src.rstrip('\n'))
        exprs.append(ex)
    lines.append('')
    lines.append('')
    lines.append('if __name__ == "__main__":')
    # is this file's own directory on the import path?  (python <script>: yes; python -m pkg.mod: no — an entry more changes what absolute
    # imports find; how *often* it is there differs legitimately between `python x.py` and `python -m kernprof x.py` started in that directory)
    lines.append('    import os as _os, sys as _sys')
    lines.append('    print("own directory on sys.path:", any(_os.path.realpath(p or _os.getcwd()) == _os.path.dirname(_os.path.realpath(__file__)) for p in _sys.path))')
    # the file name its code objects carry is the one the program knows itself by (own-frame filters of loggers / warning filters compare them)
    lines.append('    print("code objects carry __file__:", (lambda: 0).__code__.co_filename == __file__)')
    for ex in exprs:
        lines.append('    print(%r, repr(%s))' % (ex[:30], ex))
    text = '\n'.join(lines) + '\n'
    files = {'helper.py': HELPER + IMPORT_TRACE % 'helper', 'other.py': OTHER, 'pkgk/__init__.py': PKG_INIT, 'pkgk/sib.py': PKG_SIB, 'pkgk/sub/__init__.py': IMPORT_TRACE % 'pkgk.sub',
             'pkgk/sub/deep.py': PKG_DEEP, 'pkgk/sub/dpkg/__init__.py': PKG_DPKG}
    # directories that are no packages (data, documentation, caches) next to the sub-package, under names that sort and hash all over the place:
    # the walk of a selected package passes them by, whatever order the file system lists them in
    for extra in ('a_data', 'docs', 'm_res', 'tmp_x', 'zz_more', 'data', '__pycache__', 'Sub', 'su', 'subx'):
        files['pkgk/%s/notes.txt' % extra] = 'not python\n'
    # ... and a few more small sub-packages among them
    for extra in ('pa', 'pb', 'pc', 'pd', 'qe'):
        files['pkgk/%s/__init__.py' % extra] = ''
        files['pkgk/%s/m.py' % extra] = 'def mf_%s(x):\n    return x\n' % extra
    if module_mode:
        rel = ['from . import sib as rsib', 'from .sib import sg as rsg', 'from .sub import deep as rdeep', 'from .sub.deep import df as rdf']
        chosen = rng.sample(rel, rng.below(3) + 1)
        body = text.split('if __name__ == "__main__":')
        calls = {'rsib': 'rsib.sf(1)', 'rsg': 'rsg(2)', 'rdeep': 'rdeep.df(3)', 'rdf': 'rdf(4)'}
        extra = ''.join('    print(%r, repr(%s))\n' % (calls[c.split(' as ')[1]], calls[c.split(' as ')[1]]) for c in chosen)
        # relative imports go after the __future__ lines
        head = '\n'.join(futs) + ('\n' if futs else '') + '\n'.join(chosen) + '\n'
        rest = body[0][len('\n'.join(futs)) + (1 if futs else 0):]
        text = head + rest + 'if __name__ == "__main__":' + body[1] + extra
        files['pkgk/runme.py'] = text
        return {'files': files, 'script': 'pkgk/runme.py', 'module': 'pkgk.runme', 'imports': [i[0] for i in imps], 'relative': chosen}
    files['prog.py'] = text
    return {'files': files, 'script': 'prog.py', 'module': None, 'imports': [i[0] for i in imps], 'relative': []}
