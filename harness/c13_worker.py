"""Worker for C13 (threads part): free-running threads sharing profiled code; expected counts come from
running each thread's deterministic work alone, sequentially."""
import json
import sys
import threading
import time

import line_profiler

SRC = '''
def work(n, sl):
    acc = 0
    for i in range(n):
        if i % 3 == 0:
            acc += helper(i)
        else:
            acc -= 1
        if sl and i % sl == 0:
            pause()
    return acc

def helper(x):
    y = x * 2
    return y + 1

def gen(n):
    for i in range(n):
        yield i * 2
'''


def load(pause):
    ns = {'pause': pause}
    exec(compile(SRC, 'c13_prog.py', 'exec'), ns)
    return ns


def stats_of(p):
    out = {}
    for (fn, ln, name), entries in p.get_stats().timings.items():
        for (l, h, t) in entries:
            out['%s:%d' % (name, l)] = h
    return out


def sequential(jobs):
    """oracle: each enabled job alone, one after the other, single thread"""
    ns = load(lambda: None)
    p = line_profiler.LineProfiler()
    p.add_function(ns['work'])
    p.add_function(ns['helper'])
    for (n, sl, enabled) in jobs:
        if enabled:
            p.enable_by_count()
            try:
                ns['work'](n, sl)
            finally:
                p.disable_by_count()
    return stats_of(p)


def threaded(jobs, interval, decorate):
    ns = load(lambda: time.sleep(0))
    p = line_profiler.LineProfiler()
    if decorate:
        w = p(ns['work'])
        p.add_function(ns['helper'])
    else:
        p.add_function(ns['work'])
        p.add_function(ns['helper'])
        w = ns['work']
    counts = {}
    errors = []
    start = threading.Barrier(len(jobs))

    def body(k, n, sl, enabled):
        try:
            start.wait()
            if enabled and not decorate:
                p.enable_by_count()
                try:
                    w(n, sl)
                finally:
                    p.disable_by_count()
            elif enabled:
                w(n, sl)
            else:
                ns['work'](n, sl)        # silent thread: same code, never enables
            counts[k] = p.enable_count
        except BaseException as e:   # noqa
            errors.append(repr(e))
    old = sys.getswitchinterval()
    sys.setswitchinterval(interval)
    try:
        ths = [threading.Thread(target=body, args=(k, n, sl, en)) for k, (n, sl, en) in enumerate(jobs)]
        for t in ths:
            t.start()
        for t in ths:
            t.join()
    finally:
        sys.setswitchinterval(old)
    return stats_of(p), counts, errors, p.enable_count


def main():
    payload = json.load(sys.stdin)
    out = []
    for case in payload['cases']:
        jobs = case['jobs']
        try:
            exp = sequential(jobs)
            got, counts, errors, main_count = threaded(jobs, case['interval'], case.get('decorate', False))
            out.append({'expected': exp, 'got': got, 'counts': counts, 'errors': errors, 'main_count': main_count})
        except Exception:
            import traceback
            out.append({'error': traceback.format_exc()})
    sys.stdout.write('\n{"lpverif": %s}\n' % json.dumps({'results': out}))


if __name__ == '__main__':
    main()
