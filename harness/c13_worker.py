"""Worker for C13 (threads part): free-running threads sharing profiled code; expected counts come from
running each thread's deterministic work alone, sequentially."""
import json
import sys
import threading
import time

import line_profiler

SRC = '''
def work(n, sl):
    acc = 0
    for i in range(n):
        if i % 3 == 0:
            acc += helper(i)
        else:
            acc -= 1
        if sl and i % sl == 0:
            pause()
    return acc

def helper(x):
    y = x * 2
    return y + 1

def gen(n):
    for i in range(n):
        yield i * 2
'''


def load(pause):
    ns = {'pause': pause}
    exec(compile(SRC, 'c13_prog.py', 'exec'), ns)
    return ns


def stats_of(p):
    out = {}
    for (fn, ln, name), entries in p.get_stats().timings.items():
        for (l, h, t) in entries:
            out['%s:%d' % (name, l)] = h
    return out


def sequential(jobs, warm=False):
    """oracle: each enabled job alone, one after the other, single thread"""
    ns = load(lambda: None)
    p = line_profiler.LineProfiler()
    p.add_function(ns['work'])
    p.add_function(ns['helper'])
    for (n, sl, enabled) in jobs:
        if enabled:
            for m in ([1, n] if warm else [n]):
                p.enable_by_count()
                try:
                    ns['work'](m, sl)
                finally:
                    p.disable_by_count()
    return stats_of(p)


def threaded(jobs, interval, decorate, warm=False):
    ns = load(lambda: time.sleep(0))
    p = line_profiler.LineProfiler()
    if decorate:
        w = p(ns['work'])
        p.add_function(ns['helper'])
    else:
        p.add_function(ns['work'])
        p.add_function(ns['helper'])
        w = ns['work']
    counts = {}
    errors = []
    start = threading.Barrier(len(jobs))
    warm_lock = threading.Lock()

    def body(k, n, sl, enabled):
        try:
            if warm and enabled:
                # long-lived (pool) threads: each has used the profiler before, one after the other, when the overlapping work starts
                with warm_lock:
                    if decorate:
                        w(1, sl)
                    else:
                        p.enable_by_count()
                        try:
                            w(1, sl)
                        finally:
                            p.disable_by_count()
            start.wait()
            if enabled and not decorate:
                p.enable_by_count()
                try:
                    w(n, sl)
                finally:
                    p.disable_by_count()
            elif enabled:
                w(n, sl)
            else:
                ns['work'](n, sl)        # silent thread: same code, never enables
            counts[k] = p.enable_count
        except BaseException as e:   # noqa
            errors.append(repr(e))
    old = sys.getswitchinterval()
    sys.setswitchinterval(interval)
    try:
        ths = [threading.Thread(target=body, args=(k, n, sl, en)) for k, (n, sl, en) in enumerate(jobs)]
        for t in ths:
            t.start()
        for t in ths:
            t.join()
    finally:
        sys.setswitchinterval(old)
    return stats_of(p), counts, errors, p.enable_count


ASRC = '''
import asyncio

async def awork(n):
    acc = 0
    for i in range(n):
        acc += i
        await asyncio.sleep(0)
    return acc

def swork(n):
    t = 0
    for i in range(n):
        t += i
    return t

async def via_thread(n):
    r = await asyncio.to_thread(wrapped_swork, n)
    return r + 1

async def agen(n):
    for i in range(n):
        await asyncio.sleep(0)          # the step is suspended inside its window: other tasks run meanwhile
        j = i + 0
        yield j

async def consume(n):
    out = []
    async for v in wrapped_agen(n):
        out.append(v)
        await asyncio.sleep(0)          # the consumer pauses outside every window
    return out
'''


def aio(sizes, to_thread):
    """asyncio tasks (each runs in a copy of the context) of decorated coroutines interleaving on one thread, optionally a decorated function run in a
    worker thread with the caller's context (asyncio.to_thread): expected = each piece alone"""
    import asyncio

    def fresh():
        ns = {}
        exec(compile(ASRC, 'c13_aio.py', 'exec'), ns)
        p = line_profiler.LineProfiler()
        ns['wrapped_awork'] = p(ns['awork'])
        ns['wrapped_swork'] = p(ns['swork'])
        ns['wrapped_via'] = p(ns['via_thread'])
        ns['wrapped_agen'] = p(ns['agen'])
        return ns, p
    # oracle: one piece after the other, each in an event loop of its own
    ns, p = fresh()
    for n in sizes:
        asyncio.run(ns['wrapped_awork'](n))
    for n in sizes:
        asyncio.run(ns['consume'](n))
    if to_thread:
        asyncio.run(ns['wrapped_via'](to_thread))
    exp = stats_of(p)
    ns, p = fresh()
    errors = []

    async def main():
        coros = [c for n in sizes for c in (ns['wrapped_awork'](n), ns['consume'](n))]
        if to_thread:
            coros.append(ns['wrapped_via'](to_thread))
        res = await asyncio.gather(*coros, return_exceptions=True)
        errors.extend(repr(r) for r in res if isinstance(r, BaseException))
    asyncio.run(main())
    return exp, stats_of(p), {0: p.enable_count}, errors, p.enable_count


WSRC = '''
def step(x):
    y = x + 1
    return y

def task(prof, n, fail_at):
    with prof:
        for i in range(n):
            step(i)
            if i == fail_at:
                raise ValueError("task fails inside its window")
            yield i
'''


def withblocks(specs, order):
    """step-wise driven tasks that each hold a `with prof:` window across their suspension points; some leave the window by an exception while
    windows of other tasks are still open: expected = each task alone"""
    def fresh():
        ns = {}
        exec(compile(WSRC, 'c13_with.py', 'exec'), ns)
        p = line_profiler.LineProfiler()
        p.add_function(ns['step'])
        return ns, p

    def drive(ns, p, which):
        tasks = {k: ns['task'](p, n, f) for k, (n, f) in enumerate(specs) if k in which}
        for k in order:
            t = tasks.get(k)
            if t is None:
                continue
            try:
                next(t)
            except (StopIteration, ValueError):
                tasks[k] = None
    exp = {}
    for k in range(len(specs)):
        ns, p = fresh()
        drive(ns, p, {k})
        for key, h in stats_of(p).items():
            exp[key] = exp.get(key, 0) + h
    ns, p = fresh()
    drive(ns, p, set(range(len(specs))))
    return exp, stats_of(p), {0: p.enable_count}, [], p.enable_count


def main():
    payload = json.load(sys.stdin)
    out = []
    for case in payload['cases']:
        jobs = case.get('jobs')
        try:
            if case.get('withblocks'):
                exp, got, counts, errors, main_count = withblocks(case['withblocks'], case['order'])
                out.append({'expected': exp, 'got': got, 'counts': counts, 'errors': errors, 'main_count': main_count})
                continue
            if case.get('aio'):
                exp, got, counts, errors, main_count = aio(case['aio'], case.get('to_thread', 0))
                out.append({'expected': exp, 'got': got, 'counts': counts, 'errors': errors, 'main_count': main_count})
                continue
            exp = sequential(jobs, case.get('warm', False))
            got, counts, errors, main_count = threaded(jobs, case['interval'], case.get('decorate', False), case.get('warm', False))
            out.append({'expected': exp, 'got': got, 'counts': counts, 'errors': errors, 'main_count': main_count})
        except Exception:
            import traceback
            out.append({'error': traceback.format_exc()})
    sys.stdout.write('\n{"lpverif": %s}\n' % json.dumps({'results': out}))


if __name__ == '__main__':
    main()
