"""Worker for the two-thread scenarios of C02: one thread's outermost profiled scope ends while another thread is in the middle of a
profiled line.  Virtual clock, delta 0: the clock moves only by the explicit ticks, the hand-over between the threads is by events, so
the order of everything is fixed.  JSON in: {"cases": [{"ticks_main": int, "ticks_b": int, "how": "with"|"decorator"|"bycount", "quick_calls": int}]}"""
import json
import sys
import threading

import line_profiler
from core_worker import CLIB, code_lines

SRC = '''
def slow():
    a = 1
    handoff()
    return a


def quick():
    b = 2
    return b
'''


def run_case(c):
    p = line_profiler.LineProfiler()
    CLIB.verif_clock_set(0)
    CLIB.verif_clock_mode(1, 0)
    go_main, go_b = threading.Event(), threading.Event()

    def handoff():
        go_main.set()
        go_b.wait(30)
        CLIB.verif_clock_advance(c['ticks_b'])
    ns = {'handoff': handoff}
    exec(compile(SRC, 'threads_prog.py', 'exec'), ns)
    slow, quick = ns['slow'], ns['quick']
    p.add_function(slow)
    p.add_function(quick)
    out = {}

    def body():
        with p:
            out['slow'] = slow()
    th = threading.Thread(target=body)
    try:
        th.start()
        go_main.wait(30)
        for _ in range(c['quick_calls']):
            if c['how'] == 'with':
                with p:
                    quick()
            elif c['how'] == 'decorator':
                p.wrap_callable(quick)()
            else:
                p.enable_by_count()
                quick()
                p.disable_by_count()
        CLIB.verif_clock_advance(c['ticks_main'])
        go_b.set()
        th.join(30)
    finally:
        go_b.set()
        CLIB.verif_clock_mode(0, 0)
    st = p.get_stats().timings
    res = {}
    for (fn, first, name), entries in st.items():
        res[name] = [[l, h, t] for (l, h, t) in entries]
    return {'stats': res, 'lines': {'slow': code_lines(slow.__code__), 'quick': code_lines(quick.__code__)},
            'same_bytecode': slow.__code__.co_code == quick.__code__.co_code, 'alive': th.is_alive()}


def main():
    payload = json.load(sys.stdin)
    out = []
    for c in payload['cases']:
        try:
            out.append(run_case(c))
        except Exception:   # noqa
            import traceback
            out.append({'error': traceback.format_exc()})
    sys.stdout.write('\n{"lpverif": %s}\n' % json.dumps({'results': out}))


if __name__ == '__main__':
    main()
