"""Shared by C06 / C07 / C19: kernprof scenarios (programs that end in every way, in every run mode), what the dumped control
skeleton predicts for them, and closed-form expected hit counts."""
import concurrent.futures as cf
import os
import re

from common import run_worker, lean_driver, LEAN_DIR

NW = 8

PROG = '''\
import sys
try:
    profile
except NameError:
    def profile(f):
        return f


def crash(kind):
    if kind == 'exit':
        sys.exit(3)
    if kind == 'kbint':
        raise KeyboardInterrupt()
    if kind == 'error':
        raise ValueError('boom')


@profile
def work(n, crash_at, kind):
    total = 0
    for i in range(n):
        total += i
        if i == crash_at:
            crash(kind)
        total += 1
    return total


%(extra)s
print('started', sys.argv[1:])
work(%(n)d, %(k)d, %(kind)r)
print('finished')
'''
# offsets of the lines of work() relative to its `def` line (the decorator line is one above)
WORK_LINES = {'total0': 1, 'for': 2, 'add_i': 3, 'if': 4, 'crash': 5, 'add_1': 6, 'ret': 7}


def expected_hits(n, k, kind):
    """closed form: hits of every line of work(n, k, kind) up to the crash"""
    if kind == 'none' or k >= n or k < 0:
        # crash('none') is still called at iteration k, it just returns
        return {'total0': 1, 'for': n + 1, 'add_i': n, 'if': n, 'crash': 1 if 0 <= k < n else 0, 'add_1': n, 'ret': 1}
    return {'total0': 1, 'for': k + 1, 'add_i': k + 1, 'if': k + 1, 'crash': 1, 'add_1': k}


def prog_text(n, k, kind, extra=''):
    return PROG % {'n': n, 'k': k, 'kind': kind, 'extra': extra}


MODES = {
    # name: (kernprof options, line_by_line, builtin, module, prof_mod)
    'l': (['-l'], True, True, False, False),
    'lb': (['-l', '-b'], True, True, False, False),
    'b': (['-b'], False, True, False, False),
    'plain': ([], False, False, False, False),
    'lp': (['-l', '-p', 'prog.py'], True, True, False, True),
    'lm': (['-l', '-m'], True, True, True, False),
    'm': (['-m'], False, False, True, False),
    'bm': (['-b', '-m'], False, True, True, False),
    'lpm': (['-l', '-p', 'prog', '-m'], True, True, True, True),
}
KINDS = ['none', 'exit', 'kbint', 'error']


def scenario(mode, kind, n=4, k=2, extra_opts=(), script='prog.py', files=None, pre=None, extra_prog='', prog_args=()):
    opts, lbl, builtin, module, prof_mod = MODES[mode]
    fs = {'prog.py': prog_text(n, k, kind, extra_prog)}
    fs.update(files or {})
    if module:
        args = list(opts[:-1]) + list(extra_opts) + ['-m', 'prog'] + list(prog_args)
    else:
        args = list(opts) + list(extra_opts) + [script] + list(prog_args)
    return {'files': fs, 'runs': [{'args': args}], 'pre': pre or {},
            'meta': {'mode': mode, 'kind': kind, 'n': n, 'k': k, 'extra_opts': list(extra_opts), 'script': script, 'prog_args': list(prog_args)}}


_names_cache = {}


def skel_names():
    if 'n' not in _names_cache:
        _names_cache['n'] = lean_driver('skel', ['names'])[0].split(' @@ ')
    return _names_cache['n']


def cond_ids(true_prefixes):
    names = skel_names()
    out = []
    for i, n in enumerate(names):
        if n.startswith('if: ') and any(n[4:] == p for p in true_prefixes):
            out.append(i)
    return out


def model_predict(meta, risks, skeleton='kernprofBody'):
    return model_predict_many([(meta, risks)], skeleton)[0]


def model_predict_many(items, skeleton='kernprofBody'):
    """what `exec` of the dumped skeleton gives for these options and these outcomes of the user-code leaves (one driver run)"""
    lines = [model_line(meta, risks, skeleton) for meta, risks in items]
    outs = lean_driver('skel', lines) if lines else []
    names = skel_names()
    res = []
    for out in outs:
        o, log, _k = [x.strip() for x in out.split('|')]
        res.append({'outcome': o, 'log': [names[int(i)] for i in log.split(',') if i]})
    return res


def model_line(meta, risks, skeleton):
    opts, lbl, builtin, module, prof_mod = MODES[meta['mode']]
    eo = meta.get('extra_opts', [])
    true = ['global_profiler']
    if module:
        true.append('module')
    if '-s' in eo:
        true.append('options.setup is not None')
    if lbl:
        true.append('options.line_by_line')
    if builtin or lbl:
        true.append('options.builtin')
    if '-i' in eo:
        true.append('options.output_interval')
    if prof_mod and lbl:
        true.append('options.prof_mod and options.line_by_line')
    if module and (builtin or lbl):
        true.append('module and options.builtin')
    if '-v' in eo:
        true.append('options.view')
    if not lbl:
        true.append('isinstance(prof, ContextualProfile)')
    return 'exec %s %s %s' % (skeleton, ','.join(map(str, cond_ids(true))) or '-', ','.join(risks) or '-')


def count(log, prefix):
    return sum(1 for n in log if n.startswith(prefix))


def run_real(build, scenarios):
    parts = [scenarios[i::NW] for i in range(NW)]
    with cf.ThreadPoolExecutor(max_workers=NW) as ex:
        futs = [ex.submit(run_worker, build, 'kp_worker.py', {'scenarios': p}, 900) for p in parts]
        outs = [f.result() for f in futs]
    res = [None] * len(scenarios)
    for i, o in enumerate(outs):
        for j, r in enumerate(o['results']):
            res[i + j * NW] = r
    return res


KIND_TO_EXC = {'none': 'none', 'exit': 'sysExit', 'kbint': 'kbInt', 'error': 'other'}
