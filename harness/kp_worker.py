"""Worker for C06 / C07 / C19: runs the real kernprof.main in-process inside scratch directories and reports what it
left behind.  JSON in: {"scenarios": [{"files": {rel: text}, "runs": [{"args": [...]}], "pre": {...}}]}."""
import builtins
import contextlib
import io
import json
import os
import pickle
import shutil
import sys
import tempfile
import threading
import time

import line_profiler
import kernprof


def snapshot():
    return {'argv_id': id(sys.argv), 'argv': list(sys.argv), 'path_id': id(sys.path), 'path': list(sys.path),
            'trace': sys.gettrace() is not None, 'tool': sys.monitoring.get_tool(sys.monitoring.PROFILER_ID),
            'profile_enabled': line_profiler.profile.enabled, 'profile_has_profiler': line_profiler.profile._profile is not None,
            'cwd': os.getcwd()}


def live_threads(grace=1.5):
    """non-main threads still alive after a grace period (a cancelled Timer thread ends at once)"""
    deadline = time.time() + grace
    while time.time() < deadline:
        alive = [t for t in threading.enumerate() if t is not threading.main_thread() and t.is_alive()]
        if not alive:
            return []
        time.sleep(0.02)
    return [type(t).__name__ for t in threading.enumerate() if t is not threading.main_thread() and t.is_alive()]


def load_outputs(d, before_files):
    out = {}
    for f in sorted(os.listdir(d)):
        p = os.path.join(d, f)
        if f in before_files or os.path.isdir(p):
            continue
        if f.endswith('.lprof'):
            try:
                st = line_profiler.load_stats(p)
                out[f] = {'kind': 'lprof', 'unit': st.unit,
                          'timings': {'%s:%s' % (os.path.basename(k[0]), k[2]): [[l - k[1], h] for (l, h, _t) in v] for k, v in st.timings.items()}}
            except Exception as e:   # noqa
                out[f] = {'kind': 'unloadable', 'error': repr(e)}
        elif f.endswith('.prof'):
            try:
                import pstats
                ps = pstats.Stats(p)
                out[f] = {'kind': 'pstats', 'functions': sorted({k[2] for k in ps.stats if k[0].startswith(d) or os.path.basename(k[0]).startswith('prog')})}
            except Exception as e:   # noqa
                out[f] = {'kind': 'unloadable', 'error': repr(e)}
        else:
            out[f] = {'kind': 'other'}
    return out


def run_scenario(sc):
    d = tempfile.mkdtemp(prefix='kp-', dir=os.environ.get('LPVERIF_SCRATCH', '/var/tmp'))
    old_cwd = os.getcwd()
    res = {'runs': []}
    saved_path_env = os.environ.get('PATH')
    try:
        for rel, text in sc['files'].items():
            p = os.path.join(d, rel)
            os.makedirs(os.path.dirname(p), exist_ok=True)
            with open(p, 'w') as fh:
                fh.write(text)
        os.chdir(d)
        if sc.get('path_env'):
            os.environ['PATH'] = os.pathsep.join(os.path.join(d, x) if x else x for x in sc['path_env']) + os.pathsep + (saved_path_env or '')
        pre = sc.get('pre', {})
        if pre.get('rebind_argv'):
            sys.argv = ['embedding-app', 'arg']         # the embedding application replaced sys.argv after importing kernprof
        if pre.get('rebind_path'):
            sys.path = list(sys.path)
        if pre.get('profile_state') == 'enabled':
            line_profiler.profile.enable()              # the embedding application uses the decorator itself
            import atexit
            atexit.unregister(line_profiler.profile.show)
        elif pre.get('profile_state') == 'disabled':
            line_profiler.profile.disable()
        for run in sc['runs']:
            for k in list(sys.modules):
                if k.startswith(('prog', 'pkgm', 'helper')):
                    del sys.modules[k]
            before = snapshot()
            before_files = set(os.listdir(d))
            out, err = io.StringIO(), io.StringIO()
            t0 = time.time()
            try:
                with contextlib.redirect_stdout(out), contextlib.redirect_stderr(err):
                    kernprof.main(list(run['args']))
                outcome = 'return'
            except SystemExit as e:
                outcome = 'SystemExit:%s' % (e.code,)
            except KeyboardInterrupt:
                outcome = 'KeyboardInterrupt'
            except BaseException as e:   # noqa
                outcome = 'Exception:%s' % type(e).__name__
            wall = time.time() - t0
            threads = live_threads()
            after = snapshot()
            r = {'outcome': outcome, 'stdout': out.getvalue()[-3000:], 'stderr': err.getvalue()[-1500:], 'wall': wall,
                 'threads_left': threads, 'before': before, 'after': after, 'outputs': load_outputs(d, before_files),
                 'builtins_profile': 'profile' in builtins.__dict__}
            # is the importable decorator usable and deciding for itself again?
            try:
                def probe(x):
                    return x + 1
                dec = line_profiler.profile(probe)
                r['profile_usable'] = 'same' if dec is probe else ('wrapped' if dec(1) == 2 else 'broken')
                r['profile_state_after_probe'] = [line_profiler.profile.enabled, line_profiler.profile._profile is not None]
            except BaseException as e:   # noqa
                r['profile_usable'] = 'EXC %s: %s' % (type(e).__name__, e)
            # reset what the probe decided (the probe itself is a use of the decorator)
            line_profiler.profile.enabled = before['profile_enabled']
            if not before['profile_has_profiler']:
                line_profiler.profile._profile = None
            builtins.__dict__.pop('profile', None)
            while sys.gettrace() is not None:
                sys.settrace(None)
            res['runs'].append(r)
    finally:
        os.chdir(old_cwd)
        if sc.get('pre', {}).get('profile_state'):
            line_profiler.profile.enabled = None
            line_profiler.profile._profile = None
        if saved_path_env is not None:
            os.environ['PATH'] = saved_path_env
        shutil.rmtree(d, ignore_errors=True)
    return res


def main():
    payload = json.load(sys.stdin)
    out = []
    for sc in payload['scenarios']:
        try:
            out.append(run_scenario(sc))
        except Exception:
            import traceback
            out.append({'error': traceback.format_exc()})
    sys.stdout.write('\n{"lpverif": %s}\n' % json.dumps({'results': out}))
    # CPython remembers a KeyboardInterrupt that ended an exec() of a *string* (kernprof's runctx in cProfile mode) and exits
    # with the SIGINT status at shutdown even though kernprof absorbed it; another exec of a string clears that flag
    exec('pass')


main()
