"""Shared by the C10 / C11 workers: inputs of the Lean layout model, rendered by CPython's own `%`."""
import inspect
import linecache
import os


def hx(s):
    return s.encode('utf-8').hex() or '-'


def model_lines(stats, unit, ou, o):
    """stats: {(path, first, name): [(line, hits, time), ...]} in dict order; o: dict of the four options"""
    lines = []
    scalar = unit / (ou if ou is not None else unit)
    for (path, first, name), entries in stats.items():
        total_time = sum(t[2] for t in entries)
        exists = os.path.exists(path)
        lines.append('func %s %d %s %s %s %d' % (hx(path), first, hx(name), hx('%g' % (total_time * unit)),
                                                 hx('%6.2f seconds - %s:%s - %s' % (total_time * unit, path, first, name)), 1 if exists else 0))
        for (lineno, nhits, time) in entries:
            percent = '' if total_time == 0 else '%5.1f' % (100 * time / total_time)
            try:
                ph_f, ph_g = '%5.1f' % (float(time) * scalar / nhits), '%5.3g' % (float(time) * scalar / nhits)
            except ZeroDivisionError:
                ph_f = ph_g = 'ZeroDivisionError'
            lines.append('cand %d %d %d %s %s %s %s %s %s %s' % (lineno, nhits, time, hx('%d' % nhits), hx('%g' % nhits),
                                                                hx('%5.1f' % (time * scalar)), hx('%5.3g' % (time * scalar)), hx(ph_f), hx(ph_g), hx(percent)))
        if exists:
            linecache.clearcache()
            all_lines = linecache.getlines(path)
            try:
                sub = inspect.getblock(all_lines[first - 1:])
            except Exception:   # noqa
                sub = []
            for s in sub:
                lines.append('src %s' % hx(s.rstrip('\n').rstrip('\r')))
    lines.append('show %d %d %d %d %s' % (o['stripzeros'], o['details'], o['summarize'], o['sort'], hx('%g' % (ou if ou is not None else unit))))
    return lines
