"""G_prog: generator of deterministic Python programs for the core properties (DESIGN §5).

A program is a dict
  {'files': [[filename, source], ...], 'funcs': [[filename, name, kind], ...], 'driver': 'driver',
   'features': [...]}
Every function takes one int `n`; `driver(n)` exercises them and returns a value that both runs must
agree on.  No ids, hashes, time or set ordering is observable to the program.
"""

PRELUDE = '''\
class CM:
    def __init__(self, swallow):
        self.swallow = swallow
    def __enter__(self):
        return self
    def __exit__(self, et, ev, tb):
        return self.swallow and et is not None and issubclass(et, ValueError)

class Suspend:
    def __init__(self, v):
        self.v = v
    def __await__(self):
        got = yield self.v
        return got

def drive(co):
    out = []
    try:
        v = co.send(None)
        while True:
            out.append(v)
            v = co.send(v + 1)
    except StopIteration as e:
        out.append(('ret', e.value))
    return out
'''


class FnGen:
    """Generates one function body."""

    def __init__(self, rng, idx, kind, callees, feats, opts=None):
        self.opts = opts or {}
        self.rng = rng
        self.idx = idx
        self.kind = kind          # 'plain' | 'gen' | 'rec' | 'coro'
        self.callees = callees    # list of (name, kind, may_raise)
        self.lines = []
        self.feats = feats
        self.may_raise = False
        self.nloc = 0

    def emit(self, ind, text):
        self.lines.append('    ' * ind + text)

    def small(self):
        return self.rng.below(4) + 1

    def cond(self):
        k = self.rng.below(3) + 2
        v = self.rng.choice(['a', 'n', '(a + n)', '(a * 3 + n)'])
        return '%s %% %d == %d' % (v, k, self.rng.below(k))

    def expr(self, ind):
        r = self.rng.below(10)
        if r < 3:
            return str(self.rng.below(9) + 1)
        if r < 5:
            return '(n + %d)' % self.rng.below(5)
        if r < 6:
            return '(a %% %d)' % (self.rng.below(5) + 2)
        if r < 7:
            self.feats.add('comprehension')
            k = self.small() + 1
            return self.rng.choice([
                'sum([i * i for i in range(%d) if i %% 2])' % k,
                'len({i: i + n for i in range(%d)})' % k,
                'sum(i + a for i in range(%d))' % k,
                'len({i %% 2 for i in range(%d)})' % k,
                'sum([i * j for i in range(%d) for j in range(2)])' % k])
        if r < 8:
            self.feats.add('lambda')
            return '(lambda q: q + %d)(n)' % self.rng.below(5)
        plain = [c for c in self.callees if c[1] == 'plain' and not c[2]]
        if plain:
            self.feats.add('call')
            return '%s((a + %d) %% 5)' % (self.rng.choice(plain)[0], self.rng.below(4))
        return '(a + 1)'

    def stmt(self, ind, depth, in_loop=False):
        rng = self.rng
        # options used by C02 only (no PRNG draw when they are off, so other properties' programs are unchanged)
        if self.opts.get('ticks') and rng.chance(1, 3):
            self.feats.add('tick')
            sty = rng.below(3)
            if sty == 0:
                # now and then a line that lasts longer than 2**31 / 2**32 ticks (a few seconds on the nanosecond clock)
                big = rng.chance(1, 8)
                self.emit(ind, 'tick(%d)' % ((rng.below(3) + 2) * 1500000000 + rng.below(50) if big else rng.below(50) + 1))
            elif sty == 1:
                self.emit(ind, 'a += (tick(%d) or %d)' % (rng.below(500) + 1, rng.below(3)))
            else:
                self.feats.add('multiline')
                self.emit(ind, 'a = (a +')
                self.emit(ind, '     (tick(%d) or 2) *' % (rng.below(90) + 1))
                self.emit(ind, '     2)')
        if self.opts.get('renable') and rng.chance(1, 10):
            # a redundant raw enable() while the profiler is already on (kernprof -b advertises `profile.enable()`; under -l it is on already)
            self.feats.add('redundant-enable')
            self.emit(ind, 'renable()')
        if self.opts.get('snaps') and rng.chance(1, 6):
            # a snapshot taken from inside running profiled code (a progress callback, a periodic report)
            self.feats.add('inner-snapshot')
            self.emit(ind, 'snap()')
        if self.opts.get('windows') and self.kind in ('plain', 'rec') and depth > 0 and rng.chance(1, 7):
            self.feats.add('inner-window')
            self.emit(ind, 'with prof:')
            self.block(ind + 1, depth - 1, False)
            return
        r = rng.below(100)
        if depth <= 0:
            r = rng.below(30)
        if r < 14:
            self.emit(ind, 'a += %s' % self.expr(ind))
        elif r < 20:
            self.feats.add('multiline')
            self.emit(ind, 'a = (a +')
            self.emit(ind, '     %s *' % self.expr(ind))
            self.emit(ind, '     2)')
        elif r < 24:
            self.emit(ind, 'a %= 1000')
        elif r < 30:
            callee = [c for c in self.callees if c[1] in ('plain', 'rec')]
            if callee:
                c = rng.choice(callee)
                self.feats.add('call')
                arg = '(a + %d) %% %d' % (rng.below(4), 4 if c[1] == 'rec' else 6)
                if c[2] and rng.chance(3, 4):
                    self.feats.add('exception')
                    self.emit(ind, 'try:')
                    self.emit(ind + 1, 'a += %s(%s)' % (c[0], arg))
                    self.emit(ind, 'except ValueError:')
                    self.emit(ind + 1, 'a -= 1')
                else:
                    if c[2]:
                        self.may_raise = True
                    self.emit(ind, 'a += %s(%s)' % (c[0], arg))
            else:
                self.emit(ind, 'a += 1')
        elif r < 42:
            self.feats.add('branch')
            self.emit(ind, 'if %s:' % self.cond())
            self.block(ind + 1, depth - 1, in_loop)
            if rng.chance(1, 2):
                self.emit(ind, 'elif %s:' % self.cond())
                self.block(ind + 1, depth - 1, in_loop)
            if rng.chance(1, 2):
                self.emit(ind, 'else:')
                self.block(ind + 1, depth - 1, in_loop)
        elif r < 52:
            self.feats.add('loop')
            v = 'i%d' % self.nloc
            self.nloc += 1
            self.emit(ind, 'for %s in range(%s):' % (v, rng.choice(['2', '3', 'n % 3', '(a % 2) + 1'])))
            self.block(ind + 1, depth - 1, True)
            if rng.chance(1, 3):
                self.emit(ind, 'else:')
                self.block(ind + 1, depth - 1, in_loop)
        elif r < 58:
            self.feats.add('loop')
            v = 'w%d' % self.nloc
            self.nloc += 1
            self.emit(ind, '%s = 0' % v)
            self.emit(ind, 'while %s < %d:' % (v, self.small()))
            self.emit(ind + 1, '%s += 1' % v)
            self.block(ind + 1, depth - 1, True)
        elif r < 61 and in_loop:
            self.emit(ind, 'if %s:' % self.cond())
            self.emit(ind + 1, rng.choice(['break', 'continue']))
        elif r < 71:
            self.feats.add('exception')
            self.emit(ind, 'try:')
            self.block(ind + 1, depth - 1, in_loop)
            if rng.chance(2, 3):
                self.emit(ind + 1, 'if %s:' % self.cond())
                self.emit(ind + 2, 'raise ValueError(a)')
            self.emit(ind, 'except ValueError:')
            self.emit(ind + 1, 'a += %d' % self.small())
            if rng.chance(1, 3):
                self.emit(ind, 'else:')
                self.emit(ind + 1, 'a += 2')
            if rng.chance(1, 2):
                self.emit(ind, 'finally:')
                self.emit(ind + 1, 'a += 1')
        elif r < 77:
            self.feats.add('with')
            sw = rng.chance(1, 2)
            self.emit(ind, 'with CM(%s):' % sw)
            self.block(ind + 1, depth - 1, in_loop)
            if rng.chance(1, 2):
                self.feats.add('exception')
                self.emit(ind + 1, 'if %s:' % self.cond())
                self.emit(ind + 2, 'raise ValueError(a)')
                if not sw:
                    self.may_raise = True
        elif r < 81:
            self.feats.add('nested-def')
            nm = 'inner%d' % self.nloc
            self.nloc += 1
            self.emit(ind, 'def %s(z):' % nm)
            self.emit(ind + 1, 'z += n')
            self.emit(ind + 1, 'return z * 2')
            self.emit(ind, 'a += %s(%d)' % (nm, self.small()))
        elif r < 85:
            self.feats.add('early-exit')
            self.emit(ind, 'if %s:' % self.cond())
            if self.kind == 'gen':
                self.emit(ind + 1, 'return a')
            elif rng.chance(1, 3):
                self.emit(ind + 1, 'raise ValueError(a)')
                self.may_raise = True
            else:
                self.emit(ind + 1, 'return a')
        elif r < 93:
            gens = [c for c in self.callees if c[1] == 'gen']
            if gens:
                self.feats.add('generator-driven')
                g = rng.choice(gens)
                style = rng.below(4)
                gv = 'g%d' % self.nloc
                self.nloc += 1
                if style == 0:
                    self.emit(ind, 'for %s in %s(%d):' % (gv, g[0], self.small()))
                    self.emit(ind + 1, 'a += %s' % gv)
                    if rng.chance(1, 3):
                        self.emit(ind + 1, 'if %s:' % self.cond())
                        self.emit(ind + 2, 'break')
                elif style == 1:
                    self.emit(ind, '%s = %s(%d)' % (gv, g[0], self.small()))
                    self.emit(ind, 'try:')
                    self.emit(ind + 1, 'a += next(%s)' % gv)
                    self.emit(ind + 1, 'a += %s.send(a %% 3)' % gv)
                    self.emit(ind + 1, 'a += %s.throw(ValueError(1))' % gv)
                    self.emit(ind, 'except (StopIteration, ValueError):')
                    self.emit(ind + 1, 'a += 1')
                    self.emit(ind, '%s.close()' % gv)
                elif style == 2:
                    self.emit(ind, '%s = %s(%d)' % (gv, g[0], self.small()))
                    self.emit(ind, 'a += next(%s, 0)' % gv)
                    self.emit(ind, '%s.close()' % gv)
                else:
                    self.emit(ind, 'a += sum(%s(%d))' % (g[0], self.small()))
            else:
                self.emit(ind, 'a += 3')
        else:
            cos = [c for c in self.callees if c[1] == 'coro']
            if cos:
                self.feats.add('coroutine-driven')
                c = rng.choice(cos)
                self.emit(ind, 'a += len(drive(%s(%d)))' % (c[0], self.small()))
            else:
                self.emit(ind, 'a -= 1')
        if self.kind == 'gen' and rng.chance(1, 3):
            self.feats.add('yield')
            if rng.chance(1, 3):
                self.emit(ind, 'try:')
                self.emit(ind + 1, 'got = yield a')
                self.emit(ind, 'except ValueError:')
                self.emit(ind + 1, 'got = 5')
                self.emit(ind, 'a += got or 0')
            else:
                self.emit(ind, 'yield a')
        if self.kind == 'coro' and rng.chance(1, 3):
            self.feats.add('await')
            self.emit(ind, 'a += await Suspend(a % 7)')

    def block(self, ind, depth, in_loop=False):
        n = self.rng.below(3) + 1
        for _ in range(n):
            self.stmt(ind, depth, in_loop)

    def build(self, name, depth):
        hdr = 'async def' if self.kind == 'coro' else 'def'
        self.emit(0, '%s %s(n):' % (hdr, name))
        self.emit(1, 'a = n')
        if self.kind == 'rec':
            self.feats.add('recursion')
            self.emit(1, 'if n <= 0:')
            self.emit(2, 'return 1')
            self.block(1, depth - 1)
            sty = self.rng.below(3)
            if sty == 0:
                self.emit(1, 'a += %s(n - 1)' % name)
            elif sty == 1:
                self.emit(1, 'a += sum([%s(n - 1)' % name)
                self.emit(1, '          for _ in range(1)])')
            else:
                self.emit(1, 'a += %s(n - 1) + %s(n - 2)' % (name, name))
            self.block(1, depth - 1)
        else:
            for _ in range(self.rng.below(3) + 2):
                self.stmt(1, depth)
        if self.kind == 'gen':
            if self.rng.fork('cleanup').chance(2, 5):
                # clean-up code that runs when the iterator is closed early (close() / abandoned after break) while suspended here
                self.feats.add('gen-cleanup')
                self.emit(1, 'try:')
                self.emit(2, 'yield a')
                self.emit(2, 'a += 1')
                self.emit(2, 'yield a + 1')
                self.emit(1, 'finally:')
                self.emit(2, 'a += 2')
                self.emit(2, 'a %= 97')
            self.emit(1, 'yield a')
        if self.kind == 'coro':
            self.emit(1, 'a += await Suspend(a % 5)')
        self.emit(1, 'return a')
        return self.lines


def gen_program(rng, nfuncs=None, depth=None, nfiles=None, twins=True, twin_mode=None, ntwins=1, opts=None):
    """Returns the program dict described in the module docstring."""
    nfuncs = nfuncs or (rng.below(5) + 2)
    depth = depth or (rng.below(3) + 1)
    nfiles = nfiles or (1 if rng.chance(2, 3) else 2)
    feats = set()
    funcs = []     # (name, kind, may_raise, lines)
    kinds = []
    for i in range(nfuncs):
        r = rng.below(10)
        kinds.append('plain' if r < 5 else 'gen' if r < 7 else 'rec' if r < 9 else 'coro')
    for i, kind in enumerate(kinds):
        name = 'f%d' % i
        callees = [(f[0], f[1], f[2]) for f in funcs]
        g = FnGen(rng.fork('fn%d' % i), i, kind, callees, feats, opts)
        lines = g.build(name, depth)
        funcs.append((name, kind, g.may_raise, lines))
    # byte-identical twin: the same source under another name (and possibly another file / line offset)
    twin = None
    if twin_mode:
        nfiles = 2
    if twins and (twin_mode or rng.chance(1, 3)):
        nonrec = [f for f in funcs if f[1] != 'rec'] or funcs
        src = rng.choice(nonrec)
        tname = src[0] + 't'
        tl = [src[3][0].replace(src[0] + '(', tname + '(', 1)] + src[3][1:]
        if src[1] == 'rec':
            twin = None   # a recursive twin would call its own name: not byte-identical in general
        else:
            twin = (tname, src[1], src[2], tl)
            feats.add('twin')
    files = [['prog_lib.py', PRELUDE]]
    assign = []
    extra = []
    if twin and ntwins > 1:
        # further byte-identical copies, each in a file of its own at the original's line numbers or shifted
        for j, suf in enumerate(['u', 'v'][:ntwins - 1]):
            en = twin[0][:-1] + suf
            extra.append((en, twin[1], twin[2], [twin[3][0].replace(twin[0] + '(', en + '(', 1)] + twin[3][1:]))
    # compact functions: executable code on the line of the `def` / `lambda` keyword itself (one-line definitions, lambdas,
    # a lambda spread over several lines); drawn from a forked generator so that the rest of the program is unchanged
    compact = []
    r2 = rng.fork('compact')
    if r2.chance(3, 5):
        for j in range(r2.below(3) + 1):
            cn = 'c%d' % j
            sty = r2.below(5)
            k = r2.below(5) + 1
            if sty == 0:
                cl = ['def %s(n): return n * %d + 1' % (cn, k)]
            elif sty == 1:
                cl = ['def %s(n): return 1 if n <= 0 else n + %s(n - 1)' % (cn, cn)]
                feats.add('recursion')
            elif sty == 2:
                cl = ['%s = lambda n: n + %d' % (cn, k)]
            elif sty == 3:
                cl = ['%s = (lambda n:' % cn,
                      '      sum([i for i in range(n %% %d)])' % (k + 1),
                      '      + (%s(n - 1) if n > 0 else 0))' % cn]
                feats.add('recursion')
            else:
                cl = ['def %s(n): a = n + %d; a *= 2; return a' % (cn, k)]
            feats.add('compact')
            compact.append((cn, 'plain', False, cl))
    # closures made by one factory (one code object, several function objects), one calling the other: `ha(n)` spends its time in `hb`
    closures = []
    if opts and opts.get('closures') and rng.fork('closures').chance(1, 2):
        feats.add('closure-chain')
        rc = rng.fork('closures2')
        cl = ['def mk(k, nxt=None):',
              '    def h(n):',
              '        a = n + k',
              '        tick(%d)' % (rc.below(40) + 1),
              '        if nxt is not None:',
              '            a += nxt(n)',
              '        a += (tick(%d) or 1)' % (rc.below(40) + 1),
              '        return a',
              '    return h',
              '',
              'hb = mk(2)',
              'ha = mk(1, hb)']
        closures.append(('mk', 'plain', False, cl))
    allf = list(funcs) + ([twin] if twin else []) + extra + compact + closures
    chunks = [[] for _ in range(nfiles)]
    for i, f in enumerate(allf):
        if f in extra:
            continue        # the further copies live in files of their own only (one definition per name)
        k = 0 if nfiles == 1 else rng.below(nfiles)
        if twin_mode and twin and f is twin:
            k = 1
        if twin_mode and twin and f[0] == twin[0][:-1]:
            k = 0
        chunks[k].append(f)
    if twin_mode and twin:
        # the twin and its original lead their files: 'same_lines' gives them identical line numbers,
        # 'overlap' shifts the twin by a few lines so that the ranges overlap
        chunks[0].sort(key=lambda f: f[0] != twin[0][:-1])
        chunks[1].sort(key=lambda f: f is not twin)
    for e in extra:
        chunks.append([e])
    flist = []
    npad0 = rng.below(4)
    for k, ch in enumerate(chunks):
        fname = 'prog_%d.py' % k
        pad = ['# pad'] * rng.below(4)
        if twin_mode == 'same_lines':
            pad = ['# pad'] * npad0
        elif twin_mode == 'overlap':
            pad = ['# pad'] * (npad0 + (k * (1 + rng.below(3))))
        src = list(pad)
        for f in ch:
            src.extend(f[3])
            src.append('')
            flist.append([fname, f[0], f[1]])
            if f[0] == 'mk' and closures and f is closures[0]:
                flist.append([fname, 'ha', 'plain'])
                flist.append([fname, 'hb', 'plain'])
        files.append([fname, '\n'.join(src) + '\n'])
    # driver: call every function with a few arguments, catching everything
    d = ['def driver(n):', '    out = []']
    if closures:
        d += ['    out.append(ha(n))', '    out.append(hb(n + 1))']
    for f in allf:
        if closures and f is closures[0]:
            continue            # the factory returns function objects (their repr holds an address); ha / hb are called above
        for arg in ('n', '(n + 2) % 5'):
            d.append('    try:')
            if f[1] in ('plain', 'rec'):
                d.append('        out.append(%s(%s))' % (f[0], arg))
            elif f[1] == 'gen':
                d.append('        out.append(list(%s(%s)))' % (f[0], arg))
            else:
                d.append('        out.append(drive(%s(%s)))' % (f[0], arg))
            d.append('    except ValueError as e:')
            d.append('        out.append(("err", str(e)))')
        if f[1] == 'gen':
            # the iterator is abandoned after its first item and closed: its clean-up code runs inside close()
            d.append('    try:')
            d.append('        it = %s(n)' % f[0])
            d.append('        out.append(next(it, None))')
            d.append('        it.close()')
            d.append('    except ValueError as e:')
            d.append('        out.append(("err", str(e)))')
    d.append('    return out')
    files.append(['prog_main.py', '\n'.join(d) + '\n'])
    flist.append(['prog_main.py', 'driver', 'plain'])
    rec_names = sorted({f[0] for f in allf if f[1] == 'rec'} | {f[0] for f in compact if any('%s(n - 1)' % f[0] in l for l in f[3])})
    return {'files': files, 'funcs': flist, 'driver': 'driver', 'features': sorted(feats), 'recursive': rec_names}
