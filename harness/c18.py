"""C18 — module names and paths are mapped the way the import system maps them.
Proof: Props/C18.lean over Model.FS (lookup_one_root, lookup_first_root, lookup_none_iff, lookup_eq_pathfinder under NoPartialShadow,
shadow_witness = F-C18a, roundtrip, walk_exact — trees of any shape and depth, any number of roots, names of any length).
Tie: K18 — generated directory trees materialised in scratch: the real modname_to_modpath / modpath_to_modname / package_modpaths
against the model's lookup / nameOfPath / walk.
Oracle: importlib.machinery.PathFinder resolved component by component on the same roots (regular packages and modules), the
original name for the round trip, and the module files computed from the tree description for the package walk."""
import concurrent.futures as cf
import json

from common import run_worker, lean_driver

LEVEL = 'proof'

TOPS = ['a', 'b', 'pkg', 'pkgx', 'pk', 'pkg_', '\u00e9t\u00e9', '_p']                 # a valid identifier need not start with an ASCII letter
SUBS = ['a', 'c', 'sub', 'subx', 'deep', 'm', 'lazy__init__', 'x__main__', '\u00e7a', 'caf\u00e9', '\u03bb1']      # the last two: look-alikes of the package / main markers


def rand_dir(rng, depth, pkg_chance):
    """a directory's content"""
    d = {}
    if rng.chance(*pkg_chance):
        d['__init__.py'] = None
    if rng.chance(1, 5):
        d['__main__.py'] = None
    for n in rng.sample(SUBS, rng.below(4)):
        r = rng.below(10)
        if r < 4:
            d[n + '.py'] = None
        elif r < 8 and depth > 0:
            d[n] = rand_dir(rng, depth - 1, (3, 4))
            if rng.chance(1, 4):
                d[n + '.py'] = None          # same stem as file and as directory
        elif r < 9:
            d[n + '.txt'] = None
        else:
            d[n + '.pyi'] = None        # (sourceless .pyc modules are importable but have no lines to profile: not generated)
    return d


def rand_root(rng):
    root = {}
    for n in rng.sample(TOPS, rng.below(4) + 1):
        r = rng.below(10)
        if r < 3:
            root[n + '.py'] = None
        else:
            root[n] = rand_dir(rng, 2 + rng.below(2), (4, 5))
            if rng.chance(1, 5):
                root[n + '.py'] = None
    if rng.chance(1, 12):
        root['__init__.py'] = None           # a search root that is itself a package: excluded point of the round trip
    return root


def names_of(roots, rng):
    """dotted names occurring in the trees (stems of .py files and directories) + some that are missing"""
    out = set()

    def walk(d, pre, depth):
        for n, sub in d.items():
            stem = n[:-3] if n.endswith('.py') else n
            if '.' in stem:
                continue
            if stem in ('__init__',):
                continue
            out.add('.'.join(pre + [stem]))
            if sub is not None and depth < 4:
                walk(sub, pre + [stem], depth + 1)
    for r in roots:
        walk(r, [], 0)
    names = sorted(out)
    names += ['nope', 'a.nope', 'pkg.sub.nope.x', 'pk.a', 'pkgx.c']
    return sorted(set(names))


def pkg_dirs(roots):
    out = []

    def walk(d, pre, ri):
        for n, sub in d.items():
            if sub is not None:
                out.append([ri, '/'.join(pre + [n])])
                walk(sub, pre + [n], ri)
    for i, r in enumerate(roots):
        walk(r, [], i)
    return out


def expected_walk(tree):
    """module files under the package and its regular sub-packages, computed from the tree description"""
    if '__init__.py' not in tree:
        return []
    out = []

    def rec(d, pre):
        for n, sub in d.items():
            if sub is None:
                if n.endswith('.py') and n != '__init__.py':
                    out.append('/'.join(pre + [n]))
            elif '__init__.py' in sub:
                rec(sub, pre + [n])
    rec(tree, [])
    return sorted(out)


def expected_walk_pkg(tree):
    """… and, when the package files are asked for too (`with_pkg=True`, what a -p selection of a package expands with): also the __init__.py
    of the package and of every regular sub-package below it"""
    if '__init__.py' not in tree:
        return []
    out = ['__init__.py']

    def rec(d, pre):
        for n, sub in d.items():
            if sub is None:
                if n.endswith('.py') and n != '__init__.py':
                    out.append('/'.join(pre + [n]))
            elif '__init__.py' in sub:
                out.append('/'.join(pre + [n, '__init__.py']))
                rec(sub, pre + [n])
    rec(tree, [])
    return sorted(out)


def subtree(tree, rel):
    for c in rel.split('/'):
        tree = tree[c]
    return tree


def encode(tree):
    toks = []
    for n, sub in tree.items():
        if sub is None:
            toks += ['f', n]
        else:
            toks += ['d', n, '('] + encode(sub) + [')']
    return toks


def link_candidates(roots):
    """module files (not the package markers) and sub-directories that lie inside a directory of a root"""
    out = []

    def walk(d, pre, ri):
        for n, sub in d.items():
            if pre and (sub is not None or (n.endswith('.py') and n not in ('__init__.py', '__main__.py'))):
                out.append([ri, '/'.join(pre + [n])])
            if sub is not None:
                walk(sub, pre + [n], ri)
    for i, r in enumerate(roots):
        walk(r, [], i)
    return out


def make_case(rng):
    roots = [rand_root(rng.fork('r%d' % i)) for i in range(rng.below(3) + 1)]
    case = {'roots': roots, 'names': names_of(roots, rng), 'walks': pkg_dirs(roots)}
    r2 = rng.fork('links')
    cands = link_candidates(roots)
    if cands and r2.chance(1, 3):
        picked = r2.sample(cands, min(len(cands), r2.below(2) + 1))
        # no link below another link
        case['links'] = [p for p in picked if not any(q is not p and q[0] == p[0] and p[1].startswith(q[1] + '/') for q in picked)]
    return case


def model_lines(c):
    lines = ['roots ' + ' ; '.join(' '.join(encode(r)) or 'f .empty' for r in c['roots'])]
    for n in c['names']:
        lines += ['lookup ' + n, 'pathfinder ' + n]
    for ri, rel in c['walks']:
        lines.append('walk %d %s' % (ri, rel))
    return lines


def run(ctx):
    ctx.prove('LPVerif.Props.C18', 'LPVerif/Props/C18.lean', drivers=('FS',))
    build = ctx.build()
    n = 300 if ctx.quick else 12000
    if ctx.broken:
        n *= 3
    cases = [make_case(ctx.rng.fork('t%d' % i)) for i in range(n)]
    ctx.log('%d generated search paths (%d name queries, %d package walks)' % (len(cases), sum(len(c['names']) for c in cases), sum(len(c['walks']) for c in cases)))
    nw = 8
    parts = [cases[i::nw] for i in range(nw)]
    with cf.ThreadPoolExecutor(max_workers=nw) as ex:
        outs = list(ex.map(lambda p: run_worker(build, 'c18_worker.py', {'cases': p}, 1200), parts))
    res = [None] * len(cases)
    for i, o in enumerate(outs):
        for j, r in enumerate(o['results']):
            res[i + j * nw] = r
    model = None
    if getattr(ctx, 'driver_ok', True):
        lines = []
        for c in cases:
            lines += model_lines(c)
        mo = lean_driver('fs', lines)
        model, k = [], 0
        for c in cases:
            m = {'lookup': {}, 'pathfinder': {}, 'walk': {}}
            for nm in c['names']:
                m['lookup'][nm] = mo[k]
                m['pathfinder'][nm] = mo[k + 1]
                k += 2
            for ri, rel in c['walks']:
                m['walk']['%d:%s' % (ri, rel)] = mo[k]
                k += 1
            model.append(m)
    kdiff = 0
    nontrivial = set()
    stats = {'queries': 0, 'found': 0, 'namespace_skipped': 0, 'partial_shadow': 0, 'roundtrips': 0, 'root_is_package': 0, 'walks': 0}
    _fail = ctx.fail
    for ci, (c, r) in enumerate(zip(cases, res)):
        # the trees of one worker process are materialised under the same paths one after the other: a failure may depend on the tree before
        earlier = cases[ci - nw] if ci >= nw else None
        ctx.fail = (lambda what, wit, _c=c, _e=earlier: _fail(what, dict(wit, links=_c.get('links', []),
                                                                         tree_under_the_same_paths_before={'roots': _e['roots'], 'links': _e.get('links', [])} if _e else None)))
        if 'harness_error' in r:
            ctx.broken.append(('harness', r['harness_error'][-1500:]))
            continue
        root_is_pkg = any('__init__.py' in rt for rt in c['roots'])
        for nm in c['names']:
            stats['queries'] += 1
            real = r['lookup'][nm]
            pf = r['pathfinder'][nm]
            if real is not None:
                stats['found'] += 1
            # oracle: the import system (regular packages and modules only)
            if pf == 'namespace':
                stats['namespace_skipped'] += 1
            else:
                same = (real is None and pf is None) or (real is not None and pf is not None and real[0] == pf[0] and real[1] == pf[1]
                                                            and (real[2] == pf[2] or real[2] + '/__init__.py' == pf[2]))
                if not same:
                    shadow = real is not None and pf is None
                    if shadow:
                        stats['partial_shadow'] += 1
                    ctx.fail('lookup differs from what importing the name would load',
                             {'finding_class': 'F-C18a' if shadow and partial_shadow(c, nm, real) else None, 'roots': c['roots'], 'name': nm,
                              'modname_to_modpath': real, 'PathFinder': pf})
            if real is not None and not root_is_pkg:
                stats['roundtrips'] += 1
                if r['roundtrip'].get(nm) != nm:
                    ctx.fail('path -> name does not return the original name', {'finding_class': None, 'roots': c['roots'], 'name': nm, 'path': real,
                                                                                'modpath_to_modname': r['roundtrip'].get(nm)})
            elif real is not None:
                stats['root_is_package'] += 1
            if model is not None:
                mr = model[ci]['lookup'][nm]
                rr = 'none' if real is None else '%d %s' % (real[0], real[1])
                if mr != rr:
                    kdiff += 1
                    ctx.broken.append(('K18 correspondence (lookup)', 'roots %s name %s: model %s real %s' % (json.dumps(c['roots']), nm, mr, rr)))
                if pf != 'namespace':
                    mp = model[ci]['pathfinder'][nm]
                    pp = 'none' if pf is None else '%s %s' % (pf[0], pf[1])
                    if mp != pp:
                        kdiff += 1
                        ctx.broken.append(('K18 correspondence (PathFinder spec)', 'roots %s name %s: model %s importlib %s' % (json.dumps(c['roots']), nm, mp, pp)))
        for nm, (how, plain, alt) in (r.get('spelling') or {}).items():
            ctx.fail('the lookup depends on how the search-path entry is written (the import system finds the same file either way)',
                     {'finding_class': None, 'roots': c['roots'], 'name': nm, 'spelling': how, 'found_with_plain_roots': plain, 'found_with_that_spelling': alt})
            break
        for ri, rel in c['walks']:
            stats['walks'] += 1
            key = '%d:%s' % (ri, rel)
            real = r['walk'][key]
            exp = expected_walk(subtree(c['roots'][ri], rel))
            if real != exp:
                ctx.fail('package listing is not exactly the module files of the package and its sub-packages',
                         {'finding_class': None, 'roots': c['roots'], 'package': key, 'package_modpaths': real, 'expected': exp})
            realp = (r.get('walk_pkg') or {}).get(key)
            expp = expected_walk_pkg(subtree(c['roots'][ri], rel))
            if realp is not None and realp != expp:
                ctx.fail('package listing with the package files (with_pkg) is not exactly the module files and __init__ files of the package and its sub-packages',
                         {'finding_class': None, 'roots': c['roots'], 'package': key, 'package_modpaths(with_pkg=True)': realp, 'expected': expp})
            if model is not None:
                mw = sorted(model[ci]['walk'][key].split()) if model[ci]['walk'][key] not in ('nodir',) else None
                if mw != real:
                    kdiff += 1
                    ctx.broken.append(('K18 correspondence (walk)', 'roots %s package %s: model %s real %s' % (json.dumps(c['roots']), key, mw, real)))
        if len(c['roots']) > 1:
            nontrivial.add(json.dumps(c['roots'], sort_keys=True))
    ctx.fail = _fail
    ctx.coverage.update({
        'evaluations': stats['queries'] + stats['walks'], 'distinct_nontrivial': len(nontrivial),
        'rule': '1-3 search roots of generated trees (depth <= 4; look-alike names pkg/pkgx/pk/pkg_; non-ASCII identifiers; same stem as file and directory; directories without __init__.py; '
                '__main__.py; non-module files; occasionally a root that is itself a package); every dotted name occurring in the trees + missing ones; every directory '
                'walked as a package; non-trivial = more than one search root',
        'traces_validated_against_impl': stats['queries'] * 2 + stats['walks'] - kdiff, 'correspondence_disagreements': kdiff, 'statistics': stats})
    ctx.coverage['samples'].append({'roots': cases[-1]['roots'], 'lookup': res[-1].get('lookup'), 'pathfinder': res[-1].get('pathfinder')})
    ctx.assumptions += ['os.path / os.walk are modelled by tree operations (a symbolic link inside a package is the thing it points to, under the link\'s name); egg-links, editable installs and extension modules are not generated',
                        'names resolved through PEP 420 namespace packages are outside the property (regular packages and modules): skipped by the oracle, still compared with the model',
                        'a search root that contains __init__.py is the excluded point of the round trip (path -> name cannot know the search path): counted in the evidence']
    return ctx.finish('Lean: lookup = import walk per root, first root wins, = PathFinder under NoPartialShadow (witness F-C18a), round trip, package walk; '
                      'K18 on materialised trees; oracle = importlib PathFinder / the tree description')


def partial_shadow(c, name, real):
    """classifier of F-C18a: a search root before the one the lookup used provides the *first component* of the name (as a module file or
    as a regular package) — the import system commits to that root — but not the whole name"""
    first = name.split('.')[0]
    if '.' not in name:
        return False
    for ri in range(real[0]):
        d = c['roots'][ri]
        sub = d.get(first)
        if (isinstance(sub, dict) and '__init__.py' in sub) or (first + '.py') in d:
            return True
    return False


def replay(ctx, path):
    data = json.load(open(path))
    w = data.get('witness', data)
    c = {'roots': w['roots'], 'names': [w['name']] if 'name' in w else [], 'walks': [[int(w['package'].split(':')[0]), w['package'].split(':')[1]]] if 'package' in w else [],
         'links': w.get('links') or []}
    before = w.get('tree_under_the_same_paths_before')
    pre = [{'roots': before['roots'], 'names': names_of(before['roots'], None), 'walks': pkg_dirs(before['roots']), 'links': before.get('links') or []}] if before else []
    r = run_worker(ctx.build(), 'c18_worker.py', {'cases': pre + [c]}, 600)['results'][-1]
    print(json.dumps({'real': r, 'model': lean_driver('fs', model_lines(c))}, indent=1))
    return 0
