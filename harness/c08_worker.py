"""Worker for C08 (syntactic part): real AstTreeProfiler / AstTreeModuleProfiler on generated sources; trees are returned in the token
form of the Lean driver.  JSON in: {"cases": [{"files": {rel: text}, "script": rel, "prof_mod": [...], "prof_imports": bool, "module": bool}]}"""
import ast
import json
import os
import sys
import tempfile

from line_profiler.autoprofile.ast_tree_profiler import AstTreeProfiler
from line_profiler.autoprofile.run_module import AstTreeModuleProfiler
from line_profiler.autoprofile.profmod_extractor import ProfmodExtractor

KINDS = {ast.If: 1, ast.For: 2, ast.While: 3, ast.Try: 4, ast.With: 5, ast.AsyncFor: 6, ast.AsyncWith: 7}


class Interner:
    def __init__(self):
        self.d = {}

    def get(self, k):
        if k not in self.d:
            self.d[k] = len(self.d)
        return self.d[k]


def dotted(node):
    if isinstance(node, ast.Name):
        return node.id
    if isinstance(node, ast.Attribute):
        return dotted(node.value) + '.' + node.attr
    return '?'


def is_reg(node):
    return (isinstance(node, ast.Expr) and isinstance(node.value, ast.Call) and isinstance(node.value.func, ast.Attribute)
            and node.value.func.attr == 'add_imported_function_or_module' and isinstance(node.value.func.value, ast.Name)
            and node.value.func.value.id == 'profile')


def tokens(stmts, simple, deco, mark_regs):
    out = []
    for s in stmts:
        if isinstance(s, (ast.FunctionDef, ast.AsyncFunctionDef)):
            ds = []
            for d in s.decorator_list:
                ds += ['N', d.id] if isinstance(d, ast.Name) else ['O', str(deco.get(ast.dump(d)))]
            out += ['def', '1' if isinstance(s, ast.AsyncFunctionDef) else '0', s.name, str(s.lineno), str(len(s.decorator_list))] + ds + ['{']
            out += tokens(s.body, simple, deco, mark_regs) + ['}']
        elif isinstance(s, ast.ClassDef):
            ds = []
            for d in s.decorator_list:
                ds += ['N', d.id] if isinstance(d, ast.Name) else ['O', str(deco.get(ast.dump(d)))]
            out += ['class', s.name, str(s.lineno), str(len(s.decorator_list))] + ds + ['{'] + tokens(s.body, simple, deco, mark_regs) + ['}']
        elif isinstance(s, ast.Import):
            out += ['import', str(s.lineno), str(len(s.names))]
            for a in s.names:
                out += [a.name, a.asname or '-']
        elif isinstance(s, ast.ImportFrom):
            out += ['from', s.module or '-', str(s.level), str(s.lineno), str(len(s.names))]
            for a in s.names:
                out += [a.name, a.asname or '-']
        elif type(s) in KINDS:
            bodies = [s.body]
            if isinstance(s, ast.Try):
                bodies += [h.body for h in s.handlers] + [s.orelse, s.finalbody]
            elif hasattr(s, 'orelse'):
                bodies.append(s.orelse)
            out += ['comp', str(KINDS[type(s)]), str(s.lineno), str(len(bodies))]
            for b in bodies:
                out += ['{'] + tokens(b, simple, deco, mark_regs) + ['}']
        elif mark_regs and is_reg(s):
            out += ['reg', dotted(s.value.args[0])]
        else:
            out += ['simple', str(simple.get(ast.dump(s))), str(getattr(s, 'lineno', 0))]
    return out


def mask_from(toks):
    out = list(toks)
    for i, t in enumerate(toks):
        if t == 'from' and i + 2 < len(out):
            out[i + 1] = out[i + 2] = '?'
    return out


def run_case(c, d):
    for rel, text in c['files'].items():
        p = os.path.join(d, rel)
        os.makedirs(os.path.dirname(p), exist_ok=True)
        with open(p, 'w') as fh:
            fh.write(text)
    script = os.path.join(d, c['script'])
    prof_mod = [os.path.join(d, x[5:]) if x.startswith('PATH:') else x for x in c['prof_mod']]
    old_path = list(sys.path)
    sys.path.insert(0, d)
    old_cwd = os.getcwd()
    os.chdir(d)
    try:
        cls = AstTreeModuleProfiler if c['module'] else AstTreeProfiler
        prof = cls(script, prof_mod, c['prof_imports'])
        simple, deco = Interner(), Interner()
        orig = prof._get_script_ast_tree(script)          # module mode: relative imports already absolute
        orig_tokens = tokens(orig.body, simple, deco, False) + ['}']
        with open(script, 'rb') as fh:
            plain = ast.parse(fh.read())           # the file as it is on disk now, decoded the way the compiler decodes it
        # what the profiler read must be the file that is there now (the same path is reused from case to case in this process: a cached
        # earlier content must not come back); in module mode only the relative imports may differ (they are made absolute)
        plain_tokens = tokens(plain.body, simple, deco, False) + ['}']
        read_ok = mask_from(orig_tokens) == mask_from(plain_tokens) if c['module'] else orig_tokens == plain_tokens
        full = prof._check_profile_full_script(script, prof_mod)
        matched = ProfmodExtractor(prof._get_script_ast_tree(script), script, prof_mod).run()
        err = None
        try:
            tree = prof.profile()
            new_tokens = tokens(tree.body, simple, deco, True) + ['}']
            compile(tree, script, 'exec')
        except Exception as e:   # noqa
            err = '%s: %s' % (type(e).__name__, e)
            new_tokens = None
        # relative imports of the plain tree, for the absolutise comparison
        rel = [[n.module, n.level, [[a.name, a.asname] for a in n.names], n.lineno] for n in ast.walk(plain) if isinstance(n, ast.ImportFrom)]
        ab = [[n.module, n.level, [[a.name, a.asname] for a in n.names], n.lineno] for n in ast.walk(orig) if isinstance(n, ast.ImportFrom)]
        return {'read_ok': read_ok, 'orig': orig_tokens, 'new': new_tokens, 'error': err, 'full': bool(full), 'matched': [[int(k), v] for k in sorted(matched) for v in (matched[k] if isinstance(matched[k], list) else [matched[k]])],
                'importfrom_plain': rel, 'importfrom_abs': ab}
    finally:
        os.chdir(old_cwd)
        sys.path[:] = old_path
        for k in list(sys.modules):
            if k.startswith(('helper', 'pkgk', 'prog')):
                del sys.modules[k]


def main():
    payload = json.load(sys.stdin)
    res = []
    import importlib
    import shutil
    # one directory for all the cases of this process: the same path holds another program each time, as when a file is edited between two
    # in-process kernprof runs
    with tempfile.TemporaryDirectory(prefix='c08-', dir=os.environ.get('LPVERIF_SCRATCH', '/var/tmp')) as d:
        d = os.path.realpath(d)
        for c in payload['cases']:
            for n in os.listdir(d):
                p = os.path.join(d, n)
                shutil.rmtree(p) if os.path.isdir(p) else os.remove(p)
            importlib.invalidate_caches()
            try:
                res.append(run_case(c, d))
            except Exception:
                import traceback
                res.append({'harness_error': traceback.format_exc()})
    sys.stdout.write('\n{"lpverif": %s}\n' % json.dumps({'results': res}))


main()
