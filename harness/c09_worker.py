"""Worker for C09: the real ProfmodExtractor pieces and run-time registration, for the correspondence with Model.Select.
JSON in: {"extract": [{"files":…, "script":…, "prof_mod":[…]}], "synthetic_match": [{"M": [...], "imps": [[name, alias, idx], …]}],
          "register": [{"ns": {k: [obj…]}, "item": obj}]}"""
import ast
import json
import os
import sys
import tempfile
import types

import line_profiler
from line_profiler.autoprofile.profmod_extractor import ProfmodExtractor
from line_profiler.autoprofile.autoprofile import _extend_line_profiler_for_profiling_imports


def run_extract(c, d):
    for rel, text in c['files'].items():
        p = os.path.join(d, rel)
        os.makedirs(os.path.dirname(p), exist_ok=True)
        with open(p, 'w') as fh:
            fh.write(text)
    for rel, target in json.loads(c['files'].get('.links.json', '{}')).items():
        os.makedirs(os.path.dirname(os.path.join(d, target)), exist_ok=True)
        os.replace(os.path.join(d, rel), os.path.join(d, target))
        os.symlink(os.path.join(d, target), os.path.join(d, rel))
    script = os.path.join(d, c['script'])
    prof_mod = [os.path.join(d, x[5:]) if x.startswith('PATH:') else x for x in c['prof_mod']]
    # as kernprof hands them over: an entry that is not an existing file name is split at commas
    prof_mod = sum(([spec] if os.path.exists(spec) else spec.split(',') for spec in prof_mod), [])
    old = list(sys.path)
    old_cwd = os.getcwd()
    os.chdir(d)
    try:
        tree = ast.parse(open(script).read())
        M = ProfmodExtractor._get_modnames_to_profile_from_prof_mod(script, prof_mod)
        imps = ProfmodExtractor._ast_get_imports_from_tree(tree)
        found = ProfmodExtractor._find_modnames_in_tree_imports(M, imps)
        return {'M': M, 'imps': [[i['name'], i['alias'] or i['name'], i['tree_index']] for i in imps],
                'found': sorted([int(k), v] for k, vs in found.items() for v in (vs if isinstance(vs, list) else [vs]))}
    finally:
        os.chdir(old_cwd)
        sys.path[:] = old


def run_synth(c):
    imps = [{'name': n, 'alias': a, 'tree_index': i} for n, a, i in c['imps']]
    found = ProfmodExtractor._find_modnames_in_tree_imports(c['M'], imps)
    return {'found': [[int(k), v] for k, vs in found.items() for v in (vs if isinstance(vs, list) else [vs])]}


def build_obj(spec, funcs, modules):
    kind = spec[0]
    if kind == 'f':
        fid = spec[1]
        if fid not in funcs:
            ns = {}
            exec(compile('\n' * (3 * fid) + 'def fn%d(x):\n    return x\n' % fid, 'synth_%d.py' % fid, 'exec'), ns)
            funcs[fid] = ns['fn%d' % fid]
        return funcs[fid]
    if kind == 'c':
        members = {}
        for j, m in enumerate(spec[2]):
            if m == 'o':
                members['attr%d' % j] = 5
                continue
            f = build_obj(['f', int(m[1:]), spec[1]], funcs, modules)
            members['m%d' % j] = {'f': f, 's': staticmethod(f), 'c': classmethod(f), 'p': property(f)}[m[0]]
        return type('SynthClass', (), members)
    if kind == 'm':
        return modules[spec[1]]
    return 42


def run_register(c):
    funcs, modules = {}, {}
    for k in c['ns']:
        modules[int(k)] = types.ModuleType('synthmod%s' % k)
    for k, objs in c['ns'].items():
        for j, o in enumerate(objs):
            setattr(modules[int(k)], 'name%d' % j, build_obj(o, funcs, modules))
    item = build_obj(c['item'], funcs, modules)
    prof = line_profiler.LineProfiler()
    _extend_line_profiler_for_profiling_imports(prof)
    import warnings
    with warnings.catch_warnings():
        warnings.simplefilter('ignore')
        prof.add_imported_function_or_module(item)
    while prof.enable_count > 0:
        prof.disable_by_count()
    ids = []
    for f in prof.functions:
        for fid, g in funcs.items():
            if g is f:
                ids.append(fid)
    return {'registered': ids}


def main():
    payload = json.load(sys.stdin)
    res = {'extract': [], 'synthetic_match': [], 'register': []}
    for c in payload.get('extract', []):
        with tempfile.TemporaryDirectory(prefix='c09-', dir=os.environ.get('LPVERIF_SCRATCH', '/var/tmp')) as d:
            try:
                res['extract'].append(run_extract(c, os.path.realpath(d)))
            except Exception:
                import traceback
                res['extract'].append({'harness_error': traceback.format_exc()})
    for c in payload.get('synthetic_match', []):
        try:
            res['synthetic_match'].append(run_synth(c))
        except Exception:
            import traceback
            res['synthetic_match'].append({'harness_error': traceback.format_exc()})
    for c in payload.get('register', []):
        try:
            res['register'].append(run_register(c))
        except Exception:
            import traceback
            res['register'].append({'harness_error': traceback.format_exc()})
    sys.stdout.write('\n{"lpverif": %s}\n' % json.dumps(res))


main()
