"""C15 — kernprof never takes the program's arguments for its own.
Proof: Props/C15.lean (module_mode, script_plain, script_shielded, options_only_from_prefix, for every option table and
every argument list) + bridge (code emitted from kernprof.pre_parse_single_arg_directive = model) + the statement
sequence of main/_main that writes args / module / post_args / options.* / sys.argv, emitted from the tree
(emitted_flow_is_reference, reference_flow_eq_model, kernprof_flow: running those statements = parseCmd, for every argument list);
tie: K15 — real kernprof.main in-process on token lists vs the model's parseCmd with the *generated* option table;
oracle: the program's sys.argv[1:] must be the tokens after the script / module, verbatim."""
import itertools
import json

import corelib
from common import lean_driver

LEVEL = 'proof'

TOKS = ['-m', '--', '-l', '-v', '-o', 'x', 'mod', '-p', '--view', '-b', 'a=b', '-z', '-h', '--help', '--line-profile', '--pro', '--out', '', 'a b', '@x']     # the empty string and a token with a space are arguments like any other
# (prefix, line_by_line, view, outfile or None)
PREFIXES = [
    ([], False, False, None), (['-l'], True, False, None), (['-b'], False, False, None), (['-l', '-v'], True, True, None),
    (['-v'], False, True, None), (['-o', 'out.bin'], False, False, 'out.bin'), (['-l', '-o', 'out.bin'], True, False, 'out.bin'),
    (['-l', '-z', '-u', '1e-3'], True, False, None), (['--line-by-line', '--view'], True, True, None),
    (['--outfile=out.bin', '-l'], True, False, 'out.bin'), (['-l', '-p', 'x'], True, False, None),
    (['-l', '-p', 'mod', '--prof-imports'], True, False, None), (['-s', 'setup.py'], False, False, None),
    (['-l', '-s', 'setup.py', '-v'], True, True, None), (['-b', '-o', 'out.bin'], False, False, 'out.bin'),
    (['-l', '-b', '-z'], True, False, None), (['--builtin', '--skip-zero', '-l'], True, False, None),
    (['-u', '1e-6', '-l'], True, False, None), (['-l', '--unit', '0.5', '-v'], True, True, None),
    (['-r', '-l'], True, False, None),
]


def enc(toks):
    return ' '.join('%e' if t == '' else t.replace(' ', '%20') for t in toks)


def shapes(prefix, r):
    out = [('module', prefix + ['-m', 'mod'] + r, 'mod'), ('shield', prefix + ['x', '--'] + r, 'x')]
    if '-m' not in r and '--' not in r:
        out.append(('plain', prefix + ['x'] + r, 'x'))
    return out


def run(ctx):
    ctx.prove('LPVerif.Props.C15', 'LPVerif/Props/C15.lean', extra_modules=['LPVerif.Bridge.Argv'], drivers=('Argv',))
    build = ctx.build()
    cases = []   # (shape, args, target, r, prefixinfo)
    maxlen = 2 if ctx.quick else 3
    allr = [list(r) for L in range(0, maxlen + 1) for r in itertools.product(TOKS, repeat=L)]
    budget = 2500 if ctx.quick else 60000
    if ctx.broken:
        budget *= 3
    for pi, pinfo in enumerate(PREFIXES):
        rs = allr if not ctx.quick else ([r for r in allr if len(r) <= 1] + ctx.rng.fork('p%d' % pi).sample(allr, 40))
        for r in rs:
            for shape, args, target in shapes(pinfo[0], r):
                cases.append((shape, args, target, r, pinfo))
    # random longer lists
    for i in range(300 if ctx.quick else 5000):
        rr = ctx.rng.fork('long%d' % i)
        r = [rr.choice(TOKS) for _ in range(rr.below(8) + 3)]
        pinfo = rr.choice(PREFIXES)
        for shape, args, target in shapes(pinfo[0], r):
            cases.append((shape, args, target, r, pinfo))
    if len(cases) > budget:
        cases = ctx.rng.fork('cut').sample(cases, budget)
    # malformed stream (errors must be errors on both sides)
    malformed = [['-l', '-m'], ['-m'], ['-l', 'x', '-m'], ['--nonsense', 'x'], ['-o'], ['-l']]
    ctx.log('running %d command lines through the real kernprof.main' % (len(cases) + len(malformed)))
    results = corelib.run_real(build, [c[1] for c in cases] + malformed, worker='c15_worker.py')
    model = None
    if getattr(ctx, 'driver_ok', True):
        model = lean_driver('argv', ['parse ' + enc(c[1]) for c in cases] + ['parse ' + enc(m) for m in malformed])
    kdiff = 0
    dist = {}
    nontrivial = set()
    for i, (c, r) in enumerate(zip(cases, results)):
        shape, args, target, rest, (prefix, lbl, view, outf) = c
        if 'error' in r:
            ctx.broken.append(('harness', r['error'][-1200:]))
            continue
        dist[shape] = dist.get(shape, 0) + 1
        exp_file = outf or (target + ('.lprof' if lbl else '.prof'))
        exp_kind = 'lprof' if lbl else 'pstats'
        ok = (r['status'] == 'ok' and r['argv'] is not None and r['argv'][1:] == rest and r['files'] == [exp_file]
              and r['kinds'] == [exp_kind] and r['viewed'] == view and r.get('explicit_after', [None, False]) == [None, False])
        if not ok:
            # recorded finding F-C15a: a program argument that is an ambiguous prefix of two of kernprof's long options (`--pro`, `--out`) makes
            # argparse abort before anything runs (plain script shape only: after `-m mod` and after `--` nothing is scanned)
            cls = None
            if r['status'] == 'exit2' and r.get('ambiguous') and r['argv'] is None and shape == 'plain' and any(t in ('--pro', '--out') for t in rest):
                cls = 'F-C15a'
            ctx.fail('program arguments not delivered verbatim / kernprof behaviour changed by them',
                     {'finding_class': cls, 'shape': shape, 'args': args, 'expected_argv_tail': rest,
                      'expected': {'file': exp_file, 'kind': exp_kind, 'viewed': view}, 'real': r})
        if model is not None:
            exp_model = 'ok %s %s %s %d %d | %s' % ('module' if shape == 'module' else 'script', target, exp_file, lbl, view, enc(rest))
            real_as_model = None
            if r['status'] == 'ok' and r['argv'] is not None and len(r['files']) == 1:
                real_as_model = 'ok %s %s %s %d %d | %s' % ('module' if shape == 'module' else 'script', r['argv'][0] if shape != 'module' else target,
                                                          r['files'][0], r['kinds'][0] == 'lprof', r['viewed'], enc(r['argv'][1:]))
            if r['status'] == 'exit2' and r.get('ambiguous') and r['argv'] is None and model[i].startswith('err ambiguous'):
                pass            # model and code agree on the recorded finding F-C15a (argparse's ambiguity check)
            elif model[i].strip() != (real_as_model or '').strip():
                kdiff += 1
                if ok or model[i].startswith('err ambiguous'):
                    ctx.broken.append(('K15 correspondence', 'args %s model %r real %r' % (args, model[i], real_as_model)))
        if any(t.startswith('-') for t in rest):
            nontrivial.add(json.dumps(args))
    for j, m in enumerate(malformed):
        r = results[len(cases) + j]
        if model is not None:
            mo = model[len(cases) + j]
            if mo.startswith('err') != (r.get('status') != 'ok'):
                kdiff += 1
                ctx.broken.append(('K15 correspondence (malformed)', 'args %s model %r real %r' % (m, mo, r.get('status'))))
    ctx.coverage.update({
        'evaluations': len(cases) + len(malformed), 'distinct_nontrivial': len(nontrivial),
        'rule': '%d option prefixes x every program-argument list of length <= %d over %d tokens (sampled in quick) + random lists of length 3-10, '
                'in module / shielded-script / plain-script shape, + 6 malformed command lines; non-trivial = some program argument looks like an option' % (len(PREFIXES), maxlen, len(TOKS)),
        'shape_distribution': dist, 'traces_validated_against_impl': len(cases) - kdiff, 'correspondence_disagreements': kdiff,
        'exhaustive': not ctx.quick})
    ctx.coverage['samples'].append({'args': cases[-1][1], 'real': results[len(cases) - 1], 'model': model[len(cases) - 1] if model else None})
    ctx.assumptions += ['argparse is modelled only on kernprof\'s option grammar (exact option names, --long=value, separate value tokens); '
                        'abbreviated long options and clustered short flags are outside the model and outside the generated prefixes',
                        '-i/--output-interval prefixes are exercised in C07/C19 (timer threads), not here']
    return ctx.finish('Lean: module_mode / script_plain / script_shielded / options_only_from_prefix for all argument lists and option tables; bridge: emitted '
                      'pre_parse = model; K15 runs the real entry point in-process')


def replay(ctx, path):
    data = json.load(open(path))
    args = data['witness']['args']
    print(json.dumps(corelib.run_real(ctx.build(), [args], worker='c15_worker.py')[0]))
    print(lean_driver('argv', ['parse ' + enc(args)]))
    return 0
