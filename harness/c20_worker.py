"""Worker for C20: the real %lprun magic in an in-process IPython shell.
JSON in: {"cases": [{"opts": [...], "funcs": [...], "mods": [...], "stmt_kind": str, "pre_profile": bool, "D": bool, "T": bool}]}"""
import builtins
import contextlib
import io
import json
import os
import sys
import tempfile

from IPython.testing.globalipapp import get_ipython
import line_profiler
import line_profiler.ipython_extension as ext

ip = get_ipython()
ip.run_line_magic('load_ext', 'line_profiler')
PAGES = []
ext.page = lambda s: PAGES.append(s)

SETUP = '''
import sys
def f(n):
    s = 0
    for i in range(n):
        s += i
    return s

def g(n):
    return n * 2

def h(n):
    return f(n) + g(n) + 1

class K:
    def meth(self, n):
        return g(n) + 1

sq = lambda x: x * x            # two different functions with the same module and the same qualified name
cube = lambda x: x ** 3

def ender(kind):
    if kind == 'exit':
        sys.exit(3)
    if kind == 'kbint':
        raise KeyboardInterrupt()
    if kind == 'error':
        raise ValueError('boom')

import functools
def logged(fn):
    @functools.wraps(fn)
    def wrapper(*a):
        r = fn(*a)
        return r
    return wrapper

@logged
def deco(n):
    return n + 5
'''
MODSRC = '''
def mf(n):
    t = 0
    for i in range(n):
        t += 1
    return t

def mg(n):
    return mf(n) + 1

import lpv_base as _b

class Child(_b.Base):
    def run(self, x):
        return self.helper(x) + 1
'''
# a module nobody names: its class is only the base of a class of the named module
BASESRC = '''
class Base:
    def helper(self, x):
        y = x + 1
        return y
'''


def canon_timings(t):
    return {'%s:%s%s' % (os.path.basename(k[0]) if not k[0].startswith('<') else 'cell', k[2], '@%d' % k[1] if k[2] == '<lambda>' else ''):
            [[l - k[1], h] for (l, h, _x) in v] for k, v in t.items()}


def run_case(c, d):
    ip.run_cell(SETUP)
    ns_before = set(ip.user_ns)
    marker = object()
    if c['pre_profile']:
        builtins.__dict__['profile'] = marker
    else:
        builtins.__dict__.pop('profile', None)
    line = ''
    for fn in c['funcs']:
        line += ' -f %s' % fn
    for m in c['mods']:
        line += ' -m %s' % m
    for o in c['opts']:
        line += ' ' + o
    dfile = os.path.join(d, 'dump_%d.lprof' % c['id'])
    tfile = os.path.join(d, 'text_%d.txt' % c['id'])
    if c['D']:
        line += ' -D %s' % dfile
    if c['T']:
        line += ' -T %s' % tfile
    kind = c['stmt_kind']
    stmt = ('res = h(4); res2 = K().meth(2); res5 = sq(3) + cube(2) + cube(1); res6 = deco(1); import lpv_mod; res3 = lpv_mod.mg(3) + lpv_mod.Child().run(2); import lpv_pkg.sub; res4 = lpv_pkg.ptop(1) + lpv_pkg.sub.pinner(2); '
            'ender(%r); after = 1' % kind)
    line += ' ' + stmt
    del PAGES[:]
    out = io.StringIO()
    outcome = 'return'
    rv = None
    try:
        with contextlib.redirect_stdout(out):
            rv = ip.run_line_magic('lprun', line)
    except BaseException as e:   # noqa
        outcome = 'Exception:%s' % type(e).__name__
    r = {'outcome': outcome, 'pages': list(PAGES), 'stdout': out.getvalue()[-800:],
         'builtins_after': ('same' if builtins.__dict__.get('profile', None) is marker else 'other') if 'profile' in builtins.__dict__ else 'absent',
         'new_names': sorted(set(ip.user_ns) - ns_before - {'_', '__', '___'} - {k for k in ip.user_ns if k.startswith('_i') or k.startswith('_oh') or k.startswith('_dh') or k in ('_ih', '_ii', '_iii')}),
         'trace_after': sys.gettrace() is not None, 'returned_profiler': isinstance(rv, line_profiler.LineProfiler), 'returned_none': rv is None}
    if isinstance(rv, line_profiler.LineProfiler):
        st = rv.get_stats()
        r['enable_count_after'] = rv.enable_count
        r['registered'] = sorted(getattr(f, '__qualname__', str(f)) for f in rv.functions)
        r['timings'] = canon_timings(st.timings)
        # what the live profiler itself would print with the same options
        buf = io.StringIO()
        unit = None
        if '-u' in ' '.join(c['opts']):
            unit = float([o for o in c['opts'] if o.startswith('-u')][0].split()[1])
        rv.print_stats(buf, output_unit=unit, stripzeros='-s' in c['opts'])
        r['live_text'] = buf.getvalue().rstrip()
        # the statement is over: running the functions now must not be recorded
        ip.user_ns['f'](5)
        r['timings_after_more_calls'] = canon_timings(rv.get_stats().timings)
    if c['D'] and os.path.exists(dfile):
        try:
            r['D_timings'] = canon_timings(line_profiler.load_stats(dfile).timings)
        except Exception as e:   # noqa
            r['D_timings'] = 'unloadable: %r' % e
    elif c['D']:
        r['D_timings'] = 'missing'
    if c['T'] and os.path.exists(tfile):
        r['T_text'] = open(tfile).read()
    elif c['T']:
        r['T_text'] = None
    builtins.__dict__.pop('profile', None)
    for k in ('res', 'res2', 'res3', 'res4', 'res5', 'res6', 'after', 'lpv_mod', 'lpv_pkg'):
        ip.user_ns.pop(k, None)
    return r


def main():
    payload = json.load(sys.stdin)
    out = []
    with tempfile.TemporaryDirectory(dir=os.environ.get('LPVERIF_SCRATCH', '/var/tmp')) as d:
        with open(os.path.join(d, 'lpv_mod.py'), 'w') as fh:
            fh.write(MODSRC)
        with open(os.path.join(d, 'lpv_base.py'), 'w') as fh:
            fh.write(BASESRC)
        # a package whose __init__ and sub-module both define functions: `-m lpv_pkg.sub` names the sub-module only
        os.makedirs(os.path.join(d, 'lpv_pkg'))
        with open(os.path.join(d, 'lpv_pkg', '__init__.py'), 'w') as fh:
            fh.write('def ptop(x):\n    return x + 1\n')
        with open(os.path.join(d, 'lpv_pkg', 'sub.py'), 'w') as fh:
            fh.write('def pinner(x):\n    y = x * 2\n    return y\n')
        sys.path.insert(0, d)
        for c in payload['cases']:
            try:
                out.append(run_case(c, d))
            except Exception:
                import traceback
                out.append({'error': traceback.format_exc()})
    sys.stdout.write('\n{"lpverif": %s}\n' % json.dumps({'results': out}))
    exec('pass')


main()
