"""Shared by C03 and C16: generators of scripted generator cases and of descriptor/partial towers, real + model runners."""
import concurrent.futures as cf
import itertools
import json

from common import run_worker, lean_driver

NW = 10
ACTS_VALUE = ['y1,{n}', 'y2,{n}', 'e{n}', 'r-', 'r7', 're', 'xu3', 'xs', 'xt', 'rr']
ACTS_THROW = ['rr', 'rr', 'y99,{n}', 'e{n}', 'r8', 'r-', 'xu4', 'xr', 're']
ACTS_EXIT = ['rr', 'rr', 'rr', 'r-', 'r5', 'xu5', 'y77,{n}', 'xr', 'xg', 'xs']
OPS = ['s-', 's5', 'tu1', 'tu7', 'tg', 'c', 'ts', 'tu900', 'tu901', 'tu902']


def rand_script(rng, compliant=None):
    n = rng.below(4) + 1
    rows = []
    for i in range(n):
        def pick(tbl):
            a = rng.choice(tbl)
            return a.replace('{n}', str(rng.below(n + 1)))       # next state may be n: falls off the end -> return None
        ex = pick(ACTS_EXIT)
        if compliant:
            while ex[0] in 'ye':
                ex = pick(ACTS_EXIT)
        rows.append(';'.join([pick(ACTS_VALUE), pick(ACTS_THROW), ex]))
    return '|'.join(rows)


FIXED_SCRIPTS = [
    'y1,1;rr;rr|y2,2;y99,2;rr|r42;rr;rr',          # yields, catches a thrown exception, returns a value (F-C03a/b witness)
    'e0;e0;r-',                                     # echoes forever what is sent / thrown, returns on close
    'y1,1;rr;y77,1|r-;rr;rr',                       # ignores GeneratorExit once
    'y1,1;r9;r5|r3;rr;rr',                          # returns values when thrown into / closed
    'xs;rr;rr',                                     # raises StopIteration at once (PEP 479)
    'y1,0;xu9;xu5',                                 # infinite; raises another exception when thrown into / closed
    'r4;rr;rr',                                     # returns immediately
]


def script_compliant(script):
    return all(row.split(';')[2][0] not in 'ye' for row in script.split('|'))


def gen_cases(rng, quick, widen=False):
    cases = []
    maxlen = 3 if quick else 4
    alpha = ['s-', 's5', 'tu7', 'tg', 'c', 'tu900']
    allops = [list(o) for L in range(1, maxlen + 1) for o in itertools.product(alpha, repeat=L)]
    for kind in ('gen', 'coro', 'agen'):
        for sc in FIXED_SCRIPTS:
            ops_sets = allops if not quick else ([o for o in allops if len(o) <= 2] + rng.fork(kind + sc).sample(allops, 40))
            for ops in ops_sets:
                cases.append({'kind': kind, 'script': sc, 'ops': ops, 'profilers': ['line', 'cprof'] if len(ops) <= 2 else ['line']})
    n = (250 if quick else 6000) * (3 if widen else 1)
    for i in range(n):
        r = rng.fork('g%d' % i)
        kind = r.choice(['gen', 'gen', 'coro', 'agen'])
        # StopIteration thrown into an async generator is swallowed by the awaitable protocol itself: not generated
        ops_alpha = [o for o in OPS if not (kind == 'agen' and o == 'ts')]
        cases.append({'kind': kind, 'script': rand_script(r, compliant=r.chance(1, 2)), 'ops': [r.choice(ops_alpha) for _ in range(r.below(12) + 1)],
                      'profilers': ['line', 'cprof'] if r.chance(1, 4) else ['line'], 'inner_await': kind == 'agen' and r.chance(1, 2)})
    return cases


def gen_model_lines(case):
    mk = case['kind']
    raw = {'gen': 'raw', 'coro': 'rawcoro', 'agen': 'rawagen'}[case['kind']]
    return ['script ' + case['script'], 'run %s ' % raw + ' '.join(case['ops']), 'run %s ' % mk + ' '.join(case['ops'])]


def agen_view(kind, res):
    """an async generator cannot return a value: 'S<v>' of the model reads 'S-'"""
    if kind != 'agen':
        return res
    return ['S-' if r.startswith('S') else r for r in res]


# ----------------------------------------------------------------------------------------------------- towers
KINDS = ['plain', 'plain', 'gen', 'coro', 'agen']


def rand_inner(rng, depth, p, nprof, allow_w=True):
    r = rng.below(10)
    if depth <= 0 or r < 3:
        return ['fn', str(rng.below(6) + 1), rng.choice(KINDS)]
    if r < 4:
        return ['obj', str(rng.below(3) + 60), str(rng.below(3) + 7)]
    if r < 6:
        n = rng.below(3)
        return ['pa', str(n)] + [str(rng.below(5) + 1) for _ in range(n)] + rand_inner(rng, depth - 1, p, nprof, allow_w)
    if r < 8:
        return ['bd', str(rng.below(3) + 40)] + rand_inner(rng, depth - 1, p, nprof, allow_w)
    if allow_w:
        q = rng.below(nprof)
        return ['w', str(q), 'fn', str(rng.below(6) + 1), rng.choice(KINDS)]
    return ['fn', str(rng.below(6) + 1), rng.choice(KINDS)]


def flatten(t):
    """functools.partial(partial(f, *b), *a) is built by CPython as partial(f, *b, *a): generate the flattened form"""
    out = list(t)
    i = 0
    while i < len(out):
        if out[i] == 'pa':
            n = int(out[i + 1])
            j = i + 2 + n
            if j < len(out) and out[j] == 'pa':
                m = int(out[j + 1])
                a, b = out[i + 2:i + 2 + n], out[j + 2:j + 2 + m]
                out[i:j + 2 + m] = ['pa', str(n + m)] + b + a
                continue
        i += 1
    return out


def rand_tower(rng, p, nprof, allow_w=True):
    t, acc = rand_tower0(rng, p, nprof, allow_w)
    return flatten(t), acc


def rand_tower0(rng, p, nprof, allow_w=True):
    depth = rng.below(3)
    r = rng.below(12)

    def inner():
        t = rand_inner(rng.fork('i%d' % rng.below(1 << 30)), depth, p, nprof, allow_w)
        # a bound method under a descriptor is re-bound by the descriptor protocol (a composition nobody writes): not generated
        while r >= 3 and t[0] == 'bd':
            t = t[2:]
        return t
    if r < 3:
        t = inner()
        return t, [['call', [rng.below(4) + 1 for _ in range(rng.below(3))]]]
    if r < 5:
        return ['cm'] + inner(), [['call', [rng.below(4) + 1 for _ in range(rng.below(3))]]]
    if r < 6:
        return ['sm'] + inner(), [['call', [rng.below(4) + 1 for _ in range(rng.below(3))]]]
    if r < 8:
        n = rng.below(3)
        return ['pm', str(n)] + [str(rng.below(5) + 1) for _ in range(n)] + inner(), [['call', [50] + [rng.below(4) + 1 for _ in range(rng.below(2))]]]
    if r < 11:
        impls = []
        for k in range(3):
            t = ['none'] if rng.chance(2, 5) else inner()
            if k > 0:     # the result of a setter / deleter is discarded: a generator or coroutine function there never runs
                t = ['plain' if x in ('gen', 'coro', 'agen') else x for x in t]
            impls.append(t)
        return ['pr', str(rng.below(3)), '0'] + impls[0] + impls[1] + impls[2], [['get', 50], ['set', 50, 3], ['del', 50]]
    return ['cp', '1'] + inner(), [['get', 50]]


def tower_cases(rng, quick, widen=False):
    cases = []
    # all property shapes x plain accessors (gaps included), every single-layer kind
    for g, s, d in itertools.product([0, 1], repeat=3):
        t = ['pr', '1', '0'] + (['fn', '1', 'plain'] if g else ['none']) + (['fn', '2', 'plain'] if s else ['none']) + (['fn', '3', 'plain'] if d else ['none'])
        cases.append({'tower': t, 'p': 0, 'nprof': 2, 'accesses': [['get', 50], ['set', 50, 3], ['del', 50]], 'profilers': ['line', 'cprof']})
    for kind in ['plain', 'gen', 'coro', 'agen']:
        base = ['fn', '1', kind]
        for t, acc in [(base, [['call', [1, 2]]]), (['cm'] + base, [['call', [4]]]), (['sm'] + base, [['call', [4]]]),
                       (['bd', '41'] + base, [['call', [2]]]), (['pa', '2', '1', '2'] + base, [['call', [3]]]),
                       (['pm', '1', '9'] + base, [['call', [50, 3]]]), (['cp', '1'] + base, [['get', 50]]),
                       (['w', '0'] + base, [['call', [1]]]), (['w', '1'] + base, [['call', [1]]]),
                       (['cm', 'w', '0'] + base, [['call', [1]]]), (['cm', 'pa', '1', '5', 'bd', '42', 'w', '1'] + base, [['call', [1]]])]:
            cases.append({'tower': t, 'p': 0, 'nprof': 2, 'accesses': acc, 'profilers': ['line', 'cprof'] if 'w' not in t else ['line']})
    cases.append({'tower': ['obj', '60', '7'], 'p': 0, 'nprof': 2, 'accesses': [['call', [1]]], 'profilers': ['line', 'cprof']})
    n = (300 if quick else 5000) * (3 if widen else 1)
    for i in range(n):
        r = rng.fork('t%d' % i)
        nprof = 3
        p = r.below(nprof)
        cprof = r.chance(1, 5)
        t, acc = rand_tower(r, p, nprof, allow_w=not cprof)
        cases.append({'tower': t, 'p': p, 'nprof': nprof, 'accesses': acc, 'profilers': ['cprof'] if cprof else ['line']})
    return cases


def tower_model_lines(case):
    t = ' '.join(case['tower'])
    p = case['p']
    lines = ['wrap %d %s' % (p, t), 'registered %d %s' % (p, t)]
    for acc in case['accesses']:
        if acc[0] == 'call':
            a = 'call ' + (','.join(map(str, acc[1])) or '-')
        else:
            a = ' '.join(map(str, acc))
        lines.append('invoke %d %s %s' % (p, a, t))                   # original
        lines.append('invoke %d %s WRAPPED' % (p, a))                 # filled in with the model's own wrap output
    return lines


def run_real(build, gens, towers):
    parts_g = [gens[i::NW] for i in range(NW)]
    parts_t = [towers[i::NW] for i in range(NW)]
    with cf.ThreadPoolExecutor(max_workers=NW) as ex:
        futs = [ex.submit(run_worker, build, 'wrap_worker.py', {'gens': parts_g[i], 'towers': parts_t[i]}) for i in range(NW)]
        outs = [f.result() for f in futs]
    rg = [None] * len(gens)
    rt = [None] * len(towers)
    for i, o in enumerate(outs):
        for j, r in enumerate(o['gens']):
            rg[i + j * NW] = r
        for j, r in enumerate(o['towers']):
            rt[i + j * NW] = r
    return rg, rt


def run_model_gens(gens):
    lines = []
    for c in gens:
        lines += gen_model_lines(c)
    out = lean_driver('wrap', lines)
    res = []
    k = 0
    for c in gens:
        res.append({'raw': out[k].split(), 'wrapped': out[k + 1].split()})
        k += 2
    return res


def run_model_towers(towers):
    """two passes: the second feeds the model's own `wrap` output back for the accesses on the wrapped object"""
    first = lean_driver('wrap', ['wrap %d %s' % (c['p'], ' '.join(c['tower'])) for c in towers])
    lines = []
    for c, w in zip(towers, first):
        t = ' '.join(c['tower'])
        lines.append('registered %d %s' % (c['p'], t))
        lines.append('wrap %d %s' % (c['p'], w))
        lines.append('registered %d %s' % (c['p'], w))
        for acc in c['accesses']:
            a = ('call ' + (','.join(map(str, acc[1])) or '-')) if acc[0] == 'call' else ' '.join(map(str, acc))
            lines.append('invoke %d %s %s' % (c['p'], a, t))
            lines.append('invoke %d %s %s' % (c['p'], a, w))
    out = lean_driver('wrap', lines)
    res = []
    k = 0
    for c, w in zip(towers, first):
        r = {'wrapped': w.split(), 'registered': [x.split() for x in out[k].split(' | ') if x.strip()],
             'again': out[k + 1].split(), 'registered_again': [x.split() for x in out[k + 2].split(' | ') if x.strip()], 'accesses': []}
        k += 3
        for acc in c['accesses']:
            r['accesses'].append({'orig': out[k].split(), 'wrapped': out[k + 1].split()})
            k += 2
        res.append(r)
    return res
