"""Worker for C15: runs the real kernprof.main(args) in-process on token lists; the profiled program records
what it sees as sys.argv; the worker records which output file appeared, its type and whether a report was printed."""
import contextlib
import glob
import io
import json
import os
import sys
import tempfile
import threading

# the program also uses the importable decorator: whether *that* profiles must not depend on the program's own arguments
PROG = ('import sys, json\nopen("argv.json", "w").write(json.dumps(sys.argv))\nfrom line_profiler import profile as _lp\n\n\n@_lp\ndef _work(n):\n    return n + 1\n\n\n'
        '_work(1)\n')


def run_one(args):
    import kernprof
    import line_profiler
    for f in glob.glob('*.prof') + glob.glob('*.lprof') + glob.glob('out.bin') + ['argv.json']:
        if os.path.exists(f):
            os.remove(f)
    buf = io.StringIO()
    argv0, path0 = list(sys.argv), list(sys.path)
    try:
        with contextlib.redirect_stdout(buf), contextlib.redirect_stderr(buf):
            kernprof.main(list(args))
        st = 'ok'
    except SystemExit as e:
        st = 'exit%s' % e.code
    except BaseException as e:   # noqa
        st = 'exc:' + type(e).__name__ + ':' + str(e)[:200]
    finally:
        # did the program's arguments switch the explicit profiler on behind kernprof's back?
        explicit_after = [line_profiler.profile.enabled, line_profiler.profile._profile is not None]
        import atexit
        atexit.unregister(line_profiler.profile.show)
        line_profiler.profile.enabled = None
        line_profiler.profile._profile = None
        sys.argv[:] = argv0
        sys.argv = sys.argv
        sys.path[:] = path0
        import builtins
        builtins.__dict__.pop('profile', None)
        # harness isolation only (what a run leaves behind is C19's subject): release tracing state
        sys.settrace(None)
        sys.setprofile(None)
        try:
            sys.monitoring.free_tool_id(sys.monitoring.PROFILER_ID)
        except Exception:
            pass
        for t in threading.enumerate():
            if isinstance(t, threading.Timer):
                t.cancel()
    argv = json.load(open('argv.json')) if os.path.exists('argv.json') else None
    files = sorted(glob.glob('*.prof') + glob.glob('*.lprof') + glob.glob('out.bin'))
    kinds = []
    for f in files:
        try:
            line_profiler.load_stats(f)
            kinds.append('lprof')
        except Exception:
            kinds.append('pstats')
    out = buf.getvalue()
    return {'status': st, 'argv': argv, 'files': files, 'kinds': kinds, 'explicit_after': explicit_after,
            'viewed': ('Timer unit' in out or 'function calls' in out), 'ambiguous': 'ambiguous option' in out}


def main():
    payload = json.load(sys.stdin)
    res = []
    old = os.getcwd()
    with tempfile.TemporaryDirectory(prefix='lpverif-c15-') as d:
        os.chdir(d)
        for name in ('x', 'mod.py', 'setup.py'):
            with open(name, 'w') as fh:
                fh.write(PROG if name != 'setup.py' else 'pass\n')
        try:
            for args in payload['cases']:
                try:
                    res.append(run_one(args))
                except Exception:
                    import traceback
                    res.append({'error': traceback.format_exc()})
        finally:
            os.chdir(old)
    sys.stdout.write('\n{"lpverif": %s}\n' % json.dumps({'results': res}))


if __name__ == '__main__':
    main()
