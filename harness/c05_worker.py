"""Worker for C05: executes by-count histories on the real profilers, from several threads
(serialised by hand-off so the history is known), and records (count, tracing, tool) after every
operation and inside every decorated body."""
import json
import queue
import sys
import threading

import line_profiler
import kernprof

MON = sys.monitoring


class Suspend:
    def __await__(self):
        yield 1


def observe(prof, cls):
    tool = MON.get_tool(MON.PROFILER_ID)
    if cls == 'line':
        return [prof.enable_count, 1 if sys.gettrace() is not None else 0, 1 if tool == 'line_profiler' else 0]
    return [prof.enable_count, 1 if tool == 'cProfile' else 0, 1 if tool == 'cProfile' else 0]


def run_case(case):
    cls = case['cls']
    prof = line_profiler.LineProfiler() if cls == 'line' else kernprof.ContextualProfile()
    log = []

    def obs():
        log.append(observe(prof, cls))

    @prof
    def ret(x):
        obs()
        return x

    @prof
    def boom(x):
        obs()
        raise ValueError(x)

    @prof
    def boom_base(exc):
        obs()
        raise exc()

    @prof
    def outer(x):
        obs()
        try:
            r = boom(x) if x % 2 else ret(x)
        except ValueError:
            r = -1
        obs()
        return r

    @prof
    def gen(n):
        for i in range(n):
            obs()
            try:
                yield i
            except KeyError:
                obs()

    @prof
    async def coro(n):
        obs()
        await Suspend()
        obs()
        return n

    slots = {}

    def do(op, t=0):
        name = op[0]
        if name.startswith('gen_'):
            op = [op[0], (t, op[1])] + list(op[2:])
        if name == 'enbc':
            prof.enable_by_count()
        elif name == 'disbc':
            prof.disable_by_count()
        elif name == 'enter':
            prof.__enter__()
        elif name == 'exit':
            prof.__exit__(None, None, None)
        elif name == 'exit_exc':
            # the with-block is left by an exception: it gives back its one request, like any other way out
            try:
                raise ValueError('leaving the block')
            except ValueError as e:
                prof.__exit__(type(e), e, e.__traceback__)
        elif name == 'call_ret':
            ret(1)
        elif name == 'call_raise':
            try:
                boom(1)
            except ValueError:
                pass
        elif name in ('call_exit', 'call_kbint', 'call_cancel', 'call_genexit'):
            # the decorated call is left by an exception that is not an `Exception` (sys.exit(), an interrupt, a cancelled task)
            import asyncio
            exc = {'call_exit': SystemExit, 'call_kbint': KeyboardInterrupt, 'call_cancel': asyncio.CancelledError, 'call_genexit': GeneratorExit}[name]
            try:
                boom_base(exc)
            except BaseException:   # noqa
                pass
        elif name == 'nested':
            outer(op[1])
        elif name == 'gen_new':
            slots[op[1]] = gen(op[2])
        elif name == 'gen_next':
            try:
                next(slots[op[1]])
            except StopIteration:
                pass
        elif name == 'gen_send':
            try:
                slots[op[1]].send(None)
            except StopIteration:
                pass
        elif name == 'gen_close':
            slots[op[1]].close()
        elif name == 'gen_drop':
            slots.pop(op[1], None)
        elif name == 'gen_exhaust':
            for _ in slots[op[1]]:
                pass
        elif name == 'co_new':
            slots[('co', t, op[1])] = coro(3)
        elif name == 'co_step':
            c = slots.get(('co', t, op[1]))
            if c is not None:
                try:
                    c.send(None)
                except (StopIteration, RuntimeError):
                    pass
        elif name == 'co_close':
            c = slots.get(('co', t, op[1]))
            if c is not None:
                c.close()
        elif name == 'coro_run':
            c = coro(3)
            try:
                while True:
                    c.send(None)
            except StopIteration:
                pass
        elif name == 'coro_abandon':
            c = coro(3)
            c.send(None)
            c.close()
        else:
            raise ValueError(name)
        obs()

    # worker threads, strictly serialised
    nthreads = max([o[0] for o in case['history']] + [0]) + 1
    qs = [queue.Queue() for _ in range(nthreads)]
    done = queue.Queue()

    def loop(k):
        while True:
            op = qs[k].get()
            if op is None:
                # a thread's own count must be back where its ops left it; report and end
                done.put(None)
                return
            try:
                do(op, k)
                done.put(None)
            except BaseException as e:   # noqa
                done.put(repr(e))

    # threads start at their first operation and end at their `end` operation (a later thread then usually gets the
    # ended thread's recycled identifier: per-thread state must not survive its thread)
    ths = {}
    marks = []
    err = None
    for (t, *op) in case['history']:
        start = len(log)
        if op[0] == 'end':
            if t in ths:
                qs[t].put(None)
                done.get()
                ths.pop(t).join()
            marks.append([])
            continue
        if t == 0:
            try:
                do(op)
            except BaseException as e:   # noqa
                err = repr(e)
        else:
            if t not in ths:
                ths[t] = threading.Thread(target=loop, args=(t,))
                ths[t].start()
            qs[t].put(op)
            r = done.get()
            if r:
                err = r
        marks.append(log[start:])
        if err:
            break
    for k in list(ths):
        qs[k].put(None)
        done.get()
        ths.pop(k).join()
    # clean up whatever the history left enabled (main thread only; others have ended)
    while prof.enable_count > 0:
        prof.disable_by_count()
    # finalise what the history abandoned *now*: a decorated generator collected later would run its wrapper's
    # enable / disable bracket (of this case's profiler) in the middle of another case
    for g in list(slots.values()):
        try:
            g.close()
        except BaseException:   # noqa
            pass
    slots.clear()
    import gc
    gc.collect()
    while prof.enable_count > 0:
        prof.disable_by_count()
    return {'obs': marks, 'error': err}


def main():
    payload = json.load(sys.stdin)
    out = []
    for case in payload['cases']:
        try:
            out.append(run_case(case))
        except Exception:
            import traceback
            out.append({'error': traceback.format_exc(), 'obs': []})
    sys.stdout.write('\n{"lpverif": %s}\n' % json.dumps({'results': out}))


if __name__ == '__main__':
    main()
